#!/bin/bash
# seedtool.sh verify <seed-dir> <name>   : confirm a seeded change in a scratch worktree (suite passes, demo fails with / passes without)
# seedtool.sh run <name> <prop> [tier]   : apply /verif/seeded/<name>/patch.diff to /repo, run the check, undo
set -u
export GOFLAGS=-mod=mod GOPROXY=off GOSUMDB=off GOTOOLCHAIN=local
cmd=$1
case $cmd in
verify)
  src=$2; name=$3; wt=/tmp/sv_$name; T=/tmp/svt_${name}_$$
  git -C /repo worktree remove --force $wt 2>/dev/null
  git -C /repo worktree add -q $wt HEAD || exit 2
  cd $wt
  if ! git apply --3way $src/patch.diff 2>${T}_sv_apply.err; then echo "APPLY-FAILED $(head -3 ${T}_sv_apply.err)"; git -C /repo worktree remove --force $wt; exit 3; fi
  git reset -q
  go build ./... || { echo BUILD-FAILED; git -C /repo worktree remove --force $wt; exit 3; }
  suite_ok=1
  for i in 1 2; do go test -vet=off -count=1 ./... > ${T}_sv_suite.out 2>&1 || { suite_ok=0; grep -E "^\s*--- FAIL" ${T}_sv_suite.out | head -3; }; done
  pkgdir=.
  grep -q "^package wsjson" $src/demo_test.go && pkgdir=wsjson
  cp $src/demo_test.go $pkgdir/zz_seed_demo_test.go
  go test -vet=off -count=1 -run 'TestSeedDemo' ./$pkgdir > ${T}_sv_demo_with.out 2>&1; with_rc=$?
  git diff > ${T}_sv_patch.diff; git checkout -q -- . 
  go test -vet=off -count=1 -run 'TestSeedDemo' ./$pkgdir > ${T}_sv_demo_without.out 2>&1; without_rc=$?
  echo "name=$name suite_with_change_ok=$suite_ok demo_with_change_rc=$with_rc demo_without_rc=$without_rc"
  if [ $suite_ok = 1 ] && [ $with_rc != 0 ] && [ $without_rc = 0 ] && [ -n "${SEED_VERIFY_NOWRITE:-}" ]; then
    echo CONFIRMED
  elif [ $suite_ok = 1 ] && [ $with_rc != 0 ] && [ $without_rc = 0 ]; then
    mkdir -p /verif/seeded/$name
    cp ${T}_sv_patch.diff /verif/seeded/$name/patch.diff
    cp $src/demo_test.go /verif/seeded/$name/demo_test.go
    cp $src/README.md /verif/seeded/$name/AGENT_README.md 2>/dev/null
    tail -5 ${T}_sv_demo_with.out > /verif/seeded/$name/demo_with_change.txt
    echo CONFIRMED
  else
    echo NOT-CONFIRMED; tail -5 ${T}_sv_demo_without.out
  fi
  cd /; git -C /repo worktree remove --force $wt; rm -f ${T}_*
  ;;
run)
  # runs the check against a scratch worktree carrying the seeded change (VERIF_REPO), evidence goes to a scratch dir
  name=$2; prop=$3; tier=${4:-quick}
  wt=/tmp/sr_${name}_$$
  git -C /repo worktree add -q $wt HEAD || exit 2
  (cd $wt && git apply /verif/seeded/$name/patch.diff) || { echo "cannot apply"; git -C /repo worktree remove --force $wt; exit 3; }
  mkdir -p /tmp/seed_evidence
  cd /verif && VERIF_REPO=$wt VERIF_EVIDENCE_DIR=/tmp/seed_evidence timeout 1500 ./check $prop $tier "${@:5}" > /tmp/seedrun_${name}_${prop}.out 2>&1; rc=$?
  git -C /repo worktree remove --force $wt
  echo "seed=$name prop=$prop exit=$rc"
  grep -E "^(VIOLATION|KNOWN|INCONCLUSIVE|property=)" /tmp/seedrun_${name}_${prop}.out | cut -c1-200 | sort | uniq -c | sort -rn | head -8
  grep -A1 "^VIOLATION" /tmp/seedrun_${name}_${prop}.out | grep obligation | cut -c1-200 | sort | uniq -c | head -6
  ;;
esac
