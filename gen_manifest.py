import json
checks=json.load(open('/verif/checks.json'))
props=[json.loads(l) for l in open('/verif/properties.jsonl')]
meta=json.load(open('/verif/manifest_meta.json'))
out={"version":1,
 "setup_cmd":"cd /verif/engine && GOFLAGS=-mod=mod GOPROXY=off GOSUMDB=off GOTOOLCHAIN=local go build -o ../bin/symgo .",
 "hooks":{"guard":"verif","enable":"none needed: harnesses are injected as go/packages and `go test -overlay` overlays (virtual files /repo/zz_verif_*.go); no source change in /repo","baseline_off_cmd":"cd /repo && go test -vet=off -count=1 -timeout 25m ./...","source_commits":[],"add_only":True},
 "engines":[{"name":"symgo","path":"/verif/engine","serves_properties":sorted(checks.keys()),"kind_free_text":"bounded symbolic executor for Go SSA (x/tools go/ssa v0.29.0) written for this task: concrete heap, bit-vector scalars, cooperative goroutine/channel/select model with ghost clock, SMT-LIB2 to z3 5.1.0 (z3 4.8.12 / cvc5 as second solvers), native replay of every counterexample via go test -overlay"}],
 "checks":[], "not_applicable":[], "notes": meta.get("notes","")}
for p in props:
    pid=p['id']
    if pid in checks and pid in meta['claimed']:
        m=meta['claimed'][pid]
        out['checks'].append({"property_id":pid,"quick_cmd":"./check %s quick"%pid,"thorough_cmd":"./check %s thorough"%pid,
          "evidence_file":"/verif/evidence/%s.json"%pid,"replay_cmd_template":"./check --replay {path}","engine":"symgo",
          "level_claimed":{"category":"model_checking","text":m['text'],"design_ref":m.get('design_ref','DESIGN.md §5 '+pid)},
          "level_note":m['note'],"technique":m['technique']})
    else:
        out['not_applicable'].append({"property_id":pid,"reason":meta['not_applicable'].get(pid,"check not built yet in this session (planned in DESIGN.md §5); no claim is made")})
json.dump(out,open('/verif/MANIFEST.json','w'),indent=1)
print(len(out['checks']),"claimed;",len(out['not_applicable']),"n/a")
