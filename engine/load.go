package main

import (
	"fmt"
	"go/types"
	"os"
	"path/filepath"
	"sort"
	"strings"
	"sync"

	"golang.org/x/tools/go/packages"
	"golang.org/x/tools/go/ssa"
	"golang.org/x/tools/go/ssa/ssautil"
)

// Engine holds what is shared (read-only) between all paths and workers of one run.
type Engine struct {
	RepoDir    string
	HarnessDir string
	Prog       *ssa.Program
	Pkgs       map[string]*ssa.Package // by import path
	MainPkg    *ssa.Package            // nhooyr.io/websocket
	Sizes      types.Sizes
	AsmFuncs   map[string]*AsmFunc // "pkgpath.name" -> parsed assembly
	Overlay    map[string][]byte
	LoadErrors []string
	Excluded   []string // harness files left out because they do not type-check against this tree

	fnInfoMap sync.Map

	methodCache sync.Map // methodKey -> *ssa.Function

	intrinsics map[string]Intrinsic
	ptrTypes   sync.Map
}

type methodKey struct {
	t    types.Type
	name string
	pkg  *types.Package
}

// overlayFiles maps every /verif/harness/<pkgdir>/*.go to a virtual file inside the repo package directory.
// harness/websocket/*.go -> /repo/zz_verif_*.go ; harness/wsjson/*.go -> /repo/wsjson/zz_verif_*.go
func overlayFiles(repo, harnessDir string, includeTests bool) (map[string]string, error) {
	res := map[string]string{}
	for _, sub := range []struct{ dir, dst string }{{"websocket", ""}, {"wsjson", "wsjson"}} {
		d := filepath.Join(harnessDir, sub.dir)
		ents, err := os.ReadDir(d)
		if err != nil {
			continue
		}
		for _, e := range ents {
			n := e.Name()
			if !strings.HasSuffix(n, ".go") {
				continue
			}
			if strings.HasSuffix(n, "_test.go") && !includeTests {
				continue
			}
			virt := filepath.Join(repo, sub.dst, "zz_verif_"+n)
			res[virt] = filepath.Join(d, n)
		}
	}
	return res, nil
}

func LoadEngine(repo, harnessDir string) (*Engine, error) {
	return loadEngine(repo, harnessDir, nil)
}

func loadEngine(repo, harnessDir string, exclude map[string]bool) (*Engine, error) {
	ov, err := overlayFiles(repo, harnessDir, false)
	if err != nil {
		return nil, err
	}
	overlay := map[string][]byte{}
	for virt, real := range ov {
		if exclude[virt] {
			continue
		}
		b, err := os.ReadFile(real)
		if err != nil {
			return nil, err
		}
		overlay[virt] = b
	}
	cfg := &packages.Config{
		Mode: packages.NeedName | packages.NeedFiles | packages.NeedCompiledGoFiles | packages.NeedImports |
			packages.NeedDeps | packages.NeedTypes | packages.NeedSyntax | packages.NeedTypesInfo | packages.NeedTypesSizes | packages.NeedModule,
		Dir:     repo,
		Overlay: overlay,
		Env:     append(os.Environ(), "GOFLAGS=-mod=mod", "GOPROXY=off", "GOSUMDB=off", "GOTOOLCHAIN=local", "CGO_ENABLED=0"),
	}
	initial, err := packages.Load(cfg, ".", "./wsjson")
	if err != nil {
		return nil, err
	}
	e := &Engine{RepoDir: repo, HarnessDir: harnessDir, Pkgs: map[string]*ssa.Package{}, Overlay: overlay}
	packages.Visit(initial, nil, func(p *packages.Package) {
		for _, er := range p.Errors {
			e.LoadErrors = append(e.LoadErrors, er.Error())
		}
	})
	if len(e.LoadErrors) > 0 && len(exclude) == 0 {
		// A harness file may no longer type-check against a changed tree (a renamed internal). Drop the offending harness
		// files and try once more: the obligations of the other files can still be decided.
		bad := map[string]bool{}
		for _, msg := range e.LoadErrors {
			for virt := range ov {
				if strings.Contains(msg, virt+":") {
					bad[virt] = true
				}
			}
		}
		if len(bad) > 0 && len(bad) < len(ov) {
			e2, err2 := loadEngine(repo, harnessDir, bad)
			if err2 == nil {
				for v := range bad {
					e2.Excluded = append(e2.Excluded, filepath.Base(v))
				}
				sort.Strings(e2.Excluded)
				return e2, nil
			}
		}
	}
	if len(e.LoadErrors) > 0 {
		sort.Strings(e.LoadErrors)
		return e, fmt.Errorf("package load errors: %s", strings.Join(e.LoadErrors, "; "))
	}
	prog, _ := ssautil.AllPackages(initial, ssa.InstantiateGenerics|ssa.SanityCheckFunctions&0)
	prog.Build()
	e.Prog = prog
	for _, p := range prog.AllPackages() {
		e.Pkgs[p.Pkg.Path()] = p
	}
	e.MainPkg = e.Pkgs["nhooyr.io/websocket"]
	if e.MainPkg == nil {
		return e, fmt.Errorf("package nhooyr.io/websocket not found")
	}
	e.Sizes = initial[0].TypesSizes
	e.AsmFuncs = map[string]*AsmFunc{}
	// assembly of the main package
	ents, _ := os.ReadDir(repo)
	for _, en := range ents {
		if strings.HasSuffix(en.Name(), "_amd64.s") {
			b, err := os.ReadFile(filepath.Join(repo, en.Name()))
			if err == nil {
				for name, af := range ParseAsm(string(b), en.Name()) {
					e.AsmFuncs["nhooyr.io/websocket."+name] = af
				}
			}
		}
	}
	e.intrinsics = buildIntrinsics()
	return e, nil
}

func (e *Engine) LookupMethod(t types.Type, meth *types.Func) *ssa.Function {
	k := methodKey{t, meth.Name(), meth.Pkg()}
	if f, ok := e.methodCache.Load(k); ok {
		return f.(*ssa.Function)
	}
	f := e.Prog.LookupMethod(t, meth.Pkg(), meth.Name())
	e.methodCache.Store(k, f)
	return f
}

// fnInfo numbers the SSA values of a function so frames can use a slice instead of a map.
type fnInfo struct {
	index map[ssa.Value]int
	n     int
	// raceSkip: loads and stores made by this function are not race-checked (pure computation inside the standard
	// library on state that is private to one compressor / hash / formatter; checking them only costs time)
	raceSkip bool
}

func (e *Engine) info(fn *ssa.Function) *fnInfo {
	if fi, ok := e.fnInfoMap.Load(fn); ok {
		return fi.(*fnInfo)
	}
	fi := &fnInfo{index: map[ssa.Value]int{}}
	if fn.Pkg != nil {
		switch fn.Pkg.Pkg.Path() {
		case "compress/flate", "math/bits", "sort", "strconv", "unicode", "unicode/utf8", "hash/crc32", "crypto/sha1", "encoding/base64":
			fi.raceSkip = true
		}
	}
	add := func(v ssa.Value) {
		if _, ok := fi.index[v]; !ok {
			fi.index[v] = fi.n
			fi.n++
		}
	}
	for _, p := range fn.Params {
		add(p)
	}
	for _, fv := range fn.FreeVars {
		add(fv)
	}
	for _, l := range fn.Locals {
		add(l)
	}
	for _, b := range fn.Blocks {
		for _, in := range b.Instrs {
			if v, ok := in.(ssa.Value); ok {
				add(v)
			}
		}
	}
	act, _ := e.fnInfoMap.LoadOrStore(fn, fi)
	return act.(*fnInfo)
}

func (e *Engine) FindFunc(pkgPath, name string) *ssa.Function {
	p := e.Pkgs[pkgPath]
	if p == nil {
		return nil
	}
	return p.Func(name)
}
