package main

// Cooperative goroutines, channels, select, mutexes and the ghost clock.
// Exactly one interpreted goroutine runs at a time; control changes hands only at
// synchronisation operations. Each interpreted goroutine lives on its own host goroutine
// and is resumed through its wake channel.

import (
	"fmt"
	"go/types"
	"sort"

	"golang.org/x/tools/go/ssa"
)

type gState int

const (
	gRunnable gState = iota
	gRunning
	gBlocked
	gDead
)

type chanCase struct {
	ch   *ChanV
	send bool
	val  Value
}

type waitState struct {
	cases      []chanCase // channel operations this goroutine is blocked on (select or single op)
	mutex      *mutexState
	rlock      bool
	fired      int // index of the case completed by a partner, -1 while waiting
	recvVal    Value
	recvOk     bool
	sleepUntil *Term // ghost instant at which a sleeper wakes (nil: not sleeping); symbolic when a duration was
	woken      bool  // set by advanceClock when the sleeper was chosen as the earliest pending event
	custom     func() bool // generic wait condition (re-evaluated by the scheduler)
	what       string
}

type G struct {
	id        int
	state     gState
	wake      chan struct{}
	top       *Frame
	wait      *waitState
	name      string
	isLib     bool // started by library code (not by the harness)
	connTag   *Value
	exitPanic *targetPanic
	vc        VC // happens-before vector clock (race detection)
}

type mutexState struct {
	locked  bool
	readers int
	owner   int
}

type timerV struct {
	when   *Term // ghost instant (64-bit term; a constant unless a symbolic duration is involved)
	never  bool  // armed with a duration that overflows the clock: never fires
	fn     Value  // AfterFunc callback
	ch     *ChanV // NewTimer channel
	active bool
	id     int
	cell   *Value // the *time.Timer object
	vc     VC     // clock of the goroutine that armed the timer
}

// ---------- running ----------

func (m *Machine) newG(name string) *G {
	g := &G{id: m.nextGID, wake: make(chan struct{}), name: name}
	m.nextGID++
	m.gs = append(m.gs, g)
	return g
}

// startHost runs body as goroutine g on a fresh host goroutine; it first waits to be scheduled.
func (m *Machine) startHost(g *G, body func()) {
	go func() {
		<-g.wake
		defer func() {
			r := recover()
			g.state = gDead
			if r != nil {
				switch p := r.(type) {
				case pathAbort:
					if !m.aborting {
						m.abort = &p
					}
				case targetPanic:
					g.exitPanic = &p
					if !m.aborting {
						m.goPanic = &p
						m.goPanicG = g
					}
				default:
					if !m.aborting {
						m.abort = &pathAbort{"engine-panic", fmt.Sprint(r)}
					}
				}
			}
			m.yieldCh <- g
		}()
		if m.aborting {
			return
		}
		body()
	}()
}

func (m *Machine) spawn(fr *Frame, fn Value, args []Value, where string) *G {
	g := m.newG(where)
	if fr != nil && fr.fn != nil && fr.fn.Pkg != nil {
		g.isLib = !isHarnessFunc(fr.fn)
	}
	g.state = gRunnable
	m.hbFork(m.cur, g)
	m.startHost(g, func() {
		m.call(nil, 0, fn, args)
	})
	return g
}

func isHarnessFunc(fn *ssa.Function) bool {
	for f := fn; f != nil; f = f.Parent() {
		if f.Pkg != nil {
			n := f.Name()
			return len(n) >= 5 && (n[:5] == "verif" || n[:5] == "Verif") || hasVerifRecv(f)
		}
	}
	return false
}

func hasVerifRecv(f *ssa.Function) bool {
	if f.Signature.Recv() == nil {
		return false
	}
	t := f.Signature.Recv().Type()
	if p, ok := t.(*types.Pointer); ok {
		t = p.Elem()
	}
	if n, ok := t.(*types.Named); ok {
		name := n.Obj().Name()
		return len(name) >= 1 && (name[0] == 'v' || name[0] == 'V') && len(name) > 5 && (name[:5] == "verif" || name[:5] == "Verif")
	}
	return false
}

// runMain executes the harness as goroutine 0 and drives the scheduler until the harness returns.
func (m *Machine) runMain(fn *ssa.Function) (end string, msg string) {
	g0 := m.newG("main")
	g0.state = gRunnable
	m.startHost(g0, func() {
		m.call(nil, 0, fn, nil)
	})
	end, msg = m.schedule(g0)
	m.ended = true
	// tear down all remaining host goroutines
	m.aborting = true
	for _, g := range m.gs {
		if g.state != gDead {
			g.state = gRunning
			m.cur = g
			g.wake <- struct{}{}
			<-m.yieldCh
		}
	}
	return
}

// schedule runs goroutines until g0 exits or the path is aborted.
func (m *Machine) schedule(g0 *G) (string, string) {
	for {
		if m.abort != nil {
			return m.abort.kind, m.abort.msg
		}
		if m.goPanic != nil {
			p := m.goPanic
			msg := p.runtime
			if msg == "" {
				msg = "panic: " + m.panicString(p.v)
			}
			m.reportPanic(m.goPanicG, msg, p.where)
			return "panic", msg + " at " + p.where
		}
		if g0.state == gDead {
			return "done", ""
		}
		// collect goroutines that can make progress
		var ready []*G
		for _, g := range m.gs {
			if g.state == gRunnable || (g.state == gBlocked && m.canProceed(g)) {
				ready = append(ready, g)
			}
		}
		if len(ready) == 0 {
			// everything blocked: advance the ghost clock to the earliest timer or sleeper
			if m.advanceClockSafe() {
				continue
			}
			m.reportHang()
			return "hang", m.hangString()
		}
		if m.exploreSched && m.timeSlip > 0 && m.slips < 4 {
			// The ghost clock stands still while goroutines run. Real code takes time: a timer that is due within the
			// slip window may fire now, between any two synchronisation operations of the running goroutines (its
			// callback becomes one more runnable goroutine). One more scheduling alternative.
			if t := m.slipTimer(); t != nil && m.chooseSafe(2, "timer-slip") == 1 {
				m.slips++
				m.clockTo(t.when)
				m.fireTimer(t)
				continue
			}
		}
		atSync := m.yieldAtSync
		m.yieldAtSync = false
		var g *G
		if m.exploreSched && len(ready) > 1 && (!m.atomicOnly || atSync) {
			// prefer continuing the current goroutine as choice 0
			sort.SliceStable(ready, func(i, j int) bool { return ready[i] == m.lastRun && ready[j] != m.lastRun })
			if m.preemptions >= m.maxPreempt && ready[0] == m.lastRun {
				g = ready[0]
			} else {
				k := m.Choose(nil, len(ready), "sched")
				g = ready[k]
				if ready[0] == m.lastRun && k != 0 {
					m.preemptions++
				}
			}
		} else {
			// default policy: keep running the goroutine that ran last if it can, else lowest id
			g = ready[0]
			for _, r := range ready {
				if r == m.lastRun {
					g = r
				}
			}
		}
		m.lastRun = g
		m.cur = g
		g.state = gRunning
		g.wake <- struct{}{}
		<-m.yieldCh
	}
}

// yield hands control back to the scheduler; the caller must have set g.state.
func (m *Machine) yield(g *G) {
	m.yieldCh <- g
	<-g.wake
	if m.aborting {
		panic(pathAbort{"done", "teardown"})
	}
	g.state = gRunning
	m.cur = g
}

// syncPoint is called at synchronisation operations in exploration mode to allow a context switch.
func (m *Machine) syncPoint(fr *Frame) {
	if !m.exploreSched || m.initDepth > 0 {
		return // package initialisers run atomically
	}
	if m.atomicOnly && !m.inAtomicOp {
		return
	}
	m.yieldAtSync = true
	g := m.cur
	g.state = gRunnable
	m.yield(g)
}

func (m *Machine) block(g *G, w *waitState) {
	w.fired = -1
	g.wait = w
	g.state = gBlocked
	m.yield(g)
}

// canProceed tells whether a blocked goroutine could complete its operation now.
func (m *Machine) canProceed(g *G) bool {
	w := g.wait
	if w == nil {
		return true
	}
	if w.fired >= 0 {
		return true
	}
	if w.custom != nil {
		return w.custom()
	}
	if w.mutex != nil {
		if w.rlock {
			return !w.mutex.locked
		}
		return !w.mutex.locked && w.mutex.readers == 0
	}
	if w.sleepUntil != nil {
		if w.woken {
			return true
		}
		if w.sleepUntil.IsConst() && m.clock.IsConst() {
			return m.clock.SVal() >= w.sleepUntil.SVal()
		}
		return false // symbolic instants are ordered by advanceClock only (solver decisions)
	}
	for _, c := range w.cases {
		if m.caseReady(g, c) {
			return true
		}
	}
	return false
}

// partner finds a goroutine blocked with a complementary case on ch.
func (m *Machine) partner(self *G, ch *ChanV, wantSend bool) (*G, int) {
	for _, g := range m.gs {
		if g == self || g.state != gBlocked || g.wait == nil || g.wait.fired >= 0 {
			continue
		}
		for i, c := range g.wait.cases {
			if c.ch == ch && c.send == wantSend {
				return g, i
			}
		}
	}
	return nil, -1
}

func (m *Machine) caseReady(self *G, c chanCase) bool {
	if c.ch == nil {
		return false
	}
	if c.send {
		if c.ch.closed {
			return true // will panic
		}
		if len(c.ch.buf) < c.ch.cap {
			return true
		}
		p, _ := m.partner(self, c.ch, false)
		return p != nil
	}
	if len(c.ch.buf) > 0 || c.ch.closed {
		return true
	}
	p, _ := m.partner(self, c.ch, true)
	return p != nil
}

// ---------- channels ----------

func (m *Machine) newChan(n int, elem types.Type, name string) *ChanV {
	m.nextCh++
	return &ChanV{id: m.nextCh, cap: n, elem: elem, name: name}
}

// tryCase performs the channel operation if it can complete now.
func (m *Machine) tryCase(fr *Frame, self *G, c chanCase) (done bool, v Value, ok bool) {
	ch := c.ch
	if ch == nil {
		return false, nil, false
	}
	if c.send {
		if ch.closed {
			m.runtimePanic(fr, "send on closed channel")
		}
		if p, i := m.partner(self, ch, false); p != nil && len(ch.buf) == 0 {
			p.wait.fired = i
			p.wait.recvVal = copyVal(c.val)
			p.wait.recvOk = true
			m.hbHandoff(self, p, ch)
			return true, nil, false
		}
		if len(ch.buf) < ch.cap {
			ch.buf = append(ch.buf, copyVal(c.val))
			m.hbSendBuffered(self, ch)
			return true, nil, false
		}
		return false, nil, false
	}
	if len(ch.buf) > 0 {
		v = ch.buf[0]
		ch.buf = ch.buf[1:]
		m.hbRecvBuffered(self, ch)
		// a blocked sender can now move its value into the buffer
		if p, i := m.partner(self, ch, true); p != nil {
			ch.buf = append(ch.buf, copyVal(p.wait.cases[i].val))
			p.wait.fired = i
			m.hbSendBuffered(p, ch)
		}
		return true, v, true
	}
	if p, i := m.partner(self, ch, true); p != nil {
		v = copyVal(p.wait.cases[i].val)
		p.wait.fired = i
		m.hbHandoff(p, self, ch)
		return true, v, true
	}
	if ch.closed {
		m.hbRecvClosed(self, ch)
		return true, nil, false
	}
	return false, nil, false
}

func (m *Machine) chanSend(fr *Frame, ch *ChanV, v Value) {
	m.syncPoint(fr)
	g := m.cur
	c := chanCase{ch: ch, send: true, val: v}
	for {
		if done, _, _ := m.tryCase(fr, g, c); done {
			return
		}
		w := &waitState{cases: []chanCase{c}, what: "chan send"}
		m.block(g, w)
		if w.fired >= 0 {
			g.wait = nil
			return
		}
		g.wait = nil
	}
}

func (m *Machine) chanRecv(fr *Frame, ch *ChanV) (Value, bool) {
	m.syncPoint(fr)
	g := m.cur
	c := chanCase{ch: ch}
	for {
		if done, v, ok := m.tryCase(fr, g, c); done {
			return v, ok
		}
		w := &waitState{cases: []chanCase{c}, what: "chan receive"}
		m.block(g, w)
		if w.fired >= 0 {
			g.wait = nil
			return w.recvVal, w.recvOk
		}
		g.wait = nil
	}
}

func (m *Machine) chanClose(fr *Frame, ch *ChanV) {
	if ch == nil {
		m.runtimePanic(fr, "close of nil channel")
	}
	if ch.closed {
		m.runtimePanic(fr, "close of closed channel")
	}
	ch.closed = true
	m.hbClose(m.cur, ch)
	// As in the Go runtime, closing a channel wakes every goroutine waiting to receive from it, with that case: a
	// select blocked on several channels is committed to this one now - a value sent on one of its other channels
	// afterwards does not reach it (it finds nobody waiting).
	if len(ch.buf) == 0 {
		for _, g := range m.gs {
			if g.state != gBlocked || g.wait == nil || g.wait.fired >= 0 {
				continue
			}
			for i, c := range g.wait.cases {
				if c.ch == ch && !c.send {
					g.wait.fired = i
					g.wait.recvVal = nil
					g.wait.recvOk = false
					m.hbRecvClosed(g, ch)
					break
				}
			}
		}
	}
	m.syncPoint(fr)
}

func (m *Machine) doSelect(fr *Frame, instr *ssa.Select) Value {
	m.syncPoint(fr)
	g := m.cur
	cases := make([]chanCase, len(instr.States))
	for i, st := range instr.States {
		ch, _ := fr.get(st.Chan).(*ChanV)
		cases[i] = chanCase{ch: ch, send: st.Dir == types.SendOnly}
		if st.Send != nil {
			cases[i].val = fr.get(st.Send)
		}
	}
	result := func(chosen int, v Value, ok bool) Value {
		r := TupleV{m.tf.Const(64, uint64(int64(chosen))), m.tf.Bool(ok)}
		for i, st := range instr.States {
			if st.Dir == types.RecvOnly {
				var rv Value
				if i == chosen && ok {
					rv = v
				} else {
					rv = m.zero(under(st.Chan.Type()).(*types.Chan).Elem())
				}
				r = append(r, rv)
			}
		}
		return r
	}
	for {
		var ready []int
		for i, c := range cases {
			if m.caseReady(g, c) {
				ready = append(ready, i)
			}
		}
		if len(ready) > 0 {
			k := ready[m.Choose(fr, len(ready), "select")]
			done, v, ok := m.tryCase(fr, g, cases[k])
			if !done {
				panic("select: ready case could not complete")
			}
			return result(k, v, ok)
		}
		if !instr.Blocking {
			return result(-1, nil, false)
		}
		w := &waitState{cases: cases, what: "select"}
		m.block(g, w)
		g.wait = nil
		if w.fired >= 0 {
			return result(w.fired, w.recvVal, w.recvOk)
		}
	}
}

// ---------- mutexes ----------

func (m *Machine) mutexOf(p *Value) *mutexState {
	ms := m.mutexes[p]
	if ms == nil {
		ms = &mutexState{}
		m.mutexes[p] = ms
	}
	return ms
}

func (m *Machine) mutexLock(fr *Frame, p *Value) {
	m.syncPoint(fr)
	ms := m.mutexOf(p)
	g := m.cur
	for ms.locked || ms.readers > 0 {
		m.block(g, &waitState{mutex: ms, what: "mutex lock"})
		g.wait = nil
	}
	ms.locked = true
	ms.owner = g.id
	m.hbAcquire(ms)
	m.hbAcquire(&ms.readers)
}

func (m *Machine) mutexTryLock(fr *Frame, p *Value) bool {
	ms := m.mutexOf(p)
	if ms.locked || ms.readers > 0 {
		return false
	}
	ms.locked = true
	ms.owner = m.cur.id
	m.hbAcquire(ms)
	m.hbAcquire(&ms.readers)
	return true
}

func (m *Machine) mutexUnlock(fr *Frame, p *Value) {
	ms := m.mutexOf(p)
	if !ms.locked {
		panic(targetPanic{runtime: "sync: unlock of unlocked mutex", where: fr.where()})
	}
	ms.locked = false
	m.hbRelease(ms)
	m.syncPoint(fr)
}

func (m *Machine) mutexRLock(fr *Frame, p *Value) {
	m.syncPoint(fr)
	ms := m.mutexOf(p)
	g := m.cur
	for ms.locked {
		m.block(g, &waitState{mutex: ms, rlock: true, what: "rwmutex rlock"})
		g.wait = nil
	}
	ms.readers++
	m.hbAcquire(ms)
}

func (m *Machine) mutexRUnlock(fr *Frame, p *Value) {
	ms := m.mutexOf(p)
	if ms.readers <= 0 {
		panic(targetPanic{runtime: "sync: RUnlock of unlocked RWMutex", where: fr.where()})
	}
	ms.readers--
	m.hbRelease(&ms.readers)
	m.syncPoint(fr)
}

// ---------- ghost clock ----------

// timeAfter computes clock+d. Durations and the clock are 64-bit terms; with constants this is plain arithmetic, with
// a symbolic duration (a peer's delay chosen by the solver) the two corner cases are solver decisions.
func (m *Machine) timeAfter(fr *Frame, d *Term) (when *Term, never bool) {
	zero := m.tf.Const(64, 0)
	if d.IsConst() && m.clock.IsConst() {
		dv := d.SVal()
		if dv < 0 {
			dv = 0
		}
		w := m.clock.SVal() + dv
		if w < m.clock.SVal() { // overflow (math.MaxInt64 durations)
			return m.tf.Const(64, uint64(int64(^uint64(0)>>1))), true
		}
		return m.tf.Const(64, uint64(w)), false
	}
	if m.Decide(fr, m.tf.Slt(d, zero)) {
		d = zero
	}
	when = m.tf.Add(m.clock, d)
	if m.Decide(fr, m.tf.Slt(when, m.clock)) {
		return when, true
	}
	return when, false
}

func (m *Machine) addTimer(fr *Frame, d *Term, fn Value, ch *ChanV, cell *Value) *timerV {
	when, never := m.timeAfter(fr, d)
	t := &timerV{when: when, never: never, fn: fn, ch: ch, active: true, id: len(m.timers), cell: cell}
	if m.race.on && m.cur != nil {
		t.vc = vcCopy(m.gvc(m.cur))
		m.tick(m.cur)
	}
	m.timers = append(m.timers, t)
	return t
}

// timeLess orders two ghost instants; symbolic instants are ordered by the solver (both orders are explored when both
// are feasible: this is where "the peer answers before / after the timeout" becomes a fork).
func (m *Machine) timeLess(a, b *Term) bool {
	if a.IsConst() && b.IsConst() {
		return a.SVal() < b.SVal()
	}
	return m.Decide(nil, m.tf.Slt(a, b))
}

// advanceClockSafe: the ordering decisions may abort the path (budget, infeasible prefix); the scheduler runs outside
// any interpreted goroutine, so the abort is caught here and handed to the scheduling loop.
func (m *Machine) advanceClockSafe() (ok bool) {
	defer func() {
		if r := recover(); r != nil {
			if pa, isPA := r.(pathAbort); isPA {
				m.abort = &pa
				ok = true
				return
			}
			panic(r)
		}
	}()
	return m.advanceClock()
}

// advanceClock fires the earliest pending timer / wakes the earliest sleeper. Returns false if nothing is pending.
// Ties: a sleeper before a timer, lower goroutine / timer index first (as in the all-concrete model).
func (m *Machine) advanceClock() bool {
	var sleeper *G
	for _, g := range m.gs {
		if g.state == gBlocked && g.wait != nil && g.wait.sleepUntil != nil && !g.wait.woken {
			if sleeper == nil || m.timeLess(g.wait.sleepUntil, sleeper.wait.sleepUntil) {
				sleeper = g
			}
		}
	}
	var best *timerV
	for _, t := range m.timers {
		if t.active && !t.never && (best == nil || m.timeLess(t.when, best.when)) {
			best = t
		}
	}
	if sleeper != nil && (best == nil || !m.timeLess(best.when, sleeper.wait.sleepUntil)) {
		m.clockTo(sleeper.wait.sleepUntil)
		sleeper.wait.woken = true
		return true
	}
	if best == nil {
		return false
	}
	m.clockTo(best.when)
	m.fireTimer(best)
	return true
}

// clockTo moves the clock forward to instant t (never backwards).
func (m *Machine) clockTo(t *Term) {
	if t.IsConst() && m.clock.IsConst() {
		if t.SVal() > m.clock.SVal() {
			m.clock = t
		}
		return
	}
	// pending events were armed at clock+d with d >= 0 and the earliest one is always taken first, so t >= clock holds
	// on every path; the ite keeps the clock monotone even if an instant was computed from a wrapped term
	m.clock = m.tf.Ite(m.tf.Slt(m.clock, t), t, m.clock)
}

func (m *Machine) fireTimer(t *timerV) {
	t.active = false
	if t.fn != nil {
		fn := t.fn
		g := m.newG(fmt.Sprintf("timer#%d", t.id))
		g.isLib = true
		g.state = gRunnable
		if m.race.on {
			g.vc = vcCopy(t.vc)
			m.gvc(g)
		}
		m.startHost(g, func() { m.call(nil, 0, fn, nil) })
		return
	}
	if t.ch != nil && len(t.ch.buf) < t.ch.cap {
		t.ch.buf = append(t.ch.buf, m.timeValue(m.clock))
		if m.race.on {
			t.ch.bufVC = append(t.ch.bufVC, vcCopy(t.vc))
			t.ch.sendN++
		}
	}
}

func (m *Machine) hangString() string {
	s := fmt.Sprintf("all goroutines blocked at ghost time %sns:", m.clockString())
	for _, g := range m.gs {
		if g.state == gBlocked {
			what := ""
			if g.wait != nil {
				what = g.wait.what
			}
			w := "?"
			if g.top != nil {
				w = g.top.where()
			}
			s += fmt.Sprintf(" [g%d %s %s at %s]", g.id, g.name, what, w)
		}
	}
	return s
}

func (m *Machine) clockString() string {
	if m.clock.IsConst() {
		return fmt.Sprint(m.clock.SVal())
	}
	return "<symbolic>"
}

// slipTimer: the earliest active timer that is due within the slip window (constant instants only).
func (m *Machine) slipTimer() *timerV {
	if !m.clock.IsConst() {
		return nil
	}
	var best *timerV
	for _, t := range m.timers {
		if t.active && !t.never && t.when.IsConst() && t.when.SVal()-m.clock.SVal() <= m.timeSlip {
			if best == nil || t.when.SVal() < best.when.SVal() {
				best = t
			}
		}
	}
	return best
}

// chooseSafe is Choose for the scheduler's own context (no interpreted goroutine is running): a path abort raised by
// the decision machinery is handed to the scheduling loop instead of unwinding the host stack.
func (m *Machine) chooseSafe(n int, what string) (k int) {
	defer func() {
		if r := recover(); r != nil {
			if pa, isPA := r.(pathAbort); isPA {
				m.abort = &pa
				k = 0
				return
			}
			panic(r)
		}
	}()
	return m.Choose(nil, n, what)
}
