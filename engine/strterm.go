package main

// Unbounded SMT strings (handshake harnesses C11-C14). Header values, origins, patterns and extension parameters are
// terms of sort String; the library's own control flow (loops over tokens and parameters, comparisons, branches) is
// executed from its real SSA, while the leaf string functions of the standard library are summarised in the theory of
// strings (cvc5) under an ASCII assumption. Every summary is listed in evidence and validated against the native
// function on the models of sampled paths.

import (
	"fmt"
	"go/types"
	"strconv"
	"strings"

	"golang.org/x/tools/go/ssa"
)

// SmtBytes is []byte(s) for an SMT string s that has not been looked at byte-wise.
type SmtBytes struct {
	T *Term
}

func (f *TermFactory) StrLit(s string) *Term {
	return f.mk(Term{Op: OpStrLit, W: WString, Name: s})
}

func (f *TermFactory) StrVar(name string) *Term {
	return f.Var(name, WString)
}

// App builds an application of an SMT-LIB function (or an uninterpreted function declared on first use).
func (f *TermFactory) App(sort uint8, name string, args ...*Term) *Term {
	cp := make([]*Term, len(args))
	copy(cp, args)
	return f.mk(Term{Op: OpStrApp, W: sort, Name: name, Args: cp})
}

func (m *Machine) strTerm(v Value) *Term {
	switch s := v.(type) {
	case string:
		return m.tf.StrLit(s)
	case *SmtStr:
		return s.T
	case *SymStr:
		m.unsupported("mixing byte-symbolic strings with SMT strings")
	}
	panic(fmt.Sprintf("strTerm: %T", v))
}

func (m *Machine) mkSmt(t *Term) Value {
	if t.Op == OpStrLit {
		return t.Name
	}
	return &SmtStr{T: t}
}

func (m *Machine) smtStrEq(x, y Value) *Term {
	a, b := m.strTerm(x), m.strTerm(y)
	if a == b {
		return m.tf.True
	}
	if a.Op == OpStrLit && b.Op == OpStrLit {
		return m.tf.Bool(a.Name == b.Name)
	}
	return m.tf.App(0, "=", a, b)
}

func (m *Machine) smtStrConcat(x, y Value) Value {
	a, b := m.strTerm(x), m.strTerm(y)
	if a.Op == OpStrLit && a.Name == "" {
		return m.mkSmt(b)
	}
	if b.Op == OpStrLit && b.Name == "" {
		return m.mkSmt(a)
	}
	return m.mkSmt(m.tf.App(WString, "str.++", a, b))
}

func (m *Machine) smtStrLen(x *SmtStr) Value {
	// Go int from an SMT Int: ((_ int2bv 64) (str.len x))
	return m.tf.App(64, "(_ int2bv 64)", m.tf.App(WInt, "str.len", x.T))
}

func (m *Machine) newStrInput(tag string) *Term {
	k := m.tagCount["str:"+tag]
	m.tagCount["str:"+tag] = k + 1
	t := m.tf.StrVar(fmt.Sprintf("%s#%d", tag, k))
	m.strInputs = append(m.strInputs, t)
	// ASCII assumption for every string input (net/http delivers header bytes as they are; the summaries of
	// case folding and white space are exact on ASCII only)
	m.addPC(m.tf.App(0, "str.in_re", t, m.tf.App(WRegLan, "re.*", m.tf.App(WRegLan, "re.range", m.tf.StrLit("\x00"), m.tf.StrLit("\x7f")))))
	return t
}

func (m *Machine) freshStr(prefix string) *Term {
	m.freshCount++
	return m.tf.StrVar(fmt.Sprintf("%s!%d", prefix, m.freshCount))
}

const WRegLan = 202

func anySmt(args []Value) bool {
	for _, a := range args {
		switch x := a.(type) {
		case *SmtStr, *SmtBytes:
			return true
		case []Value:
			for _, e := range x {
				if _, ok := e.(*SmtStr); ok {
					return true
				}
			}
		case IfaceV:
			if _, ok := x.V.(*SmtStr); ok {
				return true
			}
		}
	}
	return false
}

// notHandled tells callSSA to interpret the function body after all.
type notHandledT struct{}

var notHandled = notHandledT{}

func (m *Machine) wsRegex() *Term {
	return m.charsRegex([]string{"\t", "\n", "\v", "\f", "\r", " "})
}

func (m *Machine) charsRegex(alts []string) *Term {
	tf := m.tf
	r := tf.App(WRegLan, "str.to_re", tf.StrLit(alts[0]))
	for _, a := range alts[1:] {
		r = tf.App(WRegLan, "re.union", r, tf.App(WRegLan, "str.to_re", tf.StrLit(a)))
	}
	return r
}

// trimSpace introduces r with s = l ++ r ++ t, l and t white space only, r neither starting nor ending with white space.
func (m *Machine) smtTrimSpace(fr *Frame, s *Term) *Term {
	if s.Op == OpStrLit {
		return m.tf.StrLit(strings.TrimSpace(s.Name))
	}
	return m.smtTrimSet(fr, s, "", m.wsRegex())
}

// smtTrimSet: strings.Trim(s, cutset) for a cutset of single ASCII characters (key: the cutset; "" = TrimSpace's set).
func (m *Machine) smtTrimSet(fr *Frame, s *Term, key string, ws *Term) *Term {
	if m.trimCacheSet == nil {
		m.trimCacheSet = map[string]map[*Term]*Term{}
	}
	if m.trimCacheSet[key] == nil {
		m.trimCacheSet[key] = map[*Term]*Term{}
	}
	if key != "" {
		if r, ok := m.trimCacheSet[key][s]; ok {
			return r
		}
	} else if r, ok := m.trimCache[s]; ok {
		return r
	}
	tf := m.tf
	l, r, t := m.freshStr("trimL"), m.freshStr("trim"), m.freshStr("trimR")
	wsStar := tf.App(WRegLan, "re.*", ws)
	m.addPC(tf.App(0, "=", s, tf.App(WString, "str.++", l, r, t)))
	m.addPC(tf.App(0, "str.in_re", l, wsStar))
	m.addPC(tf.App(0, "str.in_re", t, wsStar))
	// r neither starts nor ends with white space (str.at yields "" outside the string, which is not white space)
	zero := tf.Const(WInt, 0)
	last := tf.App(WInt, "-", tf.App(WInt, "str.len", r), tf.Const(WInt, 1))
	m.addPC(tf.Not(tf.App(0, "str.in_re", tf.App(WString, "str.at", r, zero), ws)))
	m.addPC(tf.Not(tf.App(0, "str.in_re", tf.App(WString, "str.at", r, last), ws)))
	if key != "" {
		m.trimCacheSet[key][s] = r
		m.noteStub("strings.Trim(s, " + strconv.Quote(key) + ") summarised in the theory of strings")
	} else {
		m.trimCache[s] = r
		m.noteStub("strings.TrimSpace summarised in the theory of strings (ASCII white space)")
	}
	return r
}

// smtSplit forks on the number of separators (0..bound); beyond the bound the path is cut by an assumption that is
// recorded as outside the claim.
func (m *Machine) smtSplit(fr *Frame, s *Term, sep string) []Value {
	if s.Op == OpStrLit {
		var out []Value
		for _, p := range strings.Split(s.Name, sep) {
			out = append(out, p)
		}
		return out
	}
	tf := m.tf
	ck := fmt.Sprintf("%d|%s", s.id, sep)
	if parts, ok := m.splitCache[ck]; ok {
		// Split is a function: the same argument yields the same tokens (no second decomposition for the solver to align)
		out := make([]Value, len(parts))
		for i, p := range parts {
			out[i] = m.mkSmt(p)
		}
		return out
	}
	bound := int(m.cfg.Params["splitBound"])
	names := map[string]string{",": "split.comma", ";": "split.semi"}
	if n, ok := names[sep]; ok {
		if b, ok := m.cfg.Params[n]; ok {
			bound = int(b)
		}
	} else if bound == 0 {
		bound = 2
	}
	k := m.Choose(fr, bound+1, "split:"+sep)
	parts := make([]*Term, k+1)
	var cat []*Term
	sepT := tf.StrLit(sep)
	for i := range parts {
		parts[i] = m.freshStr("tok")
		m.addPC(tf.Not(tf.App(0, "str.contains", parts[i], sepT)))
		if i > 0 {
			cat = append(cat, sepT)
		}
		cat = append(cat, parts[i])
	}
	var whole *Term
	if len(cat) == 1 {
		whole = cat[0]
	} else {
		whole = tf.App(WString, "str.++", cat...)
	}
	m.Assume(fr, tf.App(0, "=", s, whole))
	m.noteStub(fmt.Sprintf("strings.Split summarised: fork on the number of %q separators, at most %d (more are outside the claim)", sep, bound))
	m.splitCache[ck] = parts
	out := make([]Value, len(parts))
	for i, p := range parts {
		out[i] = m.mkSmt(p)
	}
	return out
}

// foldRegex: the regular expression matching exactly the ASCII case variants of lit.
func (m *Machine) foldRegex(lit string) *Term {
	tf := m.tf
	if lit == "" {
		return tf.App(WRegLan, "str.to_re", tf.StrLit(""))
	}
	var parts []*Term
	for i := 0; i < len(lit); i++ {
		c := lit[i]
		lo, up := c, c
		if c >= 'a' && c <= 'z' {
			up = c - 32
		} else if c >= 'A' && c <= 'Z' {
			lo = c + 32
		}
		r := tf.App(WRegLan, "str.to_re", tf.StrLit(string(lo)))
		if up != lo {
			r = tf.App(WRegLan, "re.union", r, tf.App(WRegLan, "str.to_re", tf.StrLit(string(up))))
		}
		parts = append(parts, r)
	}
	if len(parts) == 1 {
		return parts[0]
	}
	return tf.App(WRegLan, "re.++", parts...)
}

func (m *Machine) lower(t *Term) *Term {
	if t.Op == OpStrLit {
		return m.tf.StrLit(strings.ToLower(t.Name))
	}
	return m.tf.App(WString, "str.to_lower", t)
}

// uf declares (on first use) and applies an uninterpreted function.
func (m *Machine) uf(sort uint8, name string, args ...*Term) *Term {
	m.ufCount++
	return m.tf.App(sort, "uf:"+name, args...)
}

func addStringIntrinsics(t map[string]Intrinsic) {
	smtOnly := func(h func(m *Machine, fr *Frame, fn *ssa.Function, a []Value) Value) Intrinsic {
		return func(m *Machine, fr *Frame, fn *ssa.Function, a []Value) Value {
			if !anySmt(a) {
				return notHandled
			}
			return h(m, fr, fn, a)
		}
	}
	t["strings.EqualFold"] = smtOnly(func(m *Machine, fr *Frame, fn *ssa.Function, a []Value) Value {
		m.noteStub("strings.EqualFold summarised as equality of ASCII lower-casings")
		x, y := m.strTerm(a[0]), m.strTerm(a[1])
		if x.Op == OpStrLit {
			x, y = y, x
		}
		if y.Op == OpStrLit {
			// against a literal: membership in the case-insensitive regular expression of the literal
			return m.tf.App(0, "str.in_re", x, m.foldRegex(y.Name))
		}
		return m.tf.App(0, "=", m.lower(x), m.lower(y))
	})
	// the library's own ASCII folding helpers (fix for defect 26): a byte loop over an SMT string is not executable; on
	// symbolic strings they are summarised exactly as their meaning (concrete strings run the real code)
	t["nhooyr.io/websocket.asciiEqualFold"] = smtOnly(func(m *Machine, fr *Frame, fn *ssa.Function, a []Value) Value {
		m.noteStub("websocket.asciiEqualFold summarised as equality of ASCII lower-casings")
		x, y := m.strTerm(a[0]), m.strTerm(a[1])
		if x.Op == OpStrLit {
			x, y = y, x
		}
		if y.Op == OpStrLit {
			return m.tf.App(0, "str.in_re", x, m.foldRegex(y.Name))
		}
		return m.tf.App(0, "=", m.lower(x), m.lower(y))
	})
	t["nhooyr.io/websocket.asciiLower"] = smtOnly(func(m *Machine, fr *Frame, fn *ssa.Function, a []Value) Value {
		m.noteStub("websocket.asciiLower summarised as str.to_lower (ASCII)")
		return m.mkSmt(m.lower(m.strTerm(a[0])))
	})
	t["strings.ToLower"] = smtOnly(func(m *Machine, fr *Frame, fn *ssa.Function, a []Value) Value {
		m.noteStub("strings.ToLower summarised as str.to_lower (ASCII)")
		return m.mkSmt(m.lower(m.strTerm(a[0])))
	})
	t["strings.TrimSpace"] = smtOnly(func(m *Machine, fr *Frame, fn *ssa.Function, a []Value) Value {
		return m.mkSmt(m.smtTrimSpace(fr, m.strTerm(a[0])))
	})
	t["strings.Trim"] = smtOnly(func(m *Machine, fr *Frame, fn *ssa.Function, a []Value) Value {
		cut, ok := a[1].(string)
		if !ok || cut == "" {
			m.unsupported("strings.Trim with a symbolic or empty cutset")
		}
		var alts []string
		for i := 0; i < len(cut); i++ {
			if cut[i] >= 0x80 {
				m.unsupported("strings.Trim with a non-ASCII cutset")
			}
			alts = append(alts, string(cut[i]))
		}
		x := m.strTerm(a[0])
		if x.Op == OpStrLit {
			return m.mkSmt(m.tf.StrLit(strings.Trim(x.Name, cut)))
		}
		return m.mkSmt(m.smtTrimSet(fr, x, cut, m.charsRegex(alts)))
	})
	t["strings.Split"] = smtOnly(func(m *Machine, fr *Frame, fn *ssa.Function, a []Value) Value {
		sep, ok := a[1].(string)
		if !ok {
			m.unsupported("strings.Split with symbolic separator")
		}
		return m.smtSplit(fr, m.strTerm(a[0]), sep)
	})
	// strings.SplitN(s, sep, 2) / strings.Cut(s, sep): fork on whether sep occurs; if it does, s = before ++ sep ++ after
	// with no sep in before ++ (sep without its last byte) -- for a one-byte sep simply: no sep in before.
	cut2 := func(m *Machine, fr *Frame, s *Term, sep string) (before, after *Term, found bool) {
		tf := m.tf
		sepT := tf.StrLit(sep)
		if len(sep) != 1 {
			m.unsupported("SplitN/Cut with a separator of %d bytes on a symbolic string", len(sep))
		}
		ck := fmt.Sprintf("cut|%d|%s", s.id, sep)
		if parts, ok := m.splitCache[ck]; ok {
			if len(parts) == 2 {
				return parts[0], parts[1], true
			}
			return s, nil, false
		}
		if m.Decide(fr, tf.App(0, "str.contains", s, sepT)) {
			b, a := m.freshStr("cutB"), m.freshStr("cutA")
			m.addPC(tf.Not(tf.App(0, "str.contains", b, sepT)))
			m.Assume(fr, tf.App(0, "=", s, tf.App(WString, "str.++", b, sepT, a)))
			m.splitCache[ck] = []*Term{b, a}
			return b, a, true
		}
		m.splitCache[ck] = []*Term{s}
		return s, nil, false
	}
	t["strings.SplitN"] = smtOnly(func(m *Machine, fr *Frame, fn *ssa.Function, a []Value) Value {
		sep, ok := a[1].(string)
		n, isC := a[2].(*Term)
		if !ok || !isC || !n.IsConst() || n.Val != 2 {
			m.unsupported("strings.SplitN on a symbolic string other than (s, literal, 2)")
		}
		m.noteStub("strings.SplitN(s, sep, 2) summarised: fork on whether sep occurs, first occurrence")
		b, af, found := cut2(m, fr, m.strTerm(a[0]), sep)
		if !found {
			return []Value{m.mkSmt(b)}
		}
		return []Value{m.mkSmt(b), m.mkSmt(af)}
	})
	t["strings.Cut"] = smtOnly(func(m *Machine, fr *Frame, fn *ssa.Function, a []Value) Value {
		sep, ok := a[1].(string)
		if !ok {
			m.unsupported("strings.Cut with a symbolic separator")
		}
		m.noteStub("strings.Cut summarised: fork on whether sep occurs, first occurrence")
		b, af, found := cut2(m, fr, m.strTerm(a[0]), sep)
		if !found {
			return TupleV{m.mkSmt(b), "", m.tf.False}
		}
		return TupleV{m.mkSmt(b), m.mkSmt(af), m.tf.True}
	})
	t["strings.HasPrefix"] = smtOnly(func(m *Machine, fr *Frame, fn *ssa.Function, a []Value) Value {
		return m.tf.App(0, "str.prefixof", m.strTerm(a[1]), m.strTerm(a[0]))
	})
	t["strings.TrimPrefix"] = smtOnly(func(m *Machine, fr *Frame, fn *ssa.Function, a []Value) Value {
		tf := m.tf
		s, p := m.strTerm(a[0]), m.strTerm(a[1])
		plen := tf.App(WInt, "str.len", p)
		rest := tf.App(WString, "str.substr", s, plen, tf.App(WInt, "-", tf.App(WInt, "str.len", s), plen))
		return m.mkSmt(tf.App(WString, "ite", tf.App(0, "str.prefixof", p, s), rest, s))
	})
	t["strings.TrimSuffix"] = smtOnly(func(m *Machine, fr *Frame, fn *ssa.Function, a []Value) Value {
		tf := m.tf
		s, p := m.strTerm(a[0]), m.strTerm(a[1])
		keep := tf.App(WInt, "-", tf.App(WInt, "str.len", s), tf.App(WInt, "str.len", p))
		rest := tf.App(WString, "str.substr", s, tf.Const(WInt, 0), keep)
		return m.mkSmt(tf.App(WString, "ite", tf.App(0, "str.suffixof", p, s), rest, s))
	})
	t["strings.HasSuffix"] = smtOnly(func(m *Machine, fr *Frame, fn *ssa.Function, a []Value) Value {
		return m.tf.App(0, "str.suffixof", m.strTerm(a[1]), m.strTerm(a[0]))
	})
	t["strings.Contains"] = smtOnly(func(m *Machine, fr *Frame, fn *ssa.Function, a []Value) Value {
		return m.tf.App(0, "str.contains", m.strTerm(a[0]), m.strTerm(a[1]))
	})
	t["strings.Join"] = smtOnly(func(m *Machine, fr *Frame, fn *ssa.Function, a []Value) Value {
		elems := a[0].([]Value)
		sep := m.strTerm(a[1])
		if len(elems) == 0 {
			return ""
		}
		var cat []*Term
		for i, e := range elems {
			if i > 0 {
				cat = append(cat, sep)
			}
			cat = append(cat, m.strTerm(e))
		}
		if len(cat) == 1 {
			return m.mkSmt(cat[0])
		}
		return m.mkSmt(m.tf.App(WString, "str.++", cat...))
	})
	// url.Parse: uninterpreted. Only the Host of the result and whether parsing fails are modelled.
	t["net/url.Parse"] = smtOnly(func(m *Machine, fr *Frame, fn *ssa.Function, a []Value) Value {
		m.noteStub("net/url.Parse uninterpreted on symbolic input: (failed?, Host) are uninterpreted functions of the argument")
		s := m.strTerm(a[0])
		if m.Decide(fr, m.uf(0, "urlParseFails", s)) {
			return TupleV{(*Value)(nil), m.newErrorString("verif: url.Parse failed (uninterpreted)")}
		}
		ut := derefType(fn.Signature.Results().At(0).Type())
		cell := new(Value)
		*cell = m.zero(ut)
		st := under(ut).(*types.Struct)
		for i := 0; i < st.NumFields(); i++ {
			if st.Field(i).Name() == "Host" {
				(*cell).(StructV)[i] = m.mkSmt(m.uf(WString, "urlHost", s))
			}
		}
		return TupleV{cell, IfaceV{}}
	})
	t["path/filepath.Match"] = smtOnly(func(m *Machine, fr *Frame, fn *ssa.Function, a []Value) Value {
		m.noteStub("path/filepath.Match uninterpreted on symbolic input: (matched, bad pattern?) are uninterpreted functions of (pattern, name)")
		p, s := m.strTerm(a[0]), m.strTerm(a[1])
		if m.Decide(fr, m.uf(0, "matchBadPattern", p)) {
			g := m.eng.Pkgs["path/filepath"].Var("ErrBadPattern")
			return TupleV{m.tf.False, load(m.globalAddr(fr, g))}
		}
		return TupleV{m.uf(0, "match", p, s), IfaceV{}}
	})
	// base64 / sha1 on SMT data: deterministic uninterpreted functions
	t["(*encoding/base64.Encoding).DecodeString"] = smtOnly(func(m *Machine, fr *Frame, fn *ssa.Function, a []Value) Value {
		m.noteStub("base64 DecodeString uninterpreted on symbolic input: forks on (valid and 16 bytes) / (valid, other length) / invalid")
		s := m.strTerm(a[1])
		if m.Decide(fr, m.uf(0, "b64Decodes", s)) {
			if m.Decide(fr, m.uf(0, "b64Is16Bytes", s)) {
				out := make([]Value, 16)
				for i := range out {
					out[i] = m.tf.Const(8, 0)
				}
				return TupleV{out, IfaceV{}}
			}
			out := make([]Value, 15)
			for i := range out {
				out[i] = m.tf.Const(8, 0)
			}
			return TupleV{out, IfaceV{}}
		}
		return TupleV{[]Value(nil), m.newErrorString("illegal base64 data (uninterpreted)")}
	})
	t["(*encoding/base64.Encoding).EncodeToString"] = func(m *Machine, fr *Frame, fn *ssa.Function, a []Value) Value {
		if sb, ok := a[1].(*SmtBytes); ok {
			return m.mkSmt(m.uf(WString, "b64", sb.T))
		}
		return notHandled
	}
	t["crypto/sha1.New"] = func(m *Machine, fr *Frame, fn *ssa.Function, a []Value) Value {
		// a ghost hash object: accumulates what is written as a string term
		cell := new(Value)
		*cell = StructV{}
		m.side("sha1")[cell] = ""
		return IfaceV{T: m.sha1Type(), V: cell}
	}
}

func (m *Machine) sha1Type() types.Type {
	return m.ptrTypeOf("crypto/sha1", "digest")
}

// hashWrite / hashSum implement the ghost sha1 object (methods of *sha1.digest are intercepted by name).
func addHashIntrinsics(t map[string]Intrinsic) {
	t["(*crypto/sha1.digest).Write"] = func(m *Machine, fr *Frame, fn *ssa.Function, a []Value) Value {
		cell := a[0].(*Value)
		acc := m.side("sha1")[cell]
		var add Value
		n := 0
		switch p := a[1].(type) {
		case *SmtBytes:
			add = &SmtStr{T: p.T}
		case []Value:
			b, ok := m.concreteBytes(p)
			if !ok {
				m.unsupported("sha1.Write of byte-symbolic data")
			}
			add = string(b)
			n = len(b)
		}
		if isSmt(acc) || isSmt(add) {
			m.side("sha1")[cell] = m.smtStrConcat(acc, add)
		} else {
			m.side("sha1")[cell] = acc.(string) + add.(string)
		}
		return TupleV{m.tf.Const(64, uint64(n)), IfaceV{}}
	}
	t["(*crypto/sha1.digest).Sum"] = func(m *Machine, fr *Frame, fn *ssa.Function, a []Value) Value {
		cell := a[0].(*Value)
		acc := m.side("sha1")[cell]
		if s, ok := acc.(string); ok {
			sum := sha1Sum([]byte(s))
			return m.bytesValue(sum)
		}
		m.noteStub("crypto/sha1 uninterpreted on symbolic input (deterministic function of the written bytes)")
		return &SmtBytes{T: m.uf(WString, "sha1", m.strTerm(acc))}
	}
}
