package main

import (
	"bufio"
	"bytes"
	"context"
	"encoding/json"
	"flag"
	"fmt"
	"os"
	"os/exec"
	"path/filepath"
	"sort"
	"strings"
	"sync"
	"time"
)

// solverdiff: re-decide every query of a check on independent solvers.
//
// The check of a property is run with its SMT traffic logged (one file per solver process, verdicts recorded as
// comments). Every log is then replayed, unchanged apart from the solver-specific preamble, through the other installed
// solvers, and the verdict sequences are compared query by query. A sat/unsat disagreement is an encoding or solver
// defect and fails the command; unknown/unsupported answers are counted and reported.

type sdResult struct {
	Property  string         `json:"property"`
	Tier      string         `json:"tier"`
	Primary   map[string]int `json:"primary_verdicts"`
	Queries   int            `json:"queries"`
	Solvers   map[string]*sd `json:"secondary"`
	WallS     float64        `json:"wall_s"`
	Disagreed int            `json:"disagreements"`
}

type sd struct {
	Agree       int      `json:"agree"`
	Unknown     int      `json:"unknown_or_timeout"`
	Unsupported int      `json:"logs_unsupported"`
	Disagree    int      `json:"disagree"`
	Examples    []string `json:"examples,omitempty"`
	TimeS       float64  `json:"time_s"`
}

func cmdSolverDiff(args []string) {
	fs := flag.NewFlagSet("solverdiff", flag.ExitOnError)
	props := fs.String("prop", "", "comma-separated property ids")
	tier := fs.String("tier", "quick", "tier")
	verif := fs.String("verif", "/verif", "verif directory")
	out := fs.String("out", "", "write JSON summary here")
	fs.Parse(args)
	var results []*sdResult
	bad := 0
	for _, p := range strings.Split(*props, ",") {
		if p == "" {
			continue
		}
		r, err := solverDiffOne(p, *tier, *verif)
		if err != nil {
			fmt.Fprintln(os.Stderr, "solverdiff", p, err)
			os.Exit(2)
		}
		results = append(results, r)
		bad += r.Disagreed
		var parts []string
		var names []string
		for n := range r.Solvers {
			names = append(names, n)
		}
		sort.Strings(names)
		for _, n := range names {
			x := r.Solvers[n]
			parts = append(parts, fmt.Sprintf("%s: agree=%d unknown=%d unsupported_logs=%d disagree=%d (%.1fs)", n, x.Agree, x.Unknown, x.Unsupported, x.Disagree, x.TimeS))
		}
		fmt.Printf("solverdiff property=%s queries=%d %s\n", p, r.Queries, strings.Join(parts, "; "))
	}
	if *out != "" {
		b, _ := json.MarshalIndent(results, "", " ")
		os.WriteFile(*out, append(b, '\n'), 0o644)
	}
	if bad > 0 {
		fmt.Printf("SOLVER-DISAGREEMENT count=%d\n", bad)
		os.Exit(1)
	}
}

func solverDiffOne(prop, tier, verif string) (*sdResult, error) {
	t0 := time.Now()
	dir, err := os.MkdirTemp("", "symgo-sd-")
	if err != nil {
		return nil, err
	}
	defer os.RemoveAll(dir)
	self, _ := os.Executable()
	cmd := exec.Command(self, "check", "-prop", prop, "-tier", tier, "-verif", verif)
	cmd.Env = append(os.Environ(), "SYMGO_SMTLOG="+filepath.Join(dir, "log"), "VERIF_EVIDENCE_DIR="+filepath.Join(dir, "ev"))
	cmd.Stdout = nil
	cmd.Stderr = nil
	cmd.Run() // exit status of the check itself is not the subject here
	logs, _ := filepath.Glob(filepath.Join(dir, "log.*"))
	res := &sdResult{Property: prop, Tier: tier, Primary: map[string]int{}, Solvers: map[string]*sd{}}
	type job struct {
		log      string
		verdicts []string
		script   []byte
		strings  bool
	}
	var jobs []job
	for _, l := range logs {
		data, err := os.ReadFile(l)
		if err != nil {
			continue
		}
		var sb bytes.Buffer
		var vs []string
		hasStr := false
		sc := bufio.NewScanner(bytes.NewReader(data))
		sc.Buffer(make([]byte, 1<<20), 1<<28)
		for sc.Scan() {
			line := sc.Text()
			switch {
			case strings.HasPrefix(line, "; verdict "):
				vs = append(vs, strings.TrimPrefix(line, "; verdict "))
				continue
			case strings.HasPrefix(line, "(set-option"), strings.HasPrefix(line, "(set-logic"), strings.HasPrefix(line, "(get-value"), strings.HasPrefix(line, "(echo"):
				continue
			}
			if strings.Contains(line, "String") || strings.Contains(line, "str.") {
				hasStr = true
			}
			sb.WriteString(line)
			sb.WriteByte('\n')
		}
		if len(vs) == 0 {
			continue
		}
		for _, v := range vs {
			res.Primary[v]++
		}
		res.Queries += len(vs)
		jobs = append(jobs, job{l, vs, sb.Bytes(), hasStr})
	}
	type secondary struct {
		name string
		argv []string
		pre  string
	}
	secs := []secondary{
		{"z3-4.8.12", []string{"z3", "-in", "-smt2"}, "(set-option :timeout 20000)\n"},
		{"z3-5.1.0", []string{"z3-new", "-in", "-smt2"}, "(set-option :timeout 20000)\n"},
		{"cvc5-1.0", []string{"cvc5", "--incremental", "--strings-exp", "--lang=smt2", "--tlimit-per=20000"}, "(set-logic ALL)\n"},
	}
	var mu sync.Mutex
	for _, s := range secs {
		st := &sd{}
		res.Solvers[s.name] = st
		ts := time.Now()
		sem := make(chan struct{}, 12)
		var wg sync.WaitGroup
		for _, j := range jobs {
			wg.Add(1)
			sem <- struct{}{}
			go func(j job) {
				defer wg.Done()
				defer func() { <-sem }()
				// a secondary solver gets ten minutes per log; what it has not answered by then is counted as unknown
				cctx, ccancel := context.WithTimeout(context.Background(), 10*time.Minute)
				c := exec.CommandContext(cctx, s.argv[0], s.argv[1:]...)
				pre := s.pre
				if j.strings && strings.HasPrefix(s.name, "z3") {
					// z3's sequence solver rarely decides these; do not let it spend 20 s on each of thousands of queries
					pre = "(set-option :timeout 1000)\n"
				}
				c.Stdin = bytes.NewReader(append([]byte(pre), j.script...))
				outb, _ := c.CombinedOutput()
				timedOut := cctx.Err() != nil
				ccancel()
				var got []string
				sawErr := false
				for _, l := range strings.Split(string(outb), "\n") {
					l = strings.TrimSpace(l)
					switch {
					case l == "sat", l == "unsat", l == "unknown", l == "timeout":
						got = append(got, l)
					case strings.HasPrefix(l, "(error"):
						sawErr = true
					}
				}
				mu.Lock()
				defer mu.Unlock()
				if timedOut && !sawErr && len(got) < len(j.verdicts) {
					for len(got) < len(j.verdicts) {
						got = append(got, "timeout")
					}
				}
				if sawErr || len(got) != len(j.verdicts) {
					// the solver does not accept part of this log (e.g. a string operator it lacks): nothing is concluded
					st.Unsupported++
					return
				}
				for i, v := range j.verdicts {
					g := got[i]
					switch {
					case g == v:
						st.Agree++
					case g == "unknown" || g == "timeout" || v == "unknown":
						st.Unknown++
					default:
						st.Disagree++
						res.Disagreed++
						if len(st.Examples) < 5 {
							st.Examples = append(st.Examples, fmt.Sprintf("%s query %d: primary %s, %s %s", filepath.Base(j.log), i, v, s.name, g))
							// keep the log for inspection
							keep := filepath.Join(verif, "replays", "solverdiff-"+prop+"-"+filepath.Base(j.log)+".smt2")
							os.MkdirAll(filepath.Dir(keep), 0o755)
							os.WriteFile(keep, j.script, 0o644)
						}
					}
				}
			}(j)
		}
		wg.Wait()
		st.TimeS = time.Since(ts).Seconds()
	}
	res.WallS = time.Since(t0).Seconds()
	return res, nil
}
