package main

// Contract-level stubs for code that is not encoded (listed in evidence as part of the claim).

import (
	"crypto/sha1"
	"encoding/base64"
	"encoding/json"
	"errors"
	"go/types"
	"io"

	"golang.org/x/tools/go/ssa"
)

func addMiscIntrinsics(t map[string]Intrinsic) {
}

func (m *Machine) concreteBytes(v Value) ([]byte, bool) {
	var terms []*Term
	switch x := v.(type) {
	case []Value:
		for _, e := range x {
			terms = append(terms, e.(*Term))
		}
	case string:
		return []byte(x), true
	case *SymStr:
		terms = x.B
	default:
		return nil, false
	}
	b := make([]byte, len(terms))
	for i, t := range terms {
		if !t.IsConst() {
			return nil, false
		}
		b[i] = byte(t.Val)
	}
	return b, true
}

func (m *Machine) bytesValue(b []byte) []Value {
	r := make([]Value, len(b))
	for i, x := range b {
		r[i] = m.tf.Const(8, uint64(x))
	}
	return r
}

func isNamed(t types.Type, pkg, name string) bool {
	n, ok := t.(*types.Named)
	return ok && n.Obj().Pkg() != nil && n.Obj().Pkg().Path() == pkg && n.Obj().Name() == name
}

// encoding/json is reflection-driven and not interpreted. The stubs run the real encoding/json natively on concrete
// json.RawMessage / string / []byte values (the contract: Encode performs exactly one Write of the encoding followed by
// a newline; Unmarshal is a function of its input bytes and copies what it keeps).
func addStubIntrinsics(t map[string]Intrinsic) {
	// http.Client.Do is I/O and whole-program: contract stub "the request is handed to the client's RoundTripper once
	// and its answer is returned" (redirects, cookies and timeouts of the real client are outside the claim).
	t["(*net/http.Client).Do"] = func(m *Machine, fr *Frame, fn *ssa.Function, a []Value) Value {
		m.noteStub("net/http.Client.Do (stub: one RoundTrip on the client's Transport)")
		cp := a[0].(*Value)
		if cp == nil {
			m.runtimePanic(fr, "nil *http.Client")
		}
		st := under(derefType(fn.Signature.Recv().Type())).(*types.Struct)
		for i := 0; i < st.NumFields(); i++ {
			if st.Field(i).Name() == "Transport" {
				rt := (*cp).(StructV)[i].(IfaceV)
				if rt.T == nil {
					m.unsupported("http.Client without Transport (the default transport is real I/O)")
				}
				r, ok := m.callMethod(fr, rt, "RoundTrip", a[1])
				if !ok {
					m.unsupported("Transport without RoundTrip")
				}
				return r
			}
		}
		m.unsupported("http.Client layout")
		return nil
	}
	t["encoding/json.NewEncoder"] = func(m *Machine, fr *Frame, fn *ssa.Function, a []Value) Value {
		m.noteStub("encoding/json.NewEncoder (stub)")
		cell := new(Value)
		*cell = m.zero(derefType(fn.Signature.Results().At(0).Type()))
		m.side("jsonenc")[cell] = a[0]
		return cell
	}
	t["(*encoding/json.Encoder).Encode"] = func(m *Machine, fr *Frame, fn *ssa.Function, a []Value) Value {
		m.noteStub("encoding/json.Encoder.Encode (native on concrete value, one Write)")
		w, _ := m.side("jsonenc")[a[0].(*Value)].(IfaceV)
		// the real Encoder remembers the first error of its writer and returns it from every later Encode
		if sticky, ok := m.side("jsonencErr")[a[0].(*Value)].(IfaceV); ok && sticky.T != nil {
			return sticky
		}
		v := a[1].(IfaceV)
		var native interface{}
		switch {
		case v.T == nil:
			native = nil
		case isNamed(v.T, "encoding/json", "RawMessage"):
			b, ok := m.concreteBytes(v.V)
			if !ok {
				m.unsupported("json.Encode of symbolic RawMessage")
			}
			native = json.RawMessage(b)
			if sl, isSl := v.V.([]Value); isSl && sl == nil {
				native = json.RawMessage(nil) // (encodes as null)
			}
		default:
			switch x := v.V.(type) {
			case string:
				native = x
			case float64:
				native = x
			case *Term:
				if !x.IsConst() {
					m.unsupported("json.Encode of symbolic scalar")
				}
				native = x.SVal()
			default:
				m.unsupported("json.Encode of %v", v.T)
			}
		}
		out, err := json.Marshal(native)
		if err != nil {
			return m.newErrorString(err.Error())
		}
		out = append(out, '\n')
		r, ok := m.callMethod(fr, w, "Write", m.bytesValue(out))
		if !ok {
			m.unsupported("json encoder target without Write")
		}
		if e := r.(TupleV)[1].(IfaceV); e.T != nil {
			m.side("jsonencErr")[a[0].(*Value)] = e
			return e
		}
		return IfaceV{}
	}
	// json.NewDecoder(r).Decode(v): the real encoding/json.Decoder runs natively; its source is an adapter whose Read
	// executes the interpreted reader on demand, so the number, sizes and error results of the reads the decoder makes
	// are the real decoder's (it stops reading once a value is complete; a read error after that point stays unseen).
	t["encoding/json.NewDecoder"] = func(m *Machine, fr *Frame, fn *ssa.Function, a []Value) Value {
		m.noteStub("encoding/json.NewDecoder (native decoder over the interpreted reader)")
		cell := new(Value)
		*cell = m.zero(derefType(fn.Signature.Results().At(0).Type()))
		ir := &interpReader{m: m, r: a[0].(IfaceV), errs: map[error]IfaceV{}}
		ir.dec = json.NewDecoder(ir)
		m.side("jsondec")[cell] = ir
		return cell
	}
	t["(*encoding/json.Decoder).Decode"] = func(m *Machine, fr *Frame, fn *ssa.Function, a []Value) Value {
		m.noteStub("encoding/json.Decoder.Decode (native on concrete bytes)")
		ir, _ := m.side("jsondec")[a[0].(*Value)].(*interpReader)
		if ir == nil {
			m.unsupported("json.Decoder without NewDecoder")
		}
		ir.fr = fr
		v := a[1].(IfaceV)
		pt, isPtr := v.T.(*types.Pointer)
		if !isPtr || !isNamed(pt.Elem(), "encoding/json", "RawMessage") {
			m.unsupported("json.Decoder.Decode into %v", v.T)
		}
		var rm json.RawMessage
		err := ir.dec.Decode(&rm)
		if err != nil {
			if orig, ok := ir.errs[err]; ok {
				return orig // the reader's own error, passed through by the decoder
			}
			if err == io.EOF {
				return ir.eofValue(fr)
			}
			return m.newErrorString(err.Error())
		}
		*(v.V.(*Value)) = m.bytesValue(append([]byte{}, rm...))
		return IfaceV{}
	}
	// jsonErr: the error value of a native json call, keeping the two error types callers tell apart with errors.As
	jsonErr := func(m *Machine, err error) Value {
		mk := func(name string, set func(st *types.Struct, sv StructV)) Value {
			pkg := m.eng.Pkgs["encoding/json"]
			if pkg == nil || pkg.Type(name) == nil {
				return m.newErrorString(err.Error())
			}
			nt := pkg.Type(name).Type()
			cell := new(Value)
			*cell = m.zero(nt)
			sv, ok := (*cell).(StructV)
			st, ok2 := under(nt).(*types.Struct)
			if !ok || !ok2 {
				return m.newErrorString(err.Error())
			}
			set(st, sv)
			return IfaceV{T: m.ptrTypeOf("encoding/json", name), V: cell}
		}
		setField := func(st *types.Struct, sv StructV, name string, v Value) {
			for i := 0; i < st.NumFields(); i++ {
				if st.Field(i).Name() == name {
					sv[i] = v
				}
			}
		}
		var se *json.SyntaxError
		var te *json.UnmarshalTypeError
		switch {
		case errors.As(err, &se):
			return mk("SyntaxError", func(st *types.Struct, sv StructV) {
				setField(st, sv, "msg", se.Error())
				setField(st, sv, "Offset", m.tf.Const(64, uint64(se.Offset)))
			})
		case errors.As(err, &te):
			v := mk("UnmarshalTypeError", func(st *types.Struct, sv StructV) {
				setField(st, sv, "Value", te.Value)
				setField(st, sv, "Offset", m.tf.Const(64, uint64(te.Offset)))
				setField(st, sv, "Struct", te.Struct)
				setField(st, sv, "Field", te.Field)
			})
			// (its Type field is a reflect.Type, which is not interpreted: the message is kept aside)
			if iv, ok := v.(IfaceV); ok {
				if cell, ok := iv.V.(*Value); ok {
					m.side("jsonUTEmsg")[cell] = te.Error()
				}
			}
			return v
		}
		return m.newErrorString(err.Error())
	}
	t["(*encoding/json.UnmarshalTypeError).Error"] = func(m *Machine, fr *Frame, fn *ssa.Function, a []Value) Value {
		if cell, ok := a[0].(*Value); ok {
			if msg, ok := m.side("jsonUTEmsg")[cell].(string); ok {
				return msg
			}
		}
		return "json: cannot unmarshal value"
	}
	t["encoding/json.Valid"] = func(m *Machine, fr *Frame, fn *ssa.Function, a []Value) Value {
		m.noteStub("encoding/json.Valid (native on concrete bytes)")
		m.checkPooledBytes(fr, "json.Valid", a[0])
		data, ok := m.concreteBytes(a[0])
		if !ok {
			m.unsupported("json.Valid of symbolic bytes")
		}
		if json.Valid(data) {
			return m.tf.True
		}
		return m.tf.False
	}
	t["encoding/json.Unmarshal"] = func(m *Machine, fr *Frame, fn *ssa.Function, a []Value) Value {
		m.noteStub("encoding/json.Unmarshal (native on concrete bytes)")
		m.checkPooledBytes(fr, "json.Unmarshal", a[0])
		data, ok := m.concreteBytes(a[0])
		if !ok {
			m.unsupported("json.Unmarshal of symbolic bytes")
		}
		v := a[1].(IfaceV)
		pt, isPtr := v.T.(*types.Pointer)
		if !isPtr {
			return m.newErrorString("json: Unmarshal(non-pointer)")
		}
		target := v.V.(*Value)
		switch {
		case isNamed(pt.Elem(), "encoding/json", "RawMessage"):
			var rm json.RawMessage
			if err := json.Unmarshal(data, &rm); err != nil {
				return jsonErr(m, err)
			}
			*target = m.bytesValue(append([]byte{}, rm...))
			return IfaceV{}
		case isString(pt.Elem()):
			var s string
			if err := json.Unmarshal(data, &s); err != nil {
				return jsonErr(m, err)
			}
			*target = s
			return IfaceV{}
		}
		if sl, isSl := under(pt.Elem()).(*types.Slice); isSl {
			if eb, isB := under(sl.Elem()).(*types.Basic); isB && eb.Kind() == types.Uint8 {
				// []byte target: base64 in a JSON string
				var bs []byte
				if err := json.Unmarshal(data, &bs); err != nil {
					return jsonErr(m, err)
				}
				*target = m.bytesValue(bs)
				return IfaceV{}
			}
		}
		if b, isB := under(pt.Elem()).(*types.Basic); isB && b.Kind() == types.Int {
			var n int
			if err := json.Unmarshal(data, &n); err != nil {
				return jsonErr(m, err) // (the text of a type or range error echoes the offending literal)
			}
			*target = m.tf.Const(64, uint64(n))
			return IfaceV{}
		}
		m.unsupported("json.Unmarshal into %v", pt.Elem())
		return nil
	}
}

func sha1Sum(b []byte) []byte {
	h := sha1.Sum(b)
	return h[:]
}

func b64Encode(b []byte) string { return base64.StdEncoding.EncodeToString(b) }

// interpReader is a native io.Reader whose Read runs the interpreted reader.
type interpReader struct {
	m    *Machine
	fr   *Frame
	r    IfaceV
	dec  *json.Decoder
	errs map[error]IfaceV
}

func (ir *interpReader) eofValue(fr *Frame) Value {
	m := ir.m
	g, _ := m.eng.Pkgs["io"].Members["EOF"].(*ssa.Global)
	if g == nil {
		m.unsupported("io.EOF not found")
	}
	return *m.globalAddr(fr, g)
}

func (ir *interpReader) Read(p []byte) (int, error) {
	m := ir.m
	vals := make([]Value, len(p))
	for j := range vals {
		vals[j] = m.tf.Const(8, 0)
	}
	res, ok := m.callMethod(ir.fr, ir.r, "Read", vals)
	if !ok {
		m.unsupported("json decoder source without Read")
	}
	tup := res.(TupleV)
	n := int(m.concreteInt(ir.fr, tup[0].(*Term), "decoder read count"))
	chunk, okc := m.concreteBytes(vals[:n])
	if !okc {
		m.unsupported("json.Decoder over symbolic bytes")
	}
	copy(p, chunk)
	e := tup[1].(IfaceV)
	if e.T == nil {
		return n, nil
	}
	if eof, isI := ir.eofValue(ir.fr).(IfaceV); isI && eof.T != nil && e.T == eof.T && e.V == eof.V {
		return n, io.EOF
	}
	txt := "error"
	if s, isS := m.errorString(ir.fr, e).(string); isS {
		txt = s
	}
	ne := errors.New(txt)
	ir.errs[ne] = e
	return n, ne
}
