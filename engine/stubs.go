package main

// Contract-level stubs for code that is not encoded (listed in evidence as part of the claim).

import (
	"bytes"
	"crypto/sha1"
	"encoding/base64"
	"encoding/json"
	"go/types"
	"io"

	"golang.org/x/tools/go/ssa"
)

func addMiscIntrinsics(t map[string]Intrinsic) {
}

func (m *Machine) concreteBytes(v Value) ([]byte, bool) {
	var terms []*Term
	switch x := v.(type) {
	case []Value:
		for _, e := range x {
			terms = append(terms, e.(*Term))
		}
	case string:
		return []byte(x), true
	case *SymStr:
		terms = x.B
	default:
		return nil, false
	}
	b := make([]byte, len(terms))
	for i, t := range terms {
		if !t.IsConst() {
			return nil, false
		}
		b[i] = byte(t.Val)
	}
	return b, true
}

func (m *Machine) bytesValue(b []byte) []Value {
	r := make([]Value, len(b))
	for i, x := range b {
		r[i] = m.tf.Const(8, uint64(x))
	}
	return r
}

func isNamed(t types.Type, pkg, name string) bool {
	n, ok := t.(*types.Named)
	return ok && n.Obj().Pkg() != nil && n.Obj().Pkg().Path() == pkg && n.Obj().Name() == name
}

// encoding/json is reflection-driven and not interpreted. The stubs run the real encoding/json natively on concrete
// json.RawMessage / string / []byte values (the contract: Encode performs exactly one Write of the encoding followed by
// a newline; Unmarshal is a function of its input bytes and copies what it keeps).
func addStubIntrinsics(t map[string]Intrinsic) {
	// http.Client.Do is I/O and whole-program: contract stub "the request is handed to the client's RoundTripper once
	// and its answer is returned" (redirects, cookies and timeouts of the real client are outside the claim).
	t["(*net/http.Client).Do"] = func(m *Machine, fr *Frame, fn *ssa.Function, a []Value) Value {
		m.noteStub("net/http.Client.Do (stub: one RoundTrip on the client's Transport)")
		cp := a[0].(*Value)
		if cp == nil {
			m.runtimePanic(fr, "nil *http.Client")
		}
		st := under(derefType(fn.Signature.Recv().Type())).(*types.Struct)
		for i := 0; i < st.NumFields(); i++ {
			if st.Field(i).Name() == "Transport" {
				rt := (*cp).(StructV)[i].(IfaceV)
				if rt.T == nil {
					m.unsupported("http.Client without Transport (the default transport is real I/O)")
				}
				r, ok := m.callMethod(fr, rt, "RoundTrip", a[1])
				if !ok {
					m.unsupported("Transport without RoundTrip")
				}
				return r
			}
		}
		m.unsupported("http.Client layout")
		return nil
	}
	t["encoding/json.NewEncoder"] = func(m *Machine, fr *Frame, fn *ssa.Function, a []Value) Value {
		m.noteStub("encoding/json.NewEncoder (stub)")
		cell := new(Value)
		*cell = m.zero(derefType(fn.Signature.Results().At(0).Type()))
		m.side("jsonenc")[cell] = a[0]
		return cell
	}
	t["(*encoding/json.Encoder).Encode"] = func(m *Machine, fr *Frame, fn *ssa.Function, a []Value) Value {
		m.noteStub("encoding/json.Encoder.Encode (native on concrete value, one Write)")
		w, _ := m.side("jsonenc")[a[0].(*Value)].(IfaceV)
		v := a[1].(IfaceV)
		var native interface{}
		switch {
		case v.T == nil:
			native = nil
		case isNamed(v.T, "encoding/json", "RawMessage"):
			b, ok := m.concreteBytes(v.V)
			if !ok {
				m.unsupported("json.Encode of symbolic RawMessage")
			}
			native = json.RawMessage(b)
		default:
			switch x := v.V.(type) {
			case string:
				native = x
			case *Term:
				if !x.IsConst() {
					m.unsupported("json.Encode of symbolic scalar")
				}
				native = x.SVal()
			default:
				m.unsupported("json.Encode of %v", v.T)
			}
		}
		out, err := json.Marshal(native)
		if err != nil {
			return m.newErrorString(err.Error())
		}
		out = append(out, '\n')
		r, ok := m.callMethod(fr, w, "Write", m.bytesValue(out))
		if !ok {
			m.unsupported("json encoder target without Write")
		}
		if e := r.(TupleV)[1].(IfaceV); e.T != nil {
			return e
		}
		return IfaceV{}
	}
	// json.NewDecoder(r).Decode(v): the stub reads r to its end (the real decoder buffers ahead as well) and decodes the
	// first value natively; what follows the first value is left undecoded, exactly as the real Decoder does.
	t["encoding/json.NewDecoder"] = func(m *Machine, fr *Frame, fn *ssa.Function, a []Value) Value {
		m.noteStub("encoding/json.NewDecoder (stub)")
		cell := new(Value)
		*cell = m.zero(derefType(fn.Signature.Results().At(0).Type()))
		m.side("jsondec")[cell] = a[0]
		return cell
	}
	t["(*encoding/json.Decoder).Decode"] = func(m *Machine, fr *Frame, fn *ssa.Function, a []Value) Value {
		m.noteStub("encoding/json.Decoder.Decode (native on concrete bytes, first value only)")
		cell := a[0].(*Value)
		var data []byte
		if buf, ok := m.side("jsondecbuf")[cell].(string); ok {
			data = []byte(buf)
		} else {
			r, _ := m.side("jsondec")[cell].(IfaceV)
			for i := 0; i < 1000; i++ {
				p := make([]Value, 512)
				for j := range p {
					p[j] = m.tf.Const(8, 0)
				}
				res, ok := m.callMethod(fr, r, "Read", p)
				if !ok {
					m.unsupported("json decoder source without Read")
				}
				tup := res.(TupleV)
				n := int(m.concreteInt(fr, tup[0].(*Term), "decoder read count"))
				chunk, okc := m.concreteBytes(p[:n])
				if !okc {
					m.unsupported("json.Decoder over symbolic bytes")
				}
				data = append(data, chunk...)
				if e := tup[1].(IfaceV); e.T != nil {
					break
				}
			}
		}
		v := a[1].(IfaceV)
		pt, isPtr := v.T.(*types.Pointer)
		if !isPtr || !isNamed(pt.Elem(), "encoding/json", "RawMessage") {
			m.unsupported("json.Decoder.Decode into %v", v.T)
		}
		dec := json.NewDecoder(bytes.NewReader(data))
		var rm json.RawMessage
		err := dec.Decode(&rm)
		rest, _ := io.ReadAll(dec.Buffered())
		m.side("jsondecbuf")[cell] = string(rest)
		if err != nil {
			return m.newErrorString(err.Error())
		}
		*(v.V.(*Value)) = m.bytesValue(append([]byte{}, rm...))
		return IfaceV{}
	}
	t["encoding/json.Unmarshal"] = func(m *Machine, fr *Frame, fn *ssa.Function, a []Value) Value {
		m.noteStub("encoding/json.Unmarshal (native on concrete bytes)")
		data, ok := m.concreteBytes(a[0])
		if !ok {
			m.unsupported("json.Unmarshal of symbolic bytes")
		}
		v := a[1].(IfaceV)
		pt, isPtr := v.T.(*types.Pointer)
		if !isPtr {
			return m.newErrorString("json: Unmarshal(non-pointer)")
		}
		target := v.V.(*Value)
		switch {
		case isNamed(pt.Elem(), "encoding/json", "RawMessage"):
			var rm json.RawMessage
			if err := json.Unmarshal(data, &rm); err != nil {
				return m.newErrorString(err.Error())
			}
			*target = m.bytesValue(append([]byte{}, rm...))
			return IfaceV{}
		case isString(pt.Elem()):
			var s string
			if err := json.Unmarshal(data, &s); err != nil {
				return m.newErrorString(err.Error())
			}
			*target = s
			return IfaceV{}
		}
		m.unsupported("json.Unmarshal into %v", pt.Elem())
		return nil
	}
}

func sha1Sum(b []byte) []byte {
	h := sha1.Sum(b)
	return h[:]
}

func b64Encode(b []byte) string { return base64.StdEncoding.EncodeToString(b) }
