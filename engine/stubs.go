package main

// Contract-level stubs for code that is not encoded (listed in evidence as part of the claim).

import (
	"golang.org/x/tools/go/ssa"
)

func addMiscIntrinsics(t map[string]Intrinsic) {
	_ = ssa.NaiveForm
}

func addStubIntrinsics(t map[string]Intrinsic) {
}
