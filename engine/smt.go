package main

// SMT-LIB2 pipe to a persistent solver process (z3 -in, or cvc5 --incremental).

import (
	"bufio"
	"fmt"
	"io"
	"os"
	"os/exec"
	"strconv"
	"strings"
	"time"
)

type SolverKind int

const (
	SolverZ3 SolverKind = iota
	SolverZ3New
	SolverCVC5
)

func (k SolverKind) String() string {
	switch k {
	case SolverZ3:
		return "z3"
	case SolverZ3New:
		return "z3-new"
	default:
		return "cvc5"
	}
}

type Solver struct {
	kind      SolverKind
	cmd       *exec.Cmd
	in        io.WriteCloser
	out       *bufio.Reader
	timeoutMs int
	// per-scope bookkeeping
	defined  map[int]bool
	declared map[string]bool
	// stats
	Queries   int
	Sat       int
	Unsat     int
	Unknown   int
	Errors    int
	Time      time.Duration
	log       io.Writer
	lastError string
	dead      bool
}

func NewSolver(kind SolverKind, timeoutMs int) (*Solver, error) {
	var cmd *exec.Cmd
	switch kind {
	case SolverZ3:
		cmd = exec.Command("z3", "-in", "-smt2")
	case SolverZ3New:
		cmd = exec.Command("z3-new", "-in", "-smt2")
	case SolverCVC5:
		cmd = exec.Command("cvc5", "--incremental", "--strings-exp", "--produce-models", "--lang=smt2",
			fmt.Sprintf("--tlimit-per=%d", timeoutMs))
	}
	in, err := cmd.StdinPipe()
	if err != nil {
		return nil, err
	}
	outp, err := cmd.StdoutPipe()
	if err != nil {
		return nil, err
	}
	cmd.Stderr = cmd.Stdout
	if err := cmd.Start(); err != nil {
		return nil, err
	}
	s := &Solver{kind: kind, cmd: cmd, in: in, out: bufio.NewReaderSize(outp, 1<<16), timeoutMs: timeoutMs,
		defined: map[int]bool{}, declared: map[string]bool{}}
	if kind == SolverCVC5 {
		s.send("(set-logic ALL)")
		s.send("(set-option :strings-exp true)")
	} else {
		s.send(fmt.Sprintf("(set-option :timeout %d)", timeoutMs))
		s.send("(set-option :model.completion true)")
	}
	if p := os.Getenv("SYMGO_SMTLOG"); p != "" {
		if f, err := os.Create(fmt.Sprintf("%s.%d", p, cmd.Process.Pid)); err == nil {
			s.log = f
			fmt.Fprintln(f, "(set-option :timeout 10000)")
		}
	}
	s.send("(push 1)")
	return s, nil
}

func (s *Solver) Close() {
	if s == nil || s.cmd == nil {
		return
	}
	s.in.Close()
	done := make(chan struct{})
	go func() { s.cmd.Wait(); close(done) }()
	select {
	case <-done:
	case <-time.After(2 * time.Second):
		s.cmd.Process.Kill()
		<-done
	}
	s.cmd = nil
}

func (s *Solver) send(line string) {
	if s.log != nil {
		fmt.Fprintln(s.log, line)
	}
	if _, err := io.WriteString(s.in, line+"\n"); err != nil {
		s.dead = true
	}
}

// ResetScope drops everything asserted/declared for the current path.
func (s *Solver) ResetScope() {
	s.send("(pop 1)")
	s.send("(push 1)")
	s.defined = map[int]bool{}
	s.declared = map[string]bool{}
}

func sortName(w uint8) string {
	switch w {
	case 0:
		return "Bool"
	case WString:
		return "String"
	case WInt:
		return "Int"
	case WRegLan:
		return "RegLan"
	}
	return fmt.Sprintf("(_ BitVec %d)", w)
}

func smtVarName(n string) string {
	return "|" + strings.ReplaceAll(strings.ReplaceAll(n, "|", "_"), "\\", "_") + "|"
}

func bvLit(w uint8, v uint64) string {
	if w%4 == 0 {
		return fmt.Sprintf("#x%0*x", int(w/4), v)
	}
	return fmt.Sprintf("#b%0*b", int(w), v)
}

func smtStrLit(s string) string {
	var sb strings.Builder
	sb.WriteByte('"')
	for i := 0; i < len(s); i++ {
		c := s[i]
		switch {
		case c == '"':
			sb.WriteString(`""`)
		case c == '\\':
			sb.WriteString(`\u{5c}`)
		case c >= 0x20 && c < 0x7f:
			sb.WriteByte(c)
		default:
			fmt.Fprintf(&sb, `\u{%x}`, c)
		}
	}
	sb.WriteByte('"')
	return sb.String()
}

// ref returns the SMT text naming t, emitting definitions for t's sub-DAG as needed.
func (s *Solver) ref(t *Term) string {
	switch t.Op {
	case OpConst:
		if t.W == 0 {
			if t.Val != 0 {
				return "true"
			}
			return "false"
		}
		if t.W == WInt {
			return strconv.FormatInt(int64(t.Val), 10)
		}
		return bvLit(t.W, t.Val)
	case OpStrLit:
		return smtStrLit(t.Name)
	case OpVar:
		n := smtVarName(t.Name)
		if !s.declared[t.Name] {
			s.declared[t.Name] = true
			s.send(fmt.Sprintf("(declare-const %s %s)", n, sortName(t.W)))
		}
		return n
	}
	name := fmt.Sprintf("t%d", t.id)
	if s.defined[t.id] {
		return name
	}
	// iterative post-order to avoid deep recursion on long chains
	type fr struct {
		t *Term
		i int
	}
	stack := []fr{{t, 0}}
	for len(stack) > 0 {
		top := &stack[len(stack)-1]
		ks := top.t.kids()
		if top.i < len(ks) {
			k := ks[top.i]
			top.i++
			if k.Op != OpConst && k.Op != OpVar && k.Op != OpStrLit && !s.defined[k.id] {
				stack = append(stack, fr{k, 0})
			}
			continue
		}
		cur := top.t
		stack = stack[:len(stack)-1]
		if s.defined[cur.id] {
			continue
		}
		s.defined[cur.id] = true
		s.send(fmt.Sprintf("(define-fun t%d () %s %s)", cur.id, sortName(cur.W), s.body(cur)))
	}
	return name
}

func (s *Solver) body(t *Term) string {
	r := func(x *Term) string { return s.ref(x) }
	switch t.Op {
	case OpExtract:
		return fmt.Sprintf("((_ extract %d %d) %s)", t.Val>>8, t.Val&0xff, r(t.A))
	case OpZext:
		return fmt.Sprintf("((_ zero_extend %d) %s)", t.W-t.A.W, r(t.A))
	case OpSext:
		return fmt.Sprintf("((_ sign_extend %d) %s)", t.W-t.A.W, r(t.A))
	case OpBvXor:
		acc := r(t.Args[0])
		for _, x := range t.Args[1:] {
			acc = fmt.Sprintf("(bvxor %s %s)", acc, r(x))
		}
		return acc
	case OpStrApp:
		name := t.Name
		if strings.HasPrefix(name, "uf:") {
			name = smtVarName(name[3:])
			if !s.declared["fun:"+t.Name] {
				s.declared["fun:"+t.Name] = true
				var as []string
				for _, x := range t.Args {
					as = append(as, sortName(x.W))
				}
				s.send(fmt.Sprintf("(declare-fun %s (%s) %s)", name, strings.Join(as, " "), sortName(t.W)))
			}
		}
		if len(t.Args) == 0 {
			return name
		}
		var sb strings.Builder
		sb.WriteString("(" + name)
		for _, x := range t.Args {
			sb.WriteString(" " + r(x))
		}
		sb.WriteString(")")
		return sb.String()
	}
	var sb strings.Builder
	sb.WriteString("(" + opName(t))
	for _, x := range t.kids() {
		sb.WriteString(" " + r(x))
	}
	sb.WriteString(")")
	return sb.String()
}

func (s *Solver) Assert(t *Term) {
	if t.IsConst() && t.Val != 0 {
		return
	}
	s.send("(assert " + s.ref(t) + ")")
}

type Verdict int

const (
	VSat Verdict = iota
	VUnsat
	VUnknown
)

func (v Verdict) String() string { return [...]string{"sat", "unsat", "unknown"}[v] }

// readUntilMarker collects output lines until the echo marker.
func (s *Solver) readUntilMarker() ([]string, error) {
	var lines []string
	for {
		line, err := s.out.ReadString('\n')
		if err != nil {
			s.dead = true
			return lines, err
		}
		line = strings.TrimSpace(line)
		if line == "@@" || line == "\"@@\"" {
			return lines, nil
		}
		if line != "" {
			lines = append(lines, line)
		}
	}
}

func (s *Solver) marker() { s.send(`(echo "@@")`) }

func (s *Solver) check() Verdict {
	s.Queries++
	t0 := time.Now()
	s.send("(check-sat)")
	s.marker()
	lines, err := s.readUntilMarker()
	s.Time += time.Since(t0)
	v := VUnknown
	sawErr := err != nil
	for _, l := range lines {
		switch {
		case strings.HasPrefix(l, "(error"):
			sawErr = true
			s.lastError = l
		case l == "sat":
			v = VSat
		case l == "unsat":
			v = VUnsat
		case l == "unknown", l == "timeout":
			v = VUnknown
		}
	}
	if sawErr {
		s.Errors++
		v = VUnknown
	}
	if s.log != nil {
		fmt.Fprintf(s.log, "; verdict %s\n", v)
	}
	switch v {
	case VSat:
		s.Sat++
	case VUnsat:
		s.Unsat++
	default:
		s.Unknown++
	}
	return v
}

// CheckWith answers whether the asserted context together with extra is satisfiable.
func (s *Solver) CheckWith(extra *Term) Verdict {
	if extra != nil && extra.IsConst() {
		if extra.Val == 0 {
			return VUnsat
		}
		extra = nil
	}
	if extra == nil {
		return s.check()
	}
	ref := s.ref(extra)
	s.send("(push 1)")
	s.send("(assert " + ref + ")")
	v := s.check()
	s.send("(pop 1)")
	return v
}

// ModelWith is CheckWith that also returns values for the given variables when sat.
func (s *Solver) ModelWith(extra *Term, vars []*Term) (Verdict, map[string]uint64, map[string]string) {
	var ref string
	if extra != nil && !(extra.IsConst() && extra.Val != 0) {
		if extra.IsConst() {
			return VUnsat, nil, nil
		}
		ref = s.ref(extra)
	}
	var names []string
	for _, v := range vars {
		names = append(names, s.ref(v))
	}
	s.send("(push 1)")
	if ref != "" {
		s.send("(assert " + ref + ")")
	}
	v := s.check()
	var m map[string]uint64
	var ms map[string]string
	if v == VSat && len(vars) > 0 {
		m, ms = s.getValues(vars, names)
	}
	s.send("(pop 1)")
	return v, m, ms
}

func (s *Solver) getValues(vars []*Term, names []string) (map[string]uint64, map[string]string) {
	m := map[string]uint64{}
	ms := map[string]string{}
	const batch = 200
	for i := 0; i < len(vars); i += batch {
		j := i + batch
		if j > len(vars) {
			j = len(vars)
		}
		s.send("(get-value (" + strings.Join(names[i:j], " ") + "))")
		s.marker()
		lines, _ := s.readUntilMarker()
		txt := strings.Join(lines, " ")
		if strings.Contains(txt, "(error") {
			s.Errors++
			s.lastError = txt
			continue
		}
		parseValues(txt, vars[i:j], m, ms)
	}
	return m, ms
}

// parseValues parses ((name val) (name val) ...) in order.
func parseValues(txt string, vars []*Term, m map[string]uint64, ms map[string]string) {
	toks := tokenizeSexp(txt)
	// expected: ( ( name val ) ... )
	pos := 0
	next := func() string {
		if pos < len(toks) {
			t := toks[pos]
			pos++
			return t
		}
		return ""
	}
	if next() != "(" {
		return
	}
	for _, v := range vars {
		if next() != "(" {
			return
		}
		next() // name
		// value: atom or list
		val := next()
		if val == "(" {
			depth := 1
			parts := []string{"("}
			for depth > 0 && pos < len(toks) {
				t := next()
				if t == "(" {
					depth++
				} else if t == ")" {
					depth--
				}
				parts = append(parts, t)
			}
			val = strings.Join(parts, " ")
		}
		next() // ")"
		if v.W == WString {
			ms[v.Name] = unquoteSMT(val)
			continue
		}
		m[v.Name] = parseSMTValue(val)
	}
}

func tokenizeSexp(s string) []string {
	var toks []string
	i := 0
	for i < len(s) {
		c := s[i]
		switch {
		case c == ' ' || c == '\t' || c == '\n' || c == '\r':
			i++
		case c == '(' || c == ')':
			toks = append(toks, string(c))
			i++
		case c == '"':
			j := i + 1
			for j < len(s) {
				if s[j] == '"' {
					if j+1 < len(s) && s[j+1] == '"' {
						j += 2
						continue
					}
					break
				}
				j++
			}
			toks = append(toks, s[i:j+1])
			i = j + 1
		case c == '|':
			j := strings.IndexByte(s[i+1:], '|')
			toks = append(toks, s[i:i+j+2])
			i = i + j + 2
		default:
			j := i
			for j < len(s) && !strings.ContainsRune(" \t\n\r()", rune(s[j])) {
				j++
			}
			toks = append(toks, s[i:j])
			i = j
		}
	}
	return toks
}

func parseSMTValue(v string) uint64 {
	switch {
	case v == "true":
		return 1
	case v == "false":
		return 0
	case strings.HasPrefix(v, "#x"):
		x, _ := strconv.ParseUint(v[2:], 16, 64)
		return x
	case strings.HasPrefix(v, "#b"):
		x, _ := strconv.ParseUint(v[2:], 2, 64)
		return x
	case strings.HasPrefix(v, "( _ bv"):
		f := strings.Fields(v)
		x, _ := strconv.ParseUint(strings.TrimPrefix(f[2], "bv"), 10, 64)
		return x
	case strings.HasPrefix(v, "( -"):
		f := strings.Fields(v)
		x, _ := strconv.ParseInt(f[2], 10, 64)
		return uint64(-x)
	}
	x, _ := strconv.ParseInt(v, 10, 64)
	return uint64(x)
}

func unquoteSMT(v string) string {
	if len(v) >= 2 && v[0] == '"' {
		v = v[1 : len(v)-1]
	}
	v = strings.ReplaceAll(v, `""`, `"`)
	var sb strings.Builder
	for i := 0; i < len(v); i++ {
		if v[i] == '\\' && i+2 < len(v) && v[i+1] == 'u' && v[i+2] == '{' {
			j := strings.IndexByte(v[i:], '}')
			if j > 0 {
				x, _ := strconv.ParseUint(v[i+3:i+j], 16, 32)
				if x < 256 {
					sb.WriteByte(byte(x))
				} else {
					sb.WriteRune(rune(x))
				}
				i += j
				continue
			}
		}
		if v[i] == '\\' && i+5 < len(v) && v[i+1] == 'u' {
			x, err := strconv.ParseUint(v[i+2:i+6], 16, 32)
			if err == nil {
				sb.WriteByte(byte(x))
				i += 5
				continue
			}
		}
		if v[i] == '\\' && i+3 < len(v) && v[i+1] == 'x' {
			x, err := strconv.ParseUint(v[i+2:i+4], 16, 32)
			if err == nil {
				sb.WriteByte(byte(x))
				i += 3
				continue
			}
		}
		sb.WriteByte(v[i])
	}
	return sb.String()
}

// ValueOf returns a value of t in some model of the asserted context.
func (s *Solver) ValueOf(t *Term) (Verdict, uint64) {
	ref := s.ref(t)
	v := s.check()
	if v != VSat {
		return v, 0
	}
	s.send("(get-value (" + ref + "))")
	s.marker()
	lines, _ := s.readUntilMarker()
	txt := strings.Join(lines, " ")
	if strings.Contains(txt, "(error") {
		s.Errors++
		s.lastError = txt
		return VUnknown, 0
	}
	m := map[string]uint64{}
	parseValues(txt, []*Term{{Op: OpVar, W: t.W, Name: "x"}}, m, map[string]string{})
	return VSat, m["x"]
}

// StrValueOf returns the value of a String-sorted term in some model of the asserted context.
func (s *Solver) StrValueOf(t *Term) (Verdict, string) {
	ref := s.ref(t)
	v := s.check()
	if v != VSat {
		return v, ""
	}
	s.send("(get-value (" + ref + "))")
	s.marker()
	lines, _ := s.readUntilMarker()
	txt := strings.Join(lines, " ")
	if strings.Contains(txt, "(error") {
		s.Errors++
		s.lastError = txt
		return VUnknown, ""
	}
	m := map[string]uint64{}
	ms := map[string]string{}
	parseValues(txt, []*Term{{Op: OpVar, W: WString, Name: "x"}}, m, ms)
	return VSat, ms["x"]
}
