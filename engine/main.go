package main

import (
	"encoding/json"
	"flag"
	"fmt"
	"os"
	"runtime"
	"runtime/debug"
	"runtime/pprof"
	"sort"
	"strings"
	"time"
)

func main() {
	debug.SetGCPercent(400)
	if len(os.Args) < 2 {
		fmt.Fprintln(os.Stderr, "usage: symgo run|check|selftest ...")
		os.Exit(2)
	}
	switch os.Args[1] {
	case "run":
		cmdRun(os.Args[2:])
	case "check":
		cmdCheck(os.Args[2:])
	case "selftest":
		cmdSelftest(os.Args[2:])
	case "replay":
		cmdReplay(os.Args[2:])
	case "solverdiff":
		cmdSolverDiff(os.Args[2:])
	default:
		fmt.Fprintln(os.Stderr, "unknown command", os.Args[1])
		os.Exit(2)
	}
}

func parseParams(s string) map[string]int64 {
	r := map[string]int64{}
	for _, kv := range strings.Split(s, ",") {
		if kv == "" {
			continue
		}
		p := strings.SplitN(kv, "=", 2)
		if len(p) != 2 {
			continue
		}
		var v int64
		fmt.Sscan(p[1], &v)
		r[p[0]] = v
	}
	return r
}

// cmdRun explores one harness function and prints a summary (development entry point).
func cmdRun(args []string) {
	fs := flag.NewFlagSet("run", flag.ExitOnError)
	repo := fs.String("repo", "/repo", "repository directory")
	hdir := fs.String("harness", "/verif/harness", "harness directory")
	fn := fs.String("fn", "", "harness function")
	workers := fs.Int("workers", runtime.NumCPU(), "parallel workers")
	maxPaths := fs.Int("max-paths", 0, "path limit")
	maxSteps := fs.Int64("max-steps", 0, "per-path instruction budget")
	maxAlloc := fs.Int("max-alloc", 0, "largest slice (elements) the harness may allocate (default 1 Mi)")
	solverMs := fs.Int("solver-ms", 10000, "per-query solver timeout")
	trace := fs.Bool("trace", false, "trace instructions")
	params := fs.String("params", "", "harness parameters k=v,k=v")
	timeLimit := fs.Duration("time", 0, "wall-clock limit")
	verbose := fs.Bool("v", false, "verbose")
	solver := fs.String("solver", "z3-new", "z3|z3-new|cvc5")
	cpuprof := fs.String("cpuprofile", "", "write cpu profile")
	fs.Parse(args)
	if *cpuprof != "" {
		f, _ := os.Create(*cpuprof)
		pprof.StartCPUProfile(f)
		defer pprof.StopCPUProfile()
	}
	t0 := time.Now()
	eng, err := LoadEngine(*repo, *hdir)
	if err != nil {
		fmt.Fprintln(os.Stderr, "load:", err)
		os.Exit(3)
	}
	fmt.Fprintf(os.Stderr, "loaded in %.1fs\n", time.Since(t0).Seconds())
	cfg := Config{Harness: *fn, Workers: *workers, MaxPaths: *maxPaths, MaxSteps: *maxSteps, MaxAlloc: *maxAlloc, SolverMs: *solverMs, Trace: *trace,
		Params: parseParams(*params), WitnessEvery: 0, Solver: solverKindOf(*solver)}
	if *timeLimit > 0 {
		cfg.Deadline = time.Now().Add(*timeLimit)
	}
	if *trace {
		cfg.Workers = 1
	}
	ex, err := NewExplorer(eng, cfg)
	if err != nil {
		fmt.Fprintln(os.Stderr, err)
		os.Exit(3)
	}
	t1 := time.Now()
	ex.Run()
	printSummary(ex, time.Since(t1), *verbose)
}

func solverKindOf(s string) SolverKind {
	switch s {
	case "z3", "z3-old":
		return SolverZ3
	case "cvc5":
		return SolverCVC5
	}
	return SolverZ3New
}

func printSummary(ex *Explorer, d time.Duration, verbose bool) {
	s := &ex.Results
	fmt.Printf("harness %s: paths=%d ends=%v steps=%d decisions=%d maxdepth=%d wall=%.2fs\n", ex.cfg.Harness, s.Paths, s.Ends, s.Steps, s.Decisions, s.MaxDepth, d.Seconds())
	fmt.Printf("  asserts=%d (concrete %d) discharged=%d violations=%d inconclusive=%d\n", s.Asserts, s.AssertsConc, s.Discharged, len(s.Violations), len(s.Inconclusive))
	fmt.Printf("  solver: queries=%d sat=%d unsat=%d unknown=%d errors=%d time=%.2fs\n", s.Queries, s.Sat, s.Unsat, s.Unknown, s.SolverErrors, s.SolverTime.Seconds())
	if ex.stopWhy != "" {
		fmt.Printf("  STOPPED: %s\n", ex.stopWhy)
	}
	var rk []string
	for k := range s.Reached {
		rk = append(rk, fmt.Sprintf("%s:%d", k, s.Reached[k]))
	}
	sort.Strings(rk)
	fmt.Printf("  reached: %s\n", strings.Join(rk, " "))
	for k, n := range s.EndMsgs {
		fmt.Printf("  END %dx %s\n", n, k)
	}
	seen := map[string]int{}
	for _, v := range s.Violations {
		key := v.ID + " | " + v.Class + " | " + v.Kind
		seen[key]++
		if seen[key] == 1 {
			mj, _ := json.Marshal(v.Model)
			fmt.Printf("  VIOLATION %s kind=%s class=[%s] where=%s msg=%s\n    model=%s choices=%v\n", v.ID, v.Kind, v.Class, v.Where, v.Msg, mj, v.Choices)
			if len(v.StrModel) > 0 {
				sj, _ := json.Marshal(v.StrModel)
				fmt.Printf("    strings=%s\n", sj)
			}
		}
	}
	for k, n := range seen {
		if n > 1 {
			fmt.Printf("  (%d x %s)\n", n, k)
		}
	}
	for i, inc := range s.Inconclusive {
		if i > 5 {
			fmt.Printf("  ... %d more inconclusive\n", len(s.Inconclusive)-i)
			break
		}
		fmt.Printf("  INCONCLUSIVE %s: %s (%s)\n", inc.ID, inc.Reason, inc.Where)
	}
	if verbose {
		type kv struct {
			k string
			n int
		}
		var fk []kv
		for k, n := range s.ForkSites {
			fk = append(fk, kv{k, n})
		}
		sort.Slice(fk, func(i, j int) bool { return fk[i].n > fk[j].n })
		for i, e := range fk {
			if i > 12 {
				break
			}
			fmt.Printf("  fork %6d %s\n", e.n, e.k)
		}
		for k, n := range s.Stubs {
			fmt.Printf("  stub %6d %s\n", n, k)
		}
		fmt.Printf("  functions encoded: %d\n", len(s.Funcs))
	}
}

// cmdReplay re-runs a stored counterexample directory (written next to a VIOLATION line) natively against /repo.
func cmdReplay(args []string) {
	fs := flag.NewFlagSet("replay", flag.ExitOnError)
	dir := fs.String("dir", "", "replay directory")
	repo := fs.String("repo", "", "repository (default $VERIF_REPO or /repo)")
	verifDir := fs.String("verif", "/verif", "verif directory")
	fs.Parse(args)
	if *repo == "" {
		*repo = os.Getenv("VERIF_REPO")
		if *repo == "" {
			*repo = "/repo"
		}
	}
	out, err := ReplayStored(*repo, *verifDir+"/harness", *dir)
	fmt.Print(out)
	if err != nil {
		fmt.Fprintln(os.Stderr, err)
		os.Exit(2)
	}
}
