package main

// The property-level check: runs the obligations of one property, replays counterexamples and
// sampled witnesses natively, classifies against known_findings.jsonl, writes evidence.

import (
	"bufio"
	"crypto/sha1"
	"encoding/json"
	"flag"
	"fmt"
	"os"
	"path/filepath"
	"runtime"
	"sort"
	"strconv"
	"strings"
	"time"
)

type RunSpec struct {
	Fn           string           `json:"fn"`
	Quick        map[string]int64 `json:"quick"`
	Thorough     map[string]int64 `json:"thorough"`
	Reach        []string         `json:"reach"`
	WitnessEvery int              `json:"witness_every"`
	MaxPathsQ    int              `json:"max_paths_quick"`
	MaxPathsT    int              `json:"max_paths_thorough"`
	TimeQ        int              `json:"time_s_quick"`
	TimeT        int              `json:"time_s_thorough"`
	MaxSteps     int64            `json:"max_steps"`
	MaxAlloc     int              `json:"max_alloc"` // largest slice (elements) a harness run may allocate; default 1 Mi
	Solver       string           `json:"solver"`
	SolverMs     int              `json:"solver_ms"`
	ThoroughOnly bool             `json:"thorough_only"`
	Repeat       int              `json:"replay_repeat"`
	ReplayTO     int              `json:"replay_timeout_s"`
	Note         string           `json:"note"`
	Obligation   string           `json:"obligation"`
	Workers      int              `json:"workers"`
	// Variants: the run is repeated for each parameter overlay (e.g. role/compression combinations)
	Variants      []map[string]int64 `json:"variants"`
	QuickVariants []map[string]int64 `json:"quick_variants"` // if set, the quick tier runs these instead of Variants
}

type PropSpec struct {
	Title       string    `json:"title"`
	Level       string    `json:"level"`
	Assumptions []string  `json:"assumptions"`
	Outside     []string  `json:"outside"`
	Runs        []RunSpec `json:"runs"`
}

type KnownFinding struct {
	Property string `json:"property"`
	Key      string `json:"key"`
	Status   string `json:"status"` // open | fixed
	What     string `json:"what"`
	Commit   string `json:"commit,omitempty"`
}

func loadKnown(path string) ([]KnownFinding, error) {
	f, err := os.Open(path)
	if err != nil {
		if os.IsNotExist(err) {
			return nil, nil
		}
		return nil, err
	}
	defer f.Close()
	var out []KnownFinding
	sc := bufio.NewScanner(f)
	sc.Buffer(make([]byte, 1<<20), 1<<20)
	for sc.Scan() {
		line := strings.TrimSpace(sc.Text())
		if line == "" || strings.HasPrefix(line, "#") {
			continue
		}
		var k KnownFinding
		if err := json.Unmarshal([]byte(line), &k); err != nil {
			return nil, fmt.Errorf("known_findings: %v", err)
		}
		out = append(out, k)
	}
	return out, nil
}

type runReport struct {
	spec    RunSpec
	params  map[string]int64
	sum     *Summary
	stopWhy string
	wall    float64
	vacuous []string
}

func mergeParams(base, over map[string]int64) map[string]int64 {
	r := map[string]int64{}
	for k, v := range base {
		r[k] = v
	}
	for k, v := range over {
		r[k] = v
	}
	return r
}

func paramString(p map[string]int64) string {
	var ks []string
	for k := range p {
		ks = append(ks, k)
	}
	sort.Strings(ks)
	var parts []string
	for _, k := range ks {
		parts = append(parts, fmt.Sprintf("%s=%d", k, p[k]))
	}
	return strings.Join(parts, ",")
}

func cmdCheck(args []string) {
	fs := flag.NewFlagSet("check", flag.ExitOnError)
	prop := fs.String("prop", "", "property id")
	tier := fs.String("tier", "quick", "quick|thorough")
	verifDir := fs.String("verif", "/verif", "verif directory")
	repo := fs.String("repo", "", "repository (default $VERIF_REPO or /repo)")
	only := fs.String("only", "", "run only harness functions containing this substring (development)")
	noReplay := fs.Bool("no-replay", false, "skip native replays (development)")
	verbose := fs.Bool("v", false, "verbose")
	fs.Parse(args)
	if *repo == "" {
		*repo = os.Getenv("VERIF_REPO")
		if *repo == "" {
			*repo = "/repo"
		}
	}
	if t := os.Getenv("VERIF_TIER"); t != "" && !flagSet(fs, "tier") {
		*tier = t
	}
	seed := int64(0)
	if s := os.Getenv("VERIF_SEED"); s != "" {
		seed, _ = strconv.ParseInt(s, 10, 64)
	}
	t0 := time.Now()
	specs := map[string]PropSpec{}
	b, err := os.ReadFile(filepath.Join(*verifDir, "checks.json"))
	if err != nil {
		fmt.Fprintln(os.Stderr, "cannot read checks.json:", err)
		os.Exit(2)
	}
	if err := json.Unmarshal(b, &specs); err != nil {
		fmt.Fprintln(os.Stderr, "checks.json:", err)
		os.Exit(2)
	}
	spec, ok := specs[*prop]
	if !ok {
		fmt.Fprintln(os.Stderr, "unknown property", *prop)
		os.Exit(2)
	}
	known, err := loadKnown(filepath.Join(*verifDir, "known_findings.jsonl"))
	if err != nil {
		fmt.Fprintln(os.Stderr, err)
		os.Exit(2)
	}
	evDir := filepath.Join(*verifDir, "evidence")
	if d := os.Getenv("VERIF_EVIDENCE_DIR"); d != "" {
		evDir = d // development runs against scratch trees must not overwrite the registered evidence
	}
	evPath := filepath.Join(evDir, *prop+".json")
	os.MkdirAll(filepath.Dir(evPath), 0o755)

	// the term rewriter is part of the trusted base: differential self-test against raw evaluation on every run
	stN, stBad := RewriterSelfTest(3000, seed+7)
	if stBad != "" {
		fmt.Printf("INCONCLUSIVE property=%s reason=%q\n", *prop, "engine self-test failed (term rewriter): "+stBad)
		writeInconclusiveEvidence(evPath, *prop, *tier, seed, spec, "engine self-test failed: "+stBad, time.Since(t0).Seconds())
		os.Exit(0)
	}
	harnessDir := filepath.Join(*verifDir, "harness")
	eng, err := LoadEngine(*repo, harnessDir)
	if err != nil {
		// the harness no longer type-checks against this tree (or the tree does not build): undecidable by this run
		fmt.Printf("INCONCLUSIVE property=%s reason=%q\n", *prop, "load failed: "+err.Error())
		writeInconclusiveEvidence(evPath, *prop, *tier, seed, spec, "package load failed: "+err.Error(), time.Since(t0).Seconds())
		os.Exit(0)
	}
	loadS := time.Since(t0).Seconds()
	for _, x := range eng.Excluded {
		fmt.Printf("INCONCLUSIVE property=%s reason=%q\n", *prop, "harness file "+x+" does not type-check against this tree and was left out; its obligations are undecided")
	}

	var reports []*runReport
	for _, rs := range spec.Runs {
		if *only != "" && !strings.Contains(rs.Fn, *only) {
			continue
		}
		if rs.ThoroughOnly && *tier != "thorough" {
			continue
		}
		base := rs.Quick
		if *tier == "thorough" && rs.Thorough != nil {
			base = mergeParams(rs.Quick, rs.Thorough)
		}
		variants := rs.Variants
		if *tier != "thorough" && len(rs.QuickVariants) > 0 {
			variants = rs.QuickVariants
		}
		if len(variants) == 0 {
			variants = []map[string]int64{nil}
		}
		for _, vr := range variants {
			params := mergeParams(base, vr)
			cfg := Config{Harness: rs.Fn, Workers: runtime.NumCPU(), MaxSteps: rs.MaxSteps, MaxAlloc: rs.MaxAlloc, SolverMs: rs.SolverMs, Params: params,
				WitnessEvery: rs.WitnessEvery, Seed: seed, Solver: solverKindOf(rs.Solver)}
			if rs.Workers > 0 {
				cfg.Workers = rs.Workers
			}
			if cfg.SolverMs == 0 {
				cfg.SolverMs = 10000
				if *tier == "thorough" {
					cfg.SolverMs = 60000
				}
			}
			if cfg.WitnessEvery == 0 {
				cfg.WitnessEvery = 97
			}
			tl := rs.TimeQ
			cfg.MaxPaths = rs.MaxPathsQ
			if tl == 0 {
				tl = 75 // default wall-clock budget of one quick run; exceeding it is reported as truncated (inconclusive)
			}
			if *tier == "thorough" {
				tl = rs.TimeT
				cfg.MaxPaths = rs.MaxPathsT
				if tl == 0 {
					tl = 1200
				}
			}
			if mult, _ := strconv.Atoi(os.Getenv("VERIF_TIME_MULT")); mult > 1 {
				tl *= mult // several checks sharing the machine (the seed matrix): stretch the wall-clock budgets
			}
			if tl > 0 {
				cfg.Deadline = time.Now().Add(time.Duration(tl) * time.Second)
			}
			ex, err := NewExplorer(eng, cfg)
			if err != nil {
				fmt.Printf("INCONCLUSIVE property=%s obligation=%s reason=%q\n", *prop, rs.Fn, err.Error())
				reports = append(reports, &runReport{spec: rs, params: params, sum: &Summary{Inconclusive: []Inconclusive{{ID: rs.Fn, Reason: err.Error()}}}})
				continue
			}
			t1 := time.Now()
			ex.Run()
			rep := &runReport{spec: rs, params: params, sum: &ex.Results, stopWhy: ex.stopWhy, wall: time.Since(t1).Seconds()}
			for _, id := range rs.Reach {
				if ex.Results.Reached[id] == 0 {
					rep.vacuous = append(rep.vacuous, id)
				}
			}
			reports = append(reports, rep)
			if *verbose {
				printSummary(ex, time.Since(t1), true)
			}
		}
	}

	// ---- replay counterexamples (deduplicated per class) and sampled witnesses ----
	type vioKey struct{ id, class, kind string }
	type vioGroup struct {
		first  Violation
		count  int
		params map[string]int64
		spec   RunSpec
		result string // confirmed | unconfirmed | not-replayed
		replay *ReplayResult
		dir    string
	}
	groups := map[vioKey]*vioGroup{}
	var order []vioKey
	for _, rep := range reports {
		for _, v := range rep.sum.Violations {
			k := vioKey{v.ID, v.Class, v.Kind}
			g := groups[k]
			if g == nil {
				g = &vioGroup{first: v, params: rep.params, spec: rep.spec}
				groups[k] = g
				order = append(order, k)
			} else if (g.first.UF && !v.UF) || (g.first.UF == v.UF && g.first.ND > 0 && v.ND == 0) {
				// prefer a representative whose model is realisable natively (no uninterpreted stand-ins, no schedule choices)
				g.first, g.params, g.spec = v, rep.params, rep.spec
			}
			g.count++
		}
	}
	var cases = map[string][]ReplayCase{} // per package sub
	caseGroup := map[string]*vioGroup{}
	type witCase struct {
		rep *runReport
		w   Witness
	}
	witCases := map[string]witCase{}
	pkgOf := func(fn string) string {
		if strings.HasPrefix(fn, "wsjson.") {
			return "wsjson"
		}
		return ""
	}
	for i, k := range order {
		g := groups[k]
		name := fmt.Sprintf("vio%d", i)
		rc := ReplayCase{Name: name, Fn: g.first.Harness, Vals: modelToVals(g.first.Model), Strs: strModelToVals(g.first.StrModel), Params: g.params, Repeat: 1, WantID: g.first.ID, Timeout: g.spec.ReplayTO}
		if len(g.first.Choices) > 0 && g.spec.Repeat > 0 {
			rc.Repeat = g.spec.Repeat
		}
		if k.kind != "assert" {
			rc.WantID = "\x00none"
		}
		if k.kind == "race" {
			// the native run is made under the Go race detector; a few repetitions in case the path depends on select
			rc.Race = true
			if rc.Repeat < 3 {
				rc.Repeat = 3
			}
		}
		cases[pkgOf(g.first.Harness)] = append(cases[pkgOf(g.first.Harness)], rc)
		caseGroup[name] = g
	}
	nw := 0
	for _, rep := range reports {
		for j, w := range rep.sum.Witnesses {
			if j >= 6 {
				break
			}
			name := fmt.Sprintf("wit%d", nw)
			nw++
			rc := ReplayCase{Name: name, Fn: rep.spec.Fn, Vals: modelToVals(w.Model), Strs: strModelToVals(w.StrModel), Params: rep.params, Repeat: 1, WantID: "\x00none", Timeout: rep.spec.ReplayTO}
			cases[pkgOf(rep.spec.Fn)] = append(cases[pkgOf(rep.spec.Fn)], rc)
			witCases[name] = witCase{rep, w}
		}
	}
	replayOut := map[string]*ReplayResult{}
	replayErr := ""
	replayDirBase := filepath.Join(*verifDir, "replays")
	if d := os.Getenv("VERIF_EVIDENCE_DIR"); d != "" {
		replayDirBase = filepath.Join(d, "replays")
	}
	if !*noReplay {
		for sub, cs := range cases {
			keep := ""
			hasVio := false
			for _, c := range cs {
				if strings.HasPrefix(c.Name, "vio") {
					hasVio = true
				}
			}
			if hasVio {
				h := sha1.Sum([]byte(fmt.Sprintf("%s-%s-%d", *prop, sub, time.Now().UnixNano())))
				keep = filepath.Join(replayDirBase, fmt.Sprintf("%s-%x", *prop, h[:4]))
			}
			res, raw, err := RunReplays(*repo, harnessDir, sub, cs, keep, eng.Excluded)
			if err != nil {
				replayErr = err.Error() + "\n" + tail(raw, 2000)
			}
			for n, r := range res {
				replayOut[n] = r
				if g := caseGroup[n]; g != nil {
					g.dir = keep
				}
			}
		}
	}
	// judge violations
	confirmed, unconfirmed, ghostOnly := 0, 0, 0
	for name, g := range caseGroup {
		r := replayOut[name]
		g.replay = r
		switch {
		case r == nil && g.first.Kind != "ghost":
			g.result = "not-replayed"
		case g.first.Kind == "ghost":
			g.result = "confirmed" // ghost obligations (pool discipline, allocation sizes) are decided by the engine's monitors alone
			ghostOnly++
		case g.first.Kind == "assert" && contains(r.Failures, g.first.ID):
			g.result = "confirmed"
		case g.first.Kind == "assert" && r.Panic != "" && r.Panic != "assume":
			g.result = "confirmed" // the native run of the counterexample panicked inside the real code
		case g.first.Kind == "panic" && r.Panic != "" && r.Panic != "assume":
			g.result = "confirmed"
		case g.first.Kind == "hang" && r.Hang:
			g.result = "confirmed"
		case g.first.Kind == "race" && r.Race:
			g.result = "confirmed" // the Go race detector reports a data race on the native run of this case
		default:
			g.result = "unconfirmed"
		}
		if g.result == "confirmed" {
			confirmed++
		} else {
			unconfirmed++
		}
	}
	// judge witnesses (translator validation)
	witOK, witBad, witMissing, witNondet, witStub := 0, 0, 0, 0, 0
	var witDiffs []string
	badHarness := map[string]bool{}
	for name, wc := range witCases {
		r := replayOut[name]
		if r == nil {
			witMissing++
			continue
		}
		same := len(r.Failures) == 0 && !r.Hang && (r.Panic == "") && !r.Short && equalStrings(r.Observed, wc.w.Observed)
		if same {
			witOK++
		} else if wc.w.UFDependent {
			witStub++ // the model interprets uninterpreted stand-ins (base64, sha1, url.Parse, filepath.Match) freely; the real functions may differ
		} else if wc.w.NDChoices > 0 {
			witNondet++ // the path depends on select/scheduler choices the native run is free to make differently
		} else {
			witBad++
			badHarness[wc.rep.spec.Fn] = true
			witDiffs = append(witDiffs, fmt.Sprintf("%s: engine=%v native=%v failures=%v panic=%q hang=%v short=%v", wc.rep.spec.Fn, wc.w.Observed, r.Observed, r.Failures, r.Panic, r.Hang, r.Short))
		}
	}

	// ---- classify against known findings, print verdict lines ----
	exit := 0
	var knownHit []string
	var inconcl []string
	matchKnown := func(key string) *KnownFinding {
		for i := range known {
			if known[i].Property == *prop && known[i].Status == "open" && known[i].Key == key {
				return &known[i]
			}
		}
		return nil
	}
	sort.Slice(order, func(i, j int) bool {
		if order[i].id != order[j].id {
			return order[i].id < order[j].id
		}
		return order[i].class < order[j].class
	})
	nViolations := 0
	for _, k := range order {
		g := groups[k]
		key := strings.TrimSpace(k.id + " " + k.class)
		switch g.result {
		case "confirmed":
			if kf := matchKnown(key); kf != nil {
				fmt.Printf("KNOWN-FINDING: property=%s %s [%s]\n", *prop, kf.What, key)
				knownHit = append(knownHit, key)
			} else {
				nViolations++
				fmt.Printf("VIOLATION property=%s replay=%s\n", *prop, g.dir)
				fmt.Printf("  obligation=%s class=[%s] kind=%s where=%s %s\n", k.id, k.class, k.kind, g.first.Where, g.first.Msg)
				if k.kind == "ghost" {
					fmt.Printf("  (decided on the engine's ghost state - pool ownership / allocation monitor; no native observation exists for it)\n")
				}
				mj, _ := json.Marshal(modelToVals(g.first.Model))
				fmt.Printf("  input=%s params=%s\n", truncate(string(mj), 1500), paramString(g.params))
				if len(g.first.StrModel) > 0 {
					sj, _ := json.Marshal(strModelToVals(g.first.StrModel))
					fmt.Printf("  strings=%s\n", truncate(string(sj), 1500))
				}
				if g.dir != "" {
					writeReplayReadme(g.dir, *prop, key, g, *repo, harnessDir)
				}
				exit = 1
			}
		default:
			reason := "counterexample did not reproduce natively (encoding or stub suspected)"
			if g.result == "not-replayed" {
				reason = "counterexample could not be replayed: " + truncate(replayErr, 300)
			}
			fmt.Printf("INCONCLUSIVE property=%s obligation=%s class=[%s] reason=%q\n", *prop, k.id, k.class, reason)
			inconcl = append(inconcl, key+": "+reason)
		}
	}
	totalIncon := 0
	for _, rep := range reports {
		seen := map[string]int{}
		for _, inc := range rep.sum.Inconclusive {
			seen[inc.ID+": "+inc.Reason]++
		}
		for k, n := range seen {
			fmt.Printf("INCONCLUSIVE property=%s obligation=%s reason=%q count=%d\n", *prop, rep.spec.Fn, truncate(k, 300), n)
			inconcl = append(inconcl, k)
			totalIncon += n
		}
		for k, n := range rep.sum.EndMsgs {
			fmt.Printf("INCONCLUSIVE property=%s obligation=%s reason=%q count=%d\n", *prop, rep.spec.Fn, truncate(k, 400), n)
			inconcl = append(inconcl, rep.spec.Fn+": "+truncate(k, 300))
			totalIncon += n
		}
		if rep.stopWhy != "" {
			fmt.Printf("INCONCLUSIVE property=%s obligation=%s reason=%q\n", *prop, rep.spec.Fn, "exploration truncated: "+rep.stopWhy)
			inconcl = append(inconcl, rep.spec.Fn+": truncated: "+rep.stopWhy)
			totalIncon++
		}
		for _, id := range rep.vacuous {
			fmt.Printf("INCONCLUSIVE property=%s obligation=%s reason=%q\n", *prop, rep.spec.Fn, "vacuity: witness "+id+" not reached")
			inconcl = append(inconcl, rep.spec.Fn+": vacuous: "+id)
			totalIncon++
		}
	}
	if witStub > 0 {
		fmt.Printf("note: %d sampled witnesses lie on paths that depend on uninterpreted stand-ins for stdlib functions; their models are not realisable natively and were not compared\n", witStub)
	}
	if witNondet > 0 {
		fmt.Printf("note: %d sampled witnesses lie on paths with select/scheduler choices and took a different (legitimate) course natively; not counted\n", witNondet)
	}
	if witMissing > 0 {
		fmt.Printf("note: %d sampled witnesses were not replayed (no result from the native run)\n", witMissing)
	}
	if replayErr != "" {
		fmt.Printf("INCONCLUSIVE property=%s reason=%q\n", *prop, "native replay failed: "+truncate(replayErr, 1500))
		inconcl = append(inconcl, "native replay failed: "+truncate(replayErr, 300))
	}
	for _, d := range witDiffs {
		fmt.Printf("INCONCLUSIVE property=%s reason=%q\n", *prop, "translator validation disagreement: "+truncate(d, 600))
		inconcl = append(inconcl, "translator: "+truncate(d, 300))
	}

	// ---- evidence ----
	ev := buildEvidence(*prop, *tier, seed, spec, reports, eng, loadS, time.Since(t0).Seconds(), witOK, witBad, confirmed, unconfirmed, nViolations, knownHit, inconcl, ghostOnly)
	ev["coverage"].(map[string]interface{})["rewriter_selftest_evaluations"] = stN
	ev["coverage"].(map[string]interface{})["witnesses_skipped_nondeterministic"] = witNondet
	ev["coverage"].(map[string]interface{})["witnesses_skipped_uninterpreted"] = witStub
	eb, _ := json.MarshalIndent(ev, "", " ")
	os.WriteFile(evPath, eb, 0o644)

	st := ev["coverage"].(map[string]interface{})
	fmt.Printf("property=%s tier=%s paths=%v obligations=%v discharged=%v (solver %v, simplifier %v) violations=%d known=%d inconclusive=%d witnesses_ok=%d wall=%.1fs\n",
		*prop, *tier, st["states"], st["obligations"], st["discharged"], st["discharged_by_solver"], st["discharged_by_simplifier"], nViolations, len(knownHit), len(inconcl), witOK, time.Since(t0).Seconds())
	os.Exit(exit)
}

func flagSet(fs *flag.FlagSet, name string) bool {
	set := false
	fs.Visit(func(f *flag.Flag) {
		if f.Name == name {
			set = true
		}
	})
	return set
}

func contains(l []string, s string) bool {
	for _, x := range l {
		if x == s {
			return true
		}
	}
	return false
}

func equalStrings(a, b []string) bool {
	if len(a) != len(b) {
		return false
	}
	for i := range a {
		if a[i] != b[i] {
			return false
		}
	}
	return true
}

func truncate(s string, n int) string {
	if len(s) > n {
		return s[:n] + "…"
	}
	return s
}

func tail(s string, n int) string {
	if len(s) > n {
		return s[len(s)-n:]
	}
	return s
}

func writeReplayReadme(dir, prop, key string, g interface{}, repo, harnessDir string) {
	txt := fmt.Sprintf("Counterexample for %s [%s]\n\nReplay: the generated test zz_verif_replay_test.go in this directory is run in the package directory of %s with\n"+
		"  go test -vet=off -count=1 -overlay <overlay mapping %s/*/*.go to zz_verif_*.go and this test file> -run '^TestVerifReplay$' .\n"+
		"(`/verif/check --replay %s` regenerates the overlay and runs it.)\nSee replay_output.txt for the native run that confirmed it.\n", prop, key, repo, harnessDir, dir)
	os.WriteFile(filepath.Join(dir, "README.txt"), []byte(txt), 0o644)
}

func writeInconclusiveEvidence(path, prop, tier string, seed int64, spec PropSpec, why string, wall float64) {
	ev := map[string]interface{}{
		"property_id": prop, "tier": tier, "seed": seed, "level": "other",
		"coverage": map[string]interface{}{
			"explanation": "No obligation could be decided in this run: " + why,
		},
		"assumptions": spec.Assumptions, "wall_s": wall, "violations": 0,
	}
	b, _ := json.MarshalIndent(ev, "", " ")
	os.WriteFile(path, b, 0o644)
}

func buildEvidence(prop, tier string, seed int64, spec PropSpec, reports []*runReport, eng *Engine, loadS, wall float64,
	witOK, witBad, confirmed, unconfirmed, nViolations int, knownHit, inconcl []string, ghostOnly int) map[string]interface{} {
	states, transitions := 0, int64(0)
	obligations, discharged, conc := 0, 0, 0
	queries, sat, unsat, unknown, serr := 0, 0, 0, 0, 0
	solverTime := 0.0
	funcs := map[string]int64{}
	forks := map[string]int{}
	stubs := map[string]int{}
	reach := map[string]int{}
	var bounds []string
	var samples []interface{}
	var runs []interface{}
	for _, rep := range reports {
		s := rep.sum
		states += s.Paths
		transitions += s.Decisions + int64(s.Paths)
		obligations += s.Asserts
		discharged += s.Discharged
		conc += s.AssertsConc
		queries += s.Queries
		sat += s.Sat
		unsat += s.Unsat
		unknown += s.Unknown
		serr += s.SolverErrors
		solverTime += s.SolverTime.Seconds()
		for f, n := range s.Funcs {
			funcs[f.String()] += n
		}
		for k, n := range s.ForkSites {
			forks[k] += n
		}
		for k, n := range s.Stubs {
			stubs[k] += n
		}
		for k, n := range s.Reached {
			reach[k] += n
		}
		bounds = append(bounds, rep.spec.Fn+"{"+paramString(rep.params)+"}")
		ws := append([]Witness{}, s.Witnesses...)
		sort.SliceStable(ws, func(i, j int) bool { return witnessWeight(ws[i]) > witnessWeight(ws[j]) })
		for i, w := range ws {
			if i >= 2 || len(samples) >= 14 {
				break
			}
			samples = append(samples, map[string]interface{}{"harness": rep.spec.Fn, "params": paramString(rep.params), "inputs": modelToVals(w.Model), "string_inputs": strModelToVals(w.StrModel), "observed": w.Observed, "reached": w.Reached})
		}
		runs = append(runs, map[string]interface{}{"harness": rep.spec.Fn, "obligation": rep.spec.Obligation, "params": paramString(rep.params), "paths": s.Paths, "ends": s.Ends,
			"asserts": s.Asserts, "discharged": s.Discharged, "violating_paths": len(s.Violations), "max_decision_depth": s.MaxDepth, "steps": s.Steps,
			"wall_s": rep.wall, "truncated": rep.stopWhy, "vacuous_witnesses": rep.vacuous})
	}
	if len(samples) == 0 {
		samples = append(samples, map[string]interface{}{"note": "no witness sampled in this run"})
	}
	type fe struct {
		Name  string `json:"function"`
		Calls int64  `json:"calls"`
	}
	var fl []fe
	for k, n := range funcs {
		fl = append(fl, fe{k, n})
	}
	sort.Slice(fl, func(i, j int) bool { return fl[i].Name < fl[j].Name })
	var flNames []string
	libFuncs := 0
	for _, f := range fl {
		if strings.Contains(f.Name, "nhooyr.io/websocket") && !strings.Contains(f.Name, "verif") && !strings.Contains(f.Name, ".v") {
			libFuncs++
		}
		flNames = append(flNames, fmt.Sprintf("%s ×%d", f.Name, f.Calls))
	}
	type kv struct {
		K string `json:"site"`
		N int    `json:"forks"`
	}
	var topForks []kv
	for k, n := range forks {
		topForks = append(topForks, kv{k, n})
	}
	sort.Slice(topForks, func(i, j int) bool { return topForks[i].N > topForks[j].N })
	if len(topForks) > 10 {
		topForks = topForks[:10]
	}
	var stubList []string
	for k, n := range stubs {
		stubList = append(stubList, fmt.Sprintf("%s ×%d", k, n))
	}
	sort.Strings(stubList)
	cov := map[string]interface{}{
		"states":                        states,
		"transitions":                   transitions,
		"traces_validated_against_impl": witOK,
		"samples":                       samples,
		"obligations":                   obligations,
		"discharged":                    discharged,
		"discharged_by_simplifier":      conc,
		"discharged_by_solver":          discharged - conc,
		"explanation": "Bounded symbolic execution of the real SSA of the listed functions; states = completed paths, transitions = decisions (solver-resolved branches, value picks, select/scheduler choices); " +
			"an obligation is an assert() reached on a path; it is discharged when path-condition ∧ ¬cond is unsat (solver) or cond folds to true under the engine's term rewriting (simplifier); " +
			"bounds are the harness parameters listed in `bounds`; what lies outside them is outside the claim.",
		"checker_cmd":                        fmt.Sprintf("/verif/check %s %s", prop, tier),
		"trusted_base":                       []string{"go/ssa (x/tools v0.29.0) as the semantics of the source", "symgo interpreter, term rewriting and intrinsics (validated per run by native witness replays)", "z3 4.8.12"},
		"functions_encoded":                  flNames,
		"library_functions":                  libFuncs,
		"bounds":                             bounds,
		"runs":                               runs,
		"queries":                            map[string]int{"total": queries, "sat": sat, "unsat": unsat, "unknown": unknown, "errors": serr},
		"solver_time_s":                      solverTime,
		"load_s":                             loadS,
		"stubs":                              stubList,
		"reach_witnesses":                    reach,
		"top_fork_sites":                     topForks,
		"inconclusive":                       inconcl,
		"witness_disagreements":              witBad,
		"counterexamples_confirmed_natively": confirmed,
		"counterexamples_unconfirmed":        unconfirmed,
		"counterexamples_ghost_only":         ghostOnly,
		"known_findings_hit":                 knownHit,
		"outside_the_claim":                  spec.Outside,
		"exhaustive":                         false,
	}
	level := spec.Level
	if level == "" {
		level = "model_checking"
	}
	if states == 0 {
		level = "other"
	}
	return map[string]interface{}{
		"property_id": prop, "tier": tier, "seed": seed, "level": level, "coverage": cov,
		"assumptions": spec.Assumptions, "wall_s": wall, "violations": nViolations,
	}
}

// witnessWeight prefers witnesses that exercise more of the harness (more inputs set to non-zero values, more reached points).
func witnessWeight(w Witness) int {
	n := len(w.Reached) * 3
	for _, v := range w.Model {
		if v != 0 {
			n++
		}
	}
	for _, v := range w.StrModel {
		if v != "" {
			n += 2
		}
	}
	return n
}
