package main

// The SSA interpreter proper: frames, instructions, calls, defers, panics.

import (
	"fmt"
	"go/constant"
	"go/token"
	"go/types"
	"strings"

	"golang.org/x/tools/go/ssa"
)

type deferred struct {
	fn   Value
	args []Value
	pos  token.Pos
	tail *deferred
}

type Frame struct {
	m         *Machine
	g         *G
	caller    *Frame
	fn        *ssa.Function
	info      *fnInfo
	env       []Value
	block     *ssa.BasicBlock
	prevBlock *ssa.BasicBlock
	defers    *deferred
	result    Value
	panicking bool
	panicVal  interface{}
	phitemps  []Value
	curInstr  ssa.Instruction
	depth     int
}

// targetPanic is a Go-level panic of the interpreted program.
type targetPanic struct {
	v       Value
	runtime string // non-empty for run-time errors raised by the interpreter on behalf of the program
	where   string
}

// pathAbort unwinds everything: the path is over.
type pathAbort struct {
	kind string // "done", "infeasible", "budget", "unsupported", "hang", "assume"
	msg  string
}

func (m *Machine) unsupported(format string, args ...interface{}) {
	panic(pathAbort{"unsupported", fmt.Sprintf(format, args...)})
}

func (fr *Frame) where() string {
	if fr == nil || fr.fn == nil {
		return "?"
	}
	pos := token.NoPos
	if fr.curInstr != nil {
		pos = fr.curInstr.Pos()
	}
	if pos == token.NoPos {
		return fr.fn.String()
	}
	p := fr.fn.Prog.Fset.Position(pos)
	return fmt.Sprintf("%s (%s:%d)", fr.fn.String(), shortFile(p.Filename), p.Line)
}

func shortFile(f string) string {
	if i := strings.LastIndex(f, "/"); i >= 0 {
		return f[i+1:]
	}
	return f
}

func (fr *Frame) stack() string {
	var sb strings.Builder
	for f := fr; f != nil; f = f.caller {
		sb.WriteString("    " + f.where() + "\n")
	}
	return sb.String()
}

func (m *Machine) runtimePanic(fr *Frame, msg string) {
	w := fr.where()
	if fr != nil {
		n := 0
		for f := fr.caller; f != nil && n < 6; f = f.caller {
			w += " <- " + f.where()
			n++
		}
	}
	panic(targetPanic{runtime: msg, where: w})
}

func (fr *Frame) get(key ssa.Value) Value {
	switch key := key.(type) {
	case nil:
		return nil
	case *ssa.Function:
		return key
	case *ssa.Builtin:
		return key
	case *ssa.Const:
		return fr.m.constValue(key)
	case *ssa.Global:
		return fr.m.globalAddr(fr, key)
	}
	if i, ok := fr.info.index[key]; ok {
		v := fr.env[i]
		if v == nil {
			panic(fmt.Sprintf("get: unset value %s in %s", key.Name(), fr.fn))
		}
		return v
	}
	panic(fmt.Sprintf("get: no value for %T %v in %s", key, key.Name(), fr.fn))
}

func (fr *Frame) set(key ssa.Value, v Value) {
	fr.env[fr.info.index[key]] = v
}

func (m *Machine) constValue(c *ssa.Const) Value {
	if v, ok := m.constCache[c]; ok {
		return v
	}
	v := m.constValue0(c)
	m.constCache[c] = v
	return v
}

func (m *Machine) constValue0(c *ssa.Const) Value {
	if c.Value == nil {
		return m.zero(c.Type())
	}
	t := c.Type()
	if tp, ok := t.(*types.TypeParam); ok {
		_ = tp
		m.unsupported("constant of type parameter type")
	}
	if w, signed, ok := intWidth(t); ok {
		if w == 0 {
			return m.tf.Bool(constant.BoolVal(c.Value))
		}
		if signed {
			return m.tf.Const(w, uint64(c.Int64()))
		}
		return m.tf.Const(w, c.Uint64())
	}
	if isString(t) {
		if c.Value.Kind() == constant.String {
			return constant.StringVal(c.Value)
		}
		return string(rune(c.Int64()))
	}
	if isFloat(t) {
		return c.Float64()
	}
	if b, ok := under(t).(*types.Basic); ok && b.Info()&types.IsComplex != 0 {
		return c.Complex128()
	}
	panic(fmt.Sprintf("constValue: unexpected constant %v of type %v", c, t))
}

// ---------- calls ----------

func (m *Machine) prepareCall(fr *Frame, call *ssa.CallCommon) (fn Value, args []Value) {
	v := fr.get(call.Value)
	if call.Method == nil {
		fn = v
	} else {
		recv, ok := v.(IfaceV)
		if !ok {
			panic(fmt.Sprintf("invoke on non-interface %T at %s", v, fr.where()))
		}
		if recv.T == nil {
			m.runtimePanic(fr, "invalid memory address or nil pointer dereference (method call on nil interface)")
		}
		f := m.eng.LookupMethod(recv.T, call.Method)
		if f == nil {
			panic(fmt.Sprintf("method set for dynamic type %v does not contain %s", recv.T, call.Method))
		}
		fn = f
		args = append(args, recv.V)
	}
	for _, a := range call.Args {
		args = append(args, fr.get(a))
	}
	return
}

func (m *Machine) call(caller *Frame, pos token.Pos, fn Value, args []Value) Value {
	switch fn := fn.(type) {
	case *ssa.Function:
		if fn == nil {
			m.runtimePanic(caller, "call of nil function")
		}
		return m.callSSA(caller, pos, fn, args, nil)
	case *ClosureV:
		return m.callSSA(caller, pos, fn.Fn, args, fn.Env)
	case *ssa.Builtin:
		return m.callBuiltin(caller, pos, fn, args)
	case *BoundIntrinsic:
		return fn.Fn(m, caller, args)
	}
	panic(fmt.Sprintf("cannot call %T at %s", fn, caller.where()))
}

const maxCallDepth = 400

func (m *Machine) callSSA(caller *Frame, pos token.Pos, fn *ssa.Function, args []Value, env []Value) Value {
	if fn.Synthetic == "package initializer" {
		if initWhitelist[fn.Pkg.Pkg.Path()] {
			if !m.initDone[fn.Pkg] {
				m.initDone[fn.Pkg] = true
			} else {
				return nil
			}
		} else {
			return nil
		}
	}
	if in := m.lookupIntrinsic(fn); in != nil {
		if r := in(m, caller, fn, args); r != notHandled {
			return r
		}
	}
	if m.pool.monitor && fn.Signature.Recv() != nil && len(args) > 0 {
		m.checkPooledReceiver(caller, fn, args[0])
	}
	if fn.Blocks == nil {
		if af := m.eng.AsmFuncs[fnKey(fn)]; af != nil {
			return m.callAsm(caller, fn, af, args)
		}
		m.unsupported("no body for function %s (called from %s)", fn.String(), caller.where())
	}
	if fn.TypeParams().Len() > 0 && len(fn.TypeArgs()) == 0 {
		m.unsupported("uninstantiated generic function %s", fn)
	}
	g := m.cur
	depth := 1
	if caller != nil {
		depth = caller.depth + 1
	}
	if depth > maxCallDepth {
		panic(pathAbort{"budget", "call depth exceeded in " + fn.String()})
	}
	m.noteFunc(fn)
	fi := m.fnInfo(fn)
	fr := &Frame{m: m, g: g, caller: caller, fn: fn, info: fi, env: make([]Value, fi.n), depth: depth}
	fr.block = fn.Blocks[0]
	for _, l := range fn.Locals {
		cell := new(Value)
		*cell = m.zero(derefType(l.Type()))
		fr.env[fi.index[l]] = cell
	}
	for i, p := range fn.Params {
		fr.env[fi.index[p]] = args[i]
	}
	for i, fv := range fn.FreeVars {
		fr.env[fi.index[fv]] = env[i]
	}
	prevTop := g.top
	g.top = fr
	for fr.block != nil {
		m.runFrame(fr)
	}
	g.top = prevTop
	return fr.result
}

func fnKey(fn *ssa.Function) string {
	if fn.Pkg != nil {
		return fn.Pkg.Pkg.Path() + "." + fn.Name()
	}
	return fn.String()
}

func (m *Machine) fnInfo(fn *ssa.Function) *fnInfo {
	if fi, ok := m.fnInfoCache[fn]; ok {
		return fi
	}
	fi := m.eng.info(fn)
	m.fnInfoCache[fn] = fi
	return fi
}

func (m *Machine) runFrame(fr *Frame) {
	defer func() {
		if fr.block == nil {
			return // normal return
		}
		r := recover()
		if pa, ok := r.(pathAbort); ok {
			panic(pa) // never run target defers while tearing the path down
		}
		if _, ok := r.(targetPanic); !ok {
			// interpreter bug or unexpected host panic: annotate and convert to unsupported
			panic(pathAbort{"engine-panic", fmt.Sprintf("%v at %s\n%s", r, fr.where(), fr.stack())})
		}
		fr.panicking = true
		fr.panicVal = r
		fr.g.top = fr
		fr.runDefers()
		// recovered
		fr.block = fr.fn.Recover
		if fr.block == nil {
			// function without named results: returns zero values
			fr.result = m.zero(fr.fn.Signature.Results())
			if fr.fn.Signature.Results().Len() == 0 {
				fr.result = nil
			}
		}
	}()
	for {
		nonPhis := m.executePhis(fr)
		for _, instr := range nonPhis {
			m.steps++
			if m.steps > m.maxSteps {
				panic(pathAbort{"budget", fmt.Sprintf("instruction budget %d exceeded at %s", m.maxSteps, fr.where())})
			}
			fr.curInstr = instr
			if m.trace {
				m.traceInstr(fr, instr)
			}
			if m.visitInstr(fr, instr) == kReturn {
				return
			}
		}
	}
}

func (m *Machine) executePhis(fr *Frame) []ssa.Instruction {
	firstNonPhi := -1
	for i, instr := range fr.block.Instrs {
		if _, ok := instr.(*ssa.Phi); !ok {
			firstNonPhi = i
			break
		}
	}
	nonPhis := fr.block.Instrs[firstNonPhi:]
	if firstNonPhi > 0 {
		phis := fr.block.Instrs[:firstNonPhi]
		predIndex := -1
		for i, p := range fr.block.Preds {
			if p == fr.prevBlock {
				predIndex = i
				break
			}
		}
		fr.phitemps = fr.phitemps[:0]
		for _, phi := range phis {
			fr.phitemps = append(fr.phitemps, fr.get(phi.(*ssa.Phi).Edges[predIndex]))
		}
		for i, phi := range phis {
			fr.set(phi.(*ssa.Phi), fr.phitemps[i])
		}
	}
	return nonPhis
}

func (fr *Frame) runDefer(d *deferred) {
	var ok bool
	defer func() {
		if !ok {
			r := recover()
			if pa, isAbort := r.(pathAbort); isAbort {
				panic(pa)
			}
			fr.panicking = true
			fr.panicVal = r
		}
	}()
	fr.m.call(fr, d.pos, d.fn, d.args)
	ok = true
}

func (fr *Frame) runDefers() {
	for d := fr.defers; d != nil; d = d.tail {
		fr.runDefer(d)
	}
	fr.defers = nil
	if fr.panicking {
		panic(fr.panicVal)
	}
}

func (m *Machine) doRecover(caller *Frame) Value {
	// recover() must be called directly by a deferred function of the panicking frame.
	if caller != nil && !caller.panicking && caller.caller != nil && caller.caller.panicking {
		caller.caller.panicking = false
		p := caller.caller.panicVal
		caller.caller.panicVal = nil
		switch p := p.(type) {
		case targetPanic:
			if p.runtime != "" {
				return m.runtimeErrorValue(p.runtime)
			}
			return p.v
		default:
			panic(fmt.Sprintf("unexpected panic value %T in recover", p))
		}
	}
	return IfaceV{}
}

func (m *Machine) runtimeErrorValue(msg string) Value {
	return IfaceV{T: types.Typ[types.String], V: "runtime error: " + msg}
}

type continuation int

const (
	kNext continuation = iota
	kReturn
	kJump
)

func (m *Machine) visitInstr(fr *Frame, instr ssa.Instruction) continuation {
	switch instr := instr.(type) {
	case *ssa.DebugRef:

	case *ssa.UnOp:
		fr.set(instr, m.unop(fr, instr, fr.get(instr.X)))

	case *ssa.BinOp:
		fr.set(instr, m.binop(fr, instr.Op, instr.X.Type(), instr.Y.Type(), fr.get(instr.X), fr.get(instr.Y)))

	case *ssa.Call:
		fn, args := m.prepareCall(fr, &instr.Call)
		r := m.call(fr, instr.Pos(), fn, args)
		if r == nil {
			r = TupleV(nil)
		}
		fr.set(instr, r)

	case *ssa.ChangeInterface:
		fr.set(instr, fr.get(instr.X))

	case *ssa.ChangeType:
		fr.set(instr, fr.get(instr.X))

	case *ssa.Convert:
		fr.set(instr, m.conv(fr, instr.Type(), instr.X.Type(), fr.get(instr.X)))

	case *ssa.MultiConvert:
		m.unsupported("MultiConvert")

	case *ssa.SliceToArrayPointer:
		x := fr.get(instr.X).([]Value)
		n := int(under(derefType(instr.Type())).(*types.Array).Len())
		if len(x) < n {
			m.runtimePanic(fr, "cannot convert slice to array pointer: slice too short")
		}
		if x == nil {
			fr.set(instr, (*Value)(nil))
		} else {
			cell := new(Value)
			*cell = ArrayV(x[:n:n]) // shares the backing store
			fr.set(instr, cell)
		}

	case *ssa.MakeInterface:
		fr.set(instr, IfaceV{T: instr.X.Type(), V: fr.get(instr.X)})

	case *ssa.Extract:
		fr.set(instr, fr.get(instr.Tuple).(TupleV)[instr.Index])

	case *ssa.Slice:
		fr.set(instr, m.slice(fr, instr, fr.get(instr.X), fr.get(instr.Low), fr.get(instr.High), fr.get(instr.Max)))

	case *ssa.Return:
		switch len(instr.Results) {
		case 0:
		case 1:
			fr.result = fr.get(instr.Results[0])
		default:
			res := make(TupleV, len(instr.Results))
			for i, r := range instr.Results {
				res[i] = fr.get(r)
			}
			fr.result = res
		}
		fr.block = nil
		return kReturn

	case *ssa.RunDefers:
		fr.runDefers()

	case *ssa.Panic:
		panic(targetPanic{v: fr.get(instr.X), where: fr.where()})

	case *ssa.Send:
		m.chanSend(fr, fr.get(instr.Chan).(*ChanV), fr.get(instr.X))

	case *ssa.Store:
		if se, ok := fr.get(instr.Addr).(*SymElem); ok {
			// a store through a symbolically indexed element: fall back to forking over the index
			i := m.concretize(fr, se.idx, "store index")
			store(&se.elems[i], fr.get(instr.Val))
			break
		}
		addr := fr.get(instr.Addr).(*Value)
		if addr == nil {
			m.runtimePanic(fr, "invalid memory address or nil pointer dereference (store)")
		}
		m.checkAccess(fr, addr, true)
		store(addr, fr.get(instr.Val))

	case *ssa.If:
		succ := 1
		if m.Decide(fr, fr.get(instr.Cond).(*Term)) {
			succ = 0
		}
		fr.prevBlock, fr.block = fr.block, fr.block.Succs[succ]
		return kJump

	case *ssa.Jump:
		fr.prevBlock, fr.block = fr.block, fr.block.Succs[0]
		return kJump

	case *ssa.Defer:
		fn, args := m.prepareCall(fr, &instr.Call)
		if instr.DeferStack != nil {
			m.unsupported("defer with explicit DeferStack")
		}
		fr.defers = &deferred{fn: fn, args: args, pos: instr.Pos(), tail: fr.defers}

	case *ssa.Go:
		fn, args := m.prepareCall(fr, &instr.Call)
		m.spawn(fr, fn, args, fr.where())

	case *ssa.MakeChan:
		n := m.concreteInt(fr, fr.get(instr.Size).(*Term), "chan size")
		fr.set(instr, m.newChan(int(n), under(instr.Type()).(*types.Chan).Elem(), fr.where()))

	case *ssa.Alloc:
		var addr *Value
		if instr.Heap {
			addr = new(Value)
			fr.set(instr, addr)
			m.noteAlloc(fr, addr, 1)
		} else {
			addr = fr.get(instr).(*Value)
		}
		*addr = m.zero(derefType(instr.Type()))

	case *ssa.MakeSlice:
		lnT, cpT := fr.get(instr.Len).(*Term), fr.get(instr.Cap).(*Term)
		if (!lnT.IsConst() || !cpT.IsConst()) && !isHarnessFrame(fr) && m.initDepth == 0 {
			// an allocation whose size is a function of symbolic input (C08.alloc observes this)
			m.symbolicAllocs++
			m.res.Stubs["allocation size depends on symbolic input at "+fr.where()]++
			if m.allocGuardID != "" && !m.inPrefix() {
				// can the requested capacity exceed the guard? then that is the counterexample, reported at once
				big := m.tf.Slt(m.tf.Const(64, uint64(m.allocGuardBound)), m.tf.Resize(cpT, 64, true))
				m.flushPC()
				if v, model, smodel := m.solver.ModelWith(big, m.allInputs()); v == VSat {
					m.recordViolation(fr, m.allocGuardID, "assert", "allocation of a size chosen by the input at "+fr.where(), model, smodel)
				}
				m.Assume(fr, m.tf.Not(big))
			} else if m.allocGuardID != "" {
				big := m.tf.Slt(m.tf.Const(64, uint64(m.allocGuardBound)), m.tf.Resize(cpT, 64, true))
				m.addPC(m.tf.Not(big))
			}
		}
		ln := m.concreteInt(fr, lnT, "make len")
		cp := m.concreteInt(fr, cpT, "make cap")
		if ln < 0 || cp < ln {
			m.runtimePanic(fr, "makeslice: len/cap out of range")
		}
		if cp > int64(m.maxAlloc) {
			panic(pathAbort{"budget", fmt.Sprintf("make of %d elements exceeds allocation bound %d at %s", cp, m.maxAlloc, fr.where())})
		}
		tElt := under(instr.Type()).(*types.Slice).Elem()
		s := make([]Value, cp)
		z := m.zero(tElt)
		if isImmutableValue(z) {
			for i := range s {
				s[i] = z
			}
		} else {
			for i := range s {
				s[i] = m.zero(tElt)
			}
		}
		m.noteAllocSlice(fr, s, tElt)
		fr.set(instr, s[:ln])

	case *ssa.MakeMap:
		fr.set(instr, &MapV{kt: under(instr.Type()).(*types.Map).Key()})

	case *ssa.Range:
		fr.set(instr, m.rangeIter(fr, fr.get(instr.X), instr.X.Type()))

	case *ssa.Next:
		fr.set(instr, fr.get(instr.Iter).(iterV).next(m, fr))

	case *ssa.FieldAddr:
		p := fr.get(instr.X).(*Value)
		if p == nil {
			m.runtimePanic(fr, "invalid memory address or nil pointer dereference (field address)")
		}
		fr.set(instr, &(*p).(StructV)[instr.Field])

	case *ssa.Field:
		fr.set(instr, fr.get(instr.X).(StructV)[instr.Field])

	case *ssa.IndexAddr:
		x := fr.get(instr.X)
		idx := fr.get(instr.Index).(*Term)
		_, idxSigned, _ := intWidth(instr.Index.Type())
		switch x := x.(type) {
		case []Value:
			i := m.indexInBounds(fr, idx, idxSigned, len(x))
			fr.set(instr, &x[i])
		case *Value:
			if x == nil {
				m.runtimePanic(fr, "invalid memory address or nil pointer dereference (index address)")
			}
			a := (*x).(ArrayV)
			if !idx.IsConst() && len(a) <= 1024 && constScalarTable(a) {
				// a read-only lookup table indexed by a symbolic value: keep the index symbolic (an ite over the table is
				// built at the load) instead of forking over every feasible index
				i64 := m.tf.Resize(idx, 64, idxSigned)
				if !m.Decide(fr, m.tf.Ult(i64, m.tf.Const(64, uint64(len(a))))) {
					m.runtimePanic(fr, fmt.Sprintf("index out of range [symbolic] with length %d", len(a)))
				}
				fr.set(instr, &SymElem{elems: a, idx: i64})
				break
			}
			i := m.indexInBounds(fr, idx, idxSigned, len(a))
			fr.set(instr, &a[i])
		default:
			panic(fmt.Sprintf("unexpected x type in IndexAddr: %T", x))
		}

	case *ssa.Index:
		x := fr.get(instr.X)
		idx := fr.get(instr.Index).(*Term)
		_, idxSigned, _ := intWidth(instr.Index.Type())
		switch x := x.(type) {
		case ArrayV:
			i := m.indexInBounds(fr, idx, idxSigned, len(x))
			fr.set(instr, x[i])
		case string:
			i := m.indexInBounds(fr, idx, idxSigned, len(x))
			fr.set(instr, m.tf.Const(8, uint64(x[i])))
		case *SymStr:
			i := m.indexInBounds(fr, idx, idxSigned, len(x.B))
			fr.set(instr, x.B[i])
		default:
			m.unsupported("Index on %T at %s", x, fr.where())
		}

	case *ssa.Lookup:
		fr.set(instr, m.lookup(fr, instr, fr.get(instr.X), fr.get(instr.Index)))

	case *ssa.MapUpdate:
		mp := fr.get(instr.Map).(*MapV)
		if mp == nil {
			m.runtimePanic(fr, "assignment to entry in nil map")
		}
		m.mapUpdate(fr, mp, fr.get(instr.Key), fr.get(instr.Value))

	case *ssa.TypeAssert:
		fr.set(instr, m.typeAssert(fr, instr, fr.get(instr.X).(IfaceV)))

	case *ssa.MakeClosure:
		var bindings []Value
		for _, b := range instr.Bindings {
			bindings = append(bindings, fr.get(b))
		}
		fr.set(instr, &ClosureV{instr.Fn.(*ssa.Function), bindings})

	case *ssa.Select:
		fr.set(instr, m.doSelect(fr, instr))

	default:
		panic(fmt.Sprintf("unexpected instruction: %T", instr))
	}
	return kNext
}

// indexInBounds checks 0 <= idx < n (forking when symbolic) and returns a concrete index.
func (m *Machine) indexInBounds(fr *Frame, idx *Term, signed bool, n int) int {
	idx = m.tf.Resize(idx, 64, signed)
	if idx.IsConst() {
		i := int64(idx.Val)
		if i < 0 || i >= int64(n) {
			m.runtimePanic(fr, fmt.Sprintf("index out of range [%d] with length %d", i, n))
		}
		return int(i)
	}
	inb := m.tf.Ult(idx, m.tf.Const(64, uint64(n)))
	if !m.Decide(fr, inb) {
		m.runtimePanic(fr, fmt.Sprintf("index out of range [symbolic] with length %d", n))
	}
	return int(m.concreteIntBounded(fr, idx, "index", 0, int64(n)-1))
}

func (m *Machine) traceInstr(fr *Frame, instr ssa.Instruction) {
	if v, ok := instr.(ssa.Value); ok {
		fmt.Fprintf(m.traceW, "g%d %s\t%s = %s\n", m.cur.id, fr.fn.Name(), v.Name(), instr)
	} else {
		fmt.Fprintf(m.traceW, "g%d %s\t%s\n", m.cur.id, fr.fn.Name(), instr)
	}
}
