package main

// Happens-before data-race detection on the explored paths.
//
// Every interpreted goroutine carries a vector clock. Synchronisation operations transfer clocks the way the Go memory
// model orders them: go statements, channel send -> receive (per message), the k-th receive -> the (k+cap)-th send,
// rendezvous on unbuffered channels, close -> a receive that observes the close, Mutex/RWMutex unlock -> lock,
// sync/atomic (a store or read-modify-write releases, every operation acquires), Once, WaitGroup, timers. Where the
// model is coarser than the memory model it adds edges (it may miss a race, it does not invent one).
// Loads and stores through pointers (variables, fields, slice elements) are checked against the last write and the
// reads since: two accesses to one location by different goroutines, at least one a write, not ordered by
// happens-before, are a data race -- on this path and on every schedule that executes the same two accesses.
// Only races between two accesses made by library code (not by the harness or its transport) are reported.

import (
	"fmt"
	"strings"

	"golang.org/x/tools/go/ssa"
)

type VC []int32

func (a VC) get(i int) int32 {
	if i < len(a) {
		return a[i]
	}
	return 0
}

func vcJoin(a, b VC) VC {
	if len(b) > len(a) {
		n := make(VC, len(b))
		copy(n, a)
		a = n
	}
	for i, v := range b {
		if v > a[i] {
			a[i] = v
		}
	}
	return a
}

func vcCopy(a VC) VC { return append(VC(nil), a...) }

type accessRec struct {
	g     int
	clk   int32
	where string
	lib   bool
}

type shadowCell struct {
	w     accessRec
	hasW  bool
	reads []accessRec
}

type raceState struct {
	on      bool
	sync    map[interface{}]VC
	shadow  map[*Value]*shadowCell
	reports []string
	seen    map[string]bool
	checked int
}

func (m *Machine) raceInit() {
	m.race.sync = map[interface{}]VC{}
	m.race.shadow = map[*Value]*shadowCell{}
	m.race.seen = map[string]bool{}
}

func (m *Machine) gvc(g *G) VC {
	if len(g.vc) <= g.id {
		n := make(VC, g.id+1)
		copy(n, g.vc)
		g.vc = n
	}
	if g.vc[g.id] == 0 {
		g.vc[g.id] = 1
	}
	return g.vc
}

func (m *Machine) tick(g *G) {
	m.gvc(g)
	g.vc[g.id]++
}

// hbFork: everything the parent did before the go statement happens before the child starts.
func (m *Machine) hbFork(parent, child *G) {
	if !m.race.on {
		return
	}
	if parent != nil {
		child.vc = vcCopy(m.gvc(parent))
		m.tick(parent)
	}
	m.gvc(child)
}

func (m *Machine) hbAcquire(key interface{}) {
	if !m.race.on || m.cur == nil {
		return
	}
	if v, ok := m.race.sync[key]; ok {
		m.cur.vc = vcJoin(m.gvc(m.cur), v)
	}
}

func (m *Machine) hbRelease(key interface{}) {
	if !m.race.on || m.cur == nil {
		return
	}
	g := m.cur
	m.race.sync[key] = vcJoin(vcCopy(m.race.sync[key]), m.gvc(g))
	m.tick(g)
}

// ---- channels ----

// hbSendBuffered: g's value enters the buffer (its send completes).
func (m *Machine) hbSendBuffered(g *G, ch *ChanV) {
	if !m.race.on {
		return
	}
	ch.sendN++
	if ch.cap > 0 && ch.sendN > ch.cap {
		// the (n-cap)-th receive is synchronised before the completion of the n-th send
		if k := ch.sendN - ch.cap - 1; k < len(ch.recvHist) {
			g.vc = vcJoin(m.gvc(g), ch.recvHist[k])
		}
	}
	ch.bufVC = append(ch.bufVC, vcCopy(m.gvc(g)))
	m.tick(g)
}

// hbRecvBuffered: g takes the oldest buffered value.
func (m *Machine) hbRecvBuffered(g *G, ch *ChanV) {
	if !m.race.on {
		return
	}
	if len(ch.bufVC) > 0 {
		g.vc = vcJoin(m.gvc(g), ch.bufVC[0])
		ch.bufVC = ch.bufVC[1:]
	}
	ch.recvHist = append(ch.recvHist, vcCopy(m.gvc(g)))
	m.tick(g)
}

// hbHandoff: sender s hands its value directly to receiver r (no buffering in between).
func (m *Machine) hbHandoff(s, r *G, ch *ChanV) {
	if !m.race.on {
		return
	}
	sv := vcCopy(m.gvc(s))
	rv := vcCopy(m.gvc(r))
	r.vc = vcJoin(m.gvc(r), sv) // the send happens before the receive completes
	ch.sendN++
	if ch.cap == 0 {
		s.vc = vcJoin(m.gvc(s), rv) // unbuffered: the receive happens before the send completes
	} else if ch.sendN > ch.cap {
		if k := ch.sendN - ch.cap - 1; k < len(ch.recvHist) {
			s.vc = vcJoin(m.gvc(s), ch.recvHist[k])
		}
	}
	ch.recvHist = append(ch.recvHist, vcCopy(m.gvc(r)))
	m.tick(s)
	m.tick(r)
}

func (m *Machine) hbClose(g *G, ch *ChanV) {
	if !m.race.on {
		return
	}
	ch.closeVC = vcCopy(m.gvc(g))
	m.tick(g)
}

func (m *Machine) hbRecvClosed(g *G, ch *ChanV) {
	if !m.race.on {
		return
	}
	g.vc = vcJoin(m.gvc(g), ch.closeVC)
}

// ---- memory accesses ----

func (m *Machine) libraryAccess(fr *Frame) bool {
	// the nearest enclosing function that belongs to the module under test decides: library code, or the harness
	for f := fr; f != nil; f = f.caller {
		if f.fn == nil || f.fn.Pkg == nil {
			continue
		}
		path := f.fn.Pkg.Pkg.Path()
		if strings.HasPrefix(path, m.eng.MainPkg.Pkg.Path()) {
			return !isHarnessFunc(f.fn) && !isHarnessMethod(f.fn)
		}
	}
	return false
}

func isHarnessMethod(fn *ssa.Function) bool {
	for f := fn; f != nil; f = f.Parent() {
		n := f.Name()
		if len(n) >= 2 && n[0] == 'v' && n[1] >= 'A' && n[1] <= 'Z' {
			return true
		}
		if r := f.Signature.Recv(); r != nil {
			s := r.Type().String()
			if i := strings.LastIndex(s, "."); i >= 0 {
				s = s[i+1:]
			}
			if len(s) >= 2 && s[0] == 'v' && s[1] >= 'A' && s[1] <= 'Z' {
				return true
			}
		}
	}
	return false
}

func (m *Machine) raceAccess(fr *Frame, addr *Value, write bool) {
	if !m.race.on || len(m.gs) < 2 || m.cur == nil || m.initDepth > 0 || (fr.info != nil && fr.info.raceSkip) {
		return
	}
	g := m.cur
	vc := m.gvc(g)
	m.race.checked++
	sc := m.race.shadow[addr]
	if sc == nil {
		sc = &shadowCell{}
		m.race.shadow[addr] = sc
	}
	me := accessRec{g: g.id, clk: vc[g.id]}
	conflict := func(o accessRec, what string) {
		if o.g == g.id || o.clk <= vc.get(o.g) {
			return
		}
		// unordered
		if me.where == "" {
			me.where = fr.where()
			me.lib = m.libraryAccess(fr)
		}
		if !me.lib || !o.lib {
			return
		}
		kind := "read"
		if write {
			kind = "write"
		}
		key := o.where + "|" + me.where
		if m.race.seen[key] {
			return
		}
		m.race.seen[key] = true
		m.race.reports = append(m.race.reports, fmt.Sprintf("%s at %s by g%d (%s) is not ordered with the %s at %s by g%d", kind, me.where, g.id, g.name, what, o.where, o.g))
	}
	if sc.hasW {
		conflict(sc.w, "write")
	}
	if write {
		for _, r := range sc.reads {
			conflict(r, "read")
		}
	}
	// record (the location string is computed lazily: only when a second goroutine is involved it matters)
	if me.where == "" {
		me.where = fr.where()
		me.lib = m.libraryAccess(fr)
	}
	if write {
		sc.w, sc.hasW = me, true
		sc.reads = sc.reads[:0]
	} else {
		for i, r := range sc.reads {
			if r.g == g.id {
				sc.reads[i] = me
				return
			}
		}
		sc.reads = append(sc.reads, me)
	}
}
