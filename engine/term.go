package main

// Hash-consed SMT terms (Bool and fixed-width bit-vectors up to 64 bits) with a small,
// deliberately conservative simplifier. Concrete operands fold eagerly so that concrete
// control flow never reaches the solver.

import (
	"fmt"
	"math/bits"
	"sort"
	"strings"
)

type Op uint8

const (
	OpConst Op = iota
	OpVar
	// bool
	OpNot
	OpAnd
	OpOr
	OpIte // bool or bv result
	OpEq  // bool result; operands same sort
	// bv
	OpBvAdd
	OpBvSub
	OpBvMul
	OpBvUDiv
	OpBvURem
	OpBvSDiv
	OpBvSRem
	OpBvAnd
	OpBvOr
	OpBvXor
	OpBvNot
	OpBvNeg
	OpBvShl
	OpBvLshr
	OpBvAshr
	OpBvUlt
	OpBvUle
	OpBvSlt
	OpBvSle
	OpConcat
	OpExtract // val = hi<<8|lo
	OpZext
	OpSext
	// strings (sort String, W == WString); see strterm.go
	OpStrLit
	OpStrConcat
	OpStrLen // result Int -> we keep as BV64 through int2bv
	OpStrEq
	OpStrApp // generic application: name in Name, args in Args
)

const WString = 200 // pseudo width marking sort String
const WInt = 201    // pseudo width marking sort Int (only inside string constraints)

type Term struct {
	Op   Op
	W    uint8 // 0 = Bool, 1..64 = BitVec, WString, WInt
	A    *Term
	B    *Term
	C    *Term
	Args []*Term // OpStrApp / flattened xor
	Val  uint64
	Name string
	id   int
}

type termKey struct {
	op      Op
	w       uint8
	a, b, c int
	val     uint64
	name    string
}

type TermFactory struct {
	tab    map[termKey]*Term
	nextID int
	vars   []*Term
	varSet map[string]*Term
	True   *Term
	False  *Term
	// Raw disables every rewrite except constant folding, so that the solver (not the
	// simplifier) decides the obligations; used by the cross-check runs.
	Raw bool
}

func NewTermFactory() *TermFactory {
	f := &TermFactory{tab: map[termKey]*Term{}, varSet: map[string]*Term{}}
	f.True = f.mk(Term{Op: OpConst, W: 0, Val: 1})
	f.False = f.mk(Term{Op: OpConst, W: 0, Val: 0})
	return f
}

func tid(t *Term) int {
	if t == nil {
		return -1
	}
	return t.id
}

func (f *TermFactory) mk(t Term) *Term {
	k := termKey{t.Op, t.W, tid(t.A), tid(t.B), tid(t.C), t.Val, t.Name}
	if len(t.Args) > 0 {
		var sb strings.Builder
		sb.WriteString(t.Name)
		for _, a := range t.Args {
			fmt.Fprintf(&sb, ",%d", a.id)
		}
		k.name = sb.String()
	}
	if r, ok := f.tab[k]; ok {
		return r
	}
	f.nextID++
	t.id = f.nextID
	r := &t
	f.tab[k] = r
	return r
}

func mask(w uint8) uint64 {
	if w >= 64 {
		return ^uint64(0)
	}
	return (uint64(1) << w) - 1
}

func (t *Term) IsConst() bool { return t.Op == OpConst }
func (t *Term) IsBool() bool  { return t.W == 0 }

// signed value of a constant
func (t *Term) SVal() int64 {
	if t.W == 0 || t.W >= 64 {
		return int64(t.Val)
	}
	v := t.Val
	if v&(uint64(1)<<(t.W-1)) != 0 {
		v |= ^mask(t.W)
	}
	return int64(v)
}

func (f *TermFactory) Const(w uint8, v uint64) *Term {
	if w == 0 {
		if v != 0 {
			return f.True
		}
		return f.False
	}
	return f.mk(Term{Op: OpConst, W: w, Val: v & mask(w)})
}

func (f *TermFactory) Bool(b bool) *Term {
	if b {
		return f.True
	}
	return f.False
}

func (f *TermFactory) Var(name string, w uint8) *Term {
	if v, ok := f.varSet[name]; ok {
		if v.W != w {
			panic("term var redeclared with different width: " + name)
		}
		return v
	}
	v := f.mk(Term{Op: OpVar, W: w, Name: name})
	f.varSet[name] = v
	f.vars = append(f.vars, v)
	return v
}

// ---------- Bool ----------

func (f *TermFactory) Not(a *Term) *Term {
	if a.W != 0 {
		panic("Not on non-bool")
	}
	if a.IsConst() {
		return f.Bool(a.Val == 0)
	}
	if f.Raw {
		return f.mk(Term{Op: OpNot, W: 0, A: a})
	}
	if a.Op == OpNot {
		return a.A
	}
	return f.mk(Term{Op: OpNot, W: 0, A: a})
}

func (f *TermFactory) And(a, b *Term) *Term {
	if f.Raw {
		if a.IsConst() && b.IsConst() {
			return f.Bool(a.Val != 0 && b.Val != 0)
		}
		return f.mk(Term{Op: OpAnd, W: 0, A: a, B: b})
	}
	if a.IsConst() {
		if a.Val == 0 {
			return f.False
		}
		return b
	}
	if b.IsConst() {
		if b.Val == 0 {
			return f.False
		}
		return a
	}
	if a == b {
		return a
	}
	if (a.Op == OpNot && a.A == b) || (b.Op == OpNot && b.A == a) {
		return f.False
	}
	if a.id > b.id {
		a, b = b, a
	}
	return f.mk(Term{Op: OpAnd, W: 0, A: a, B: b})
}

func (f *TermFactory) Or(a, b *Term) *Term {
	if f.Raw {
		if a.IsConst() && b.IsConst() {
			return f.Bool(a.Val != 0 || b.Val != 0)
		}
		return f.mk(Term{Op: OpOr, W: 0, A: a, B: b})
	}
	if a.IsConst() {
		if a.Val != 0 {
			return f.True
		}
		return b
	}
	if b.IsConst() {
		if b.Val != 0 {
			return f.True
		}
		return a
	}
	if a == b {
		return a
	}
	if (a.Op == OpNot && a.A == b) || (b.Op == OpNot && b.A == a) {
		return f.True
	}
	if a.id > b.id {
		a, b = b, a
	}
	return f.mk(Term{Op: OpOr, W: 0, A: a, B: b})
}

func (f *TermFactory) Ite(c, a, b *Term) *Term {
	if c.IsConst() {
		if c.Val != 0 {
			return a
		}
		return b
	}
	if a.W != b.W {
		panic(fmt.Sprintf("Ite width mismatch %d %d", a.W, b.W))
	}
	if f.Raw {
		return f.mk(Term{Op: OpIte, W: a.W, A: c, B: a, C: b})
	}
	if a == b {
		return a
	}
	if a.W == 0 {
		if a.IsConst() && b.IsConst() {
			if a.Val != 0 {
				return c
			}
			return f.Not(c)
		}
		if a.IsConst() {
			if a.Val != 0 {
				return f.Or(c, b)
			}
			return f.And(f.Not(c), b)
		}
		if b.IsConst() {
			if b.Val != 0 {
				return f.Or(f.Not(c), a)
			}
			return f.And(c, a)
		}
	}
	return f.mk(Term{Op: OpIte, W: a.W, A: c, B: a, C: b})
}

func (f *TermFactory) Eq(a, b *Term) *Term {
	if a.W != b.W {
		panic(fmt.Sprintf("Eq width mismatch %d %d (%s vs %s)", a.W, b.W, a, b))
	}
	if a.IsConst() && b.IsConst() {
		return f.Bool(a.Val == b.Val)
	}
	if f.Raw {
		return f.mk(Term{Op: OpEq, W: 0, A: a, B: b})
	}
	if a == b {
		return f.True
	}
	if a.W == 0 {
		if a.IsConst() {
			if a.Val != 0 {
				return b
			}
			return f.Not(b)
		}
		if b.IsConst() {
			if b.Val != 0 {
				return a
			}
			return f.Not(a)
		}
	}
	if a.W == WString {
		if a.Op == OpStrLit && b.Op == OpStrLit {
			return f.Bool(a.Name == b.Name)
		}
	}
	// x ^ k == c  with everything but x constant is left to the solver.
	if a.id > b.id {
		a, b = b, a
	}
	return f.mk(Term{Op: OpEq, W: 0, A: a, B: b})
}

// ---------- BV helpers ----------

func (f *TermFactory) bin(op Op, w uint8, a, b *Term) *Term {
	return f.mk(Term{Op: op, W: w, A: a, B: b})
}

func chk(a, b *Term, what string) {
	if a.W != b.W || a.W == 0 || a.W > 64 {
		panic(fmt.Sprintf("%s: width mismatch %d %d (%s ; %s)", what, a.W, b.W, a, b))
	}
}

func (f *TermFactory) Add(a, b *Term) *Term {
	chk(a, b, "add")
	if a.IsConst() && b.IsConst() {
		return f.Const(a.W, a.Val+b.Val)
	}
	if f.Raw {
		return f.bin(OpBvAdd, a.W, a, b)
	}
	if a.IsConst() && a.Val == 0 {
		return b
	}
	if b.IsConst() && b.Val == 0 {
		return a
	}
	// (x + c1) + c2
	if b.IsConst() && a.Op == OpBvAdd && a.B.IsConst() {
		return f.Add(a.A, f.Const(a.W, a.B.Val+b.Val))
	}
	if a.IsConst() {
		a, b = b, a
	}
	return f.bin(OpBvAdd, a.W, a, b)
}

func (f *TermFactory) Sub(a, b *Term) *Term {
	chk(a, b, "sub")
	if a.IsConst() && b.IsConst() {
		return f.Const(a.W, a.Val-b.Val)
	}
	if f.Raw {
		return f.bin(OpBvSub, a.W, a, b)
	}
	if b.IsConst() {
		return f.Add(a, f.Const(a.W, -b.Val))
	}
	if a == b {
		return f.Const(a.W, 0)
	}
	return f.bin(OpBvSub, a.W, a, b)
}

func (f *TermFactory) Mul(a, b *Term) *Term {
	chk(a, b, "mul")
	if a.IsConst() && b.IsConst() {
		return f.Const(a.W, a.Val*b.Val)
	}
	if f.Raw {
		return f.bin(OpBvMul, a.W, a, b)
	}
	if a.IsConst() {
		a, b = b, a
	}
	if b.IsConst() {
		if b.Val == 0 {
			return b
		}
		if b.Val == 1 {
			return a
		}
		if b.Val&(b.Val-1) == 0 {
			return f.Shl(a, f.Const(a.W, uint64(bits.TrailingZeros64(b.Val))))
		}
	}
	return f.bin(OpBvMul, a.W, a, b)
}

// Go semantics division: callers must have excluded zero divisors.
func (f *TermFactory) UDiv(a, b *Term) *Term {
	chk(a, b, "udiv")
	if a.IsConst() && b.IsConst() && b.Val != 0 {
		return f.Const(a.W, a.Val/b.Val)
	}
	if f.Raw {
		return f.bin(OpBvUDiv, a.W, a, b)
	}
	if b.IsConst() && b.Val != 0 && b.Val&(b.Val-1) == 0 {
		return f.Lshr(a, f.Const(a.W, uint64(bits.TrailingZeros64(b.Val))))
	}
	return f.bin(OpBvUDiv, a.W, a, b)
}

func (f *TermFactory) URem(a, b *Term) *Term {
	chk(a, b, "urem")
	if a.IsConst() && b.IsConst() && b.Val != 0 {
		return f.Const(a.W, a.Val%b.Val)
	}
	if f.Raw {
		return f.bin(OpBvURem, a.W, a, b)
	}
	if b.IsConst() && b.Val != 0 && b.Val&(b.Val-1) == 0 {
		return f.BvAnd(a, f.Const(a.W, b.Val-1))
	}
	return f.bin(OpBvURem, a.W, a, b)
}

func (f *TermFactory) SDiv(a, b *Term) *Term {
	chk(a, b, "sdiv")
	if a.IsConst() && b.IsConst() && b.Val != 0 {
		x, y := a.SVal(), b.SVal()
		if y == -1 {
			return f.Const(a.W, uint64(-x))
		}
		return f.Const(a.W, uint64(x/y))
	}
	return f.bin(OpBvSDiv, a.W, a, b)
}

func (f *TermFactory) SRem(a, b *Term) *Term {
	chk(a, b, "srem")
	if a.IsConst() && b.IsConst() && b.Val != 0 {
		x, y := a.SVal(), b.SVal()
		if y == -1 {
			return f.Const(a.W, 0)
		}
		return f.Const(a.W, uint64(x%y))
	}
	return f.bin(OpBvSRem, a.W, a, b)
}

func (f *TermFactory) BvAnd(a, b *Term) *Term {
	chk(a, b, "and")
	if a.IsConst() && b.IsConst() {
		return f.Const(a.W, a.Val&b.Val)
	}
	if f.Raw {
		return f.bin(OpBvAnd, a.W, a, b)
	}
	if a.IsConst() {
		a, b = b, a
	}
	if b.IsConst() {
		if b.Val == 0 {
			return b
		}
		if b.Val == mask(a.W) {
			return a
		}
		// low-bit mask: and(x, 2^k-1) = zext(extract(k-1,0,x))
		if b.Val&(b.Val+1) == 0 {
			k := uint8(bits.Len64(b.Val))
			return f.Zext(f.Extract(a, k-1, 0), a.W)
		}
		// single contiguous field mask: keep as and
	}
	if a == b {
		return a
	}
	if a.id > b.id && !b.IsConst() {
		a, b = b, a
	}
	return f.bin(OpBvAnd, a.W, a, b)
}

func (f *TermFactory) BvOr(a, b *Term) *Term {
	chk(a, b, "or")
	if a.IsConst() && b.IsConst() {
		return f.Const(a.W, a.Val|b.Val)
	}
	if f.Raw {
		return f.bin(OpBvOr, a.W, a, b)
	}
	if a.IsConst() {
		a, b = b, a
	}
	if b.IsConst() {
		if b.Val == 0 {
			return a
		}
		if b.Val == mask(a.W) {
			return b
		}
	}
	if a == b {
		return a
	}
	// disjoint concat merge: or(concat(h,0_k), zext-like concat(0,l)) -> concat(h,l)
	if r := f.orConcat(a, b); r != nil {
		return r
	}
	if a.id > b.id && !b.IsConst() {
		a, b = b, a
	}
	return f.bin(OpBvOr, a.W, a, b)
}

// knownZeroSplit reports that t == concat(hi, lo) with one of the two halves all-zero, returning the parts.
func isZeroConst(t *Term) bool { return t.IsConst() && t.Val == 0 }

func (f *TermFactory) orConcat(a, b *Term) *Term {
	if a.Op != OpConcat || b.Op != OpConcat {
		return nil
	}
	if a.A.W != b.A.W {
		return nil
	}
	// concat(ha, la) | concat(hb, lb) where in each position one side is zero
	var h, l *Term
	switch {
	case isZeroConst(a.A):
		h = b.A
	case isZeroConst(b.A):
		h = a.A
	default:
		return nil
	}
	switch {
	case isZeroConst(a.B):
		l = b.B
	case isZeroConst(b.B):
		l = a.B
	default:
		if lo := f.orConcat(a.B, b.B); lo != nil {
			l = lo
		} else {
			return nil
		}
	}
	return f.Concat(h, l)
}

// Xor is kept flattened: an n-ary xor with sorted operands and at most one constant,
// so that (p ^ k) ^ k cancels structurally.
func (f *TermFactory) BvXor(a, b *Term) *Term {
	chk(a, b, "xor")
	if a.IsConst() && b.IsConst() {
		return f.Const(a.W, a.Val^b.Val)
	}
	if f.Raw {
		return f.mk(Term{Op: OpBvXor, W: a.W, Args: []*Term{a, b}, Name: "xor"})
	}
	var ops []*Term
	var c uint64
	add := func(t *Term) {
		if t.IsConst() {
			c ^= t.Val
			return
		}
		if t.Op == OpBvXor {
			for _, x := range t.Args {
				if x.IsConst() {
					c ^= x.Val
				} else {
					ops = append(ops, x)
				}
			}
			return
		}
		ops = append(ops, t)
	}
	add(a)
	add(b)
	sort.Slice(ops, func(i, j int) bool { return ops[i].id < ops[j].id })
	// cancel pairs
	out := ops[:0]
	for i := 0; i < len(ops); i++ {
		if i+1 < len(ops) && ops[i] == ops[i+1] {
			i++
			continue
		}
		out = append(out, ops[i])
	}
	ops = out
	w := a.W
	if len(ops) == 0 {
		return f.Const(w, c)
	}
	if c == mask(w) && len(ops) == 1 {
		return f.BvNot(ops[0])
	}
	if c != 0 {
		ops = append(ops, f.Const(w, c))
	}
	if len(ops) == 1 {
		return ops[0]
	}
	cp := make([]*Term, len(ops))
	copy(cp, ops)
	return f.mk(Term{Op: OpBvXor, W: w, Args: cp, Name: "xor"})
}

func (f *TermFactory) BvNot(a *Term) *Term {
	if a.IsConst() {
		return f.Const(a.W, ^a.Val)
	}
	if f.Raw {
		return f.mk(Term{Op: OpBvNot, W: a.W, A: a})
	}
	if a.Op == OpBvNot {
		return a.A
	}
	return f.mk(Term{Op: OpBvNot, W: a.W, A: a})
}

func (f *TermFactory) Neg(a *Term) *Term {
	if a.IsConst() {
		return f.Const(a.W, -a.Val)
	}
	return f.mk(Term{Op: OpBvNeg, W: a.W, A: a})
}

// Shifts: b has the same width as a (callers convert); SMT semantics (shift >= w gives 0 / sign fill) equal Go's.
func (f *TermFactory) Shl(a, b *Term) *Term {
	chk(a, b, "shl")
	if f.Raw && !(a.IsConst() && b.IsConst()) {
		return f.bin(OpBvShl, a.W, a, b)
	}
	if b.IsConst() {
		k := b.Val
		if k == 0 {
			return a
		}
		if k >= uint64(a.W) {
			return f.Const(a.W, 0)
		}
		if a.IsConst() {
			return f.Const(a.W, a.Val<<k)
		}
		// shl(x,k) = concat(extract(w-k-1,0,x), 0_k)
		return f.Concat(f.Extract(a, a.W-uint8(k)-1, 0), f.Const(uint8(k), 0))
	}
	if a.IsConst() && a.Val == 0 {
		return a
	}
	return f.bin(OpBvShl, a.W, a, b)
}

func (f *TermFactory) Lshr(a, b *Term) *Term {
	chk(a, b, "lshr")
	if f.Raw && !(a.IsConst() && b.IsConst()) {
		return f.bin(OpBvLshr, a.W, a, b)
	}
	if b.IsConst() {
		k := b.Val
		if k == 0 {
			return a
		}
		if k >= uint64(a.W) {
			return f.Const(a.W, 0)
		}
		if a.IsConst() {
			return f.Const(a.W, a.Val>>k)
		}
		return f.Concat(f.Const(uint8(k), 0), f.Extract(a, a.W-1, uint8(k)))
	}
	if a.IsConst() && a.Val == 0 {
		return a
	}
	return f.bin(OpBvLshr, a.W, a, b)
}

func (f *TermFactory) Ashr(a, b *Term) *Term {
	chk(a, b, "ashr")
	if f.Raw && !(a.IsConst() && b.IsConst()) {
		return f.bin(OpBvAshr, a.W, a, b)
	}
	if b.IsConst() {
		k := b.Val
		if k == 0 {
			return a
		}
		if a.IsConst() {
			if k >= uint64(a.W) {
				k = uint64(a.W) - 1
			}
			return f.Const(a.W, uint64(a.SVal()>>k))
		}
		if k >= uint64(a.W) {
			k = uint64(a.W) - 1
		}
		return f.Sext(f.Extract(a, a.W-1, uint8(k)), a.W)
	}
	return f.bin(OpBvAshr, a.W, a, b)
}

func (f *TermFactory) Ult(a, b *Term) *Term {
	chk(a, b, "ult")
	if a.IsConst() && b.IsConst() {
		return f.Bool(a.Val < b.Val)
	}
	if f.Raw {
		return f.bin(OpBvUlt, 0, a, b)
	}
	if a == b {
		return f.False
	}
	if b.IsConst() && b.Val == 0 {
		return f.False
	}
	return f.bin(OpBvUlt, 0, a, b)
}

func (f *TermFactory) Ule(a, b *Term) *Term {
	chk(a, b, "ule")
	if a.IsConst() && b.IsConst() {
		return f.Bool(a.Val <= b.Val)
	}
	if f.Raw {
		return f.bin(OpBvUle, 0, a, b)
	}
	if a == b {
		return f.True
	}
	if a.IsConst() && a.Val == 0 {
		return f.True
	}
	return f.bin(OpBvUle, 0, a, b)
}

func (f *TermFactory) Slt(a, b *Term) *Term {
	chk(a, b, "slt")
	if a.IsConst() && b.IsConst() {
		return f.Bool(a.SVal() < b.SVal())
	}
	if f.Raw {
		return f.bin(OpBvSlt, 0, a, b)
	}
	if a == b {
		return f.False
	}
	return f.bin(OpBvSlt, 0, a, b)
}

func (f *TermFactory) Sle(a, b *Term) *Term {
	chk(a, b, "sle")
	if a.IsConst() && b.IsConst() {
		return f.Bool(a.SVal() <= b.SVal())
	}
	if f.Raw {
		return f.bin(OpBvSle, 0, a, b)
	}
	if a == b {
		return f.True
	}
	return f.bin(OpBvSle, 0, a, b)
}

func (f *TermFactory) Concat(hi, lo *Term) *Term {
	w := int(hi.W) + int(lo.W)
	if w > 64 {
		panic("concat wider than 64")
	}
	if hi.IsConst() && lo.IsConst() {
		return f.Const(uint8(w), hi.Val<<lo.W|lo.Val)
	}
	if f.Raw {
		return f.mk(Term{Op: OpConcat, W: uint8(w), A: hi, B: lo})
	}
	// concat(extract(h,m+1,x), extract(m,l,x)) = extract(h,l,x)
	if hi.Op == OpExtract && lo.Op == OpExtract && hi.A == lo.A {
		hh, hl := uint8(hi.Val>>8), uint8(hi.Val)
		lh, ll := uint8(lo.Val>>8), uint8(lo.Val)
		if hl == lh+1 {
			return f.Extract(hi.A, hh, ll)
		}
	}
	// right-associate: concat(concat(a,b),c) -> concat(a,concat(b,c))
	if hi.Op == OpConcat {
		return f.Concat(hi.A, f.Concat(hi.B, lo))
	}
	// merge adjacent constants / extracts at the head of lo
	if lo.Op == OpConcat {
		if hi.IsConst() && lo.A.IsConst() {
			return f.Concat(f.Const(hi.W+lo.A.W, hi.Val<<lo.A.W|lo.A.Val), lo.B)
		}
		if hi.Op == OpExtract && lo.A.Op == OpExtract && hi.A == lo.A.A {
			hh, hl := uint8(hi.Val>>8), uint8(hi.Val)
			lh, ll := uint8(lo.A.Val>>8), uint8(lo.A.Val)
			if hl == lh+1 {
				return f.Concat(f.Extract(hi.A, hh, ll), lo.B)
			}
		}
	}
	return f.mk(Term{Op: OpConcat, W: uint8(w), A: hi, B: lo})
}

func (f *TermFactory) Extract(a *Term, hi, lo uint8) *Term {
	if hi < lo || hi >= a.W {
		panic(fmt.Sprintf("bad extract [%d:%d] of width %d", hi, lo, a.W))
	}
	w := hi - lo + 1
	if w == a.W {
		return a
	}
	if f.Raw && a.Op != OpConst {
		return f.mk(Term{Op: OpExtract, W: w, A: a, Val: uint64(hi)<<8 | uint64(lo)})
	}
	switch a.Op {
	case OpConst:
		return f.Const(w, a.Val>>lo)
	case OpExtract:
		l0 := uint8(a.Val)
		return f.Extract(a.A, hi+l0, lo+l0)
	case OpConcat:
		lw := a.B.W
		if hi < lw {
			return f.Extract(a.B, hi, lo)
		}
		if lo >= lw {
			return f.Extract(a.A, hi-lw, lo-lw)
		}
		return f.Concat(f.Extract(a.A, hi-lw, 0), f.Extract(a.B, lw-1, lo))
	case OpZext:
		xw := a.A.W
		if hi < xw {
			return f.Extract(a.A, hi, lo)
		}
		if lo >= xw {
			return f.Const(w, 0)
		}
		return f.Concat(f.Const(hi-xw+1, 0), f.Extract(a.A, xw-1, lo))
	case OpSext:
		xw := a.A.W
		if hi < xw {
			return f.Extract(a.A, hi, lo)
		}
	case OpBvAnd:
		return f.BvAnd(f.Extract(a.A, hi, lo), f.Extract(a.B, hi, lo))
	case OpBvOr:
		return f.BvOr(f.Extract(a.A, hi, lo), f.Extract(a.B, hi, lo))
	case OpBvNot:
		return f.BvNot(f.Extract(a.A, hi, lo))
	case OpBvXor:
		r := f.Extract(a.Args[0], hi, lo)
		for _, x := range a.Args[1:] {
			r = f.BvXor(r, f.Extract(x, hi, lo))
		}
		return r
	case OpIte:
		if a.B.IsConst() || a.C.IsConst() {
			return f.Ite(a.A, f.Extract(a.B, hi, lo), f.Extract(a.C, hi, lo))
		}
	case OpBvAdd, OpBvSub, OpBvMul:
		// low bits of modular arithmetic depend only on low bits of the operands
		if lo == 0 {
			x, y := f.Extract(a.A, hi, 0), f.Extract(a.B, hi, 0)
			switch a.Op {
			case OpBvAdd:
				return f.Add(x, y)
			case OpBvSub:
				return f.Sub(x, y)
			default:
				return f.Mul(x, y)
			}
		}
	}
	return f.mk(Term{Op: OpExtract, W: w, A: a, Val: uint64(hi)<<8 | uint64(lo)})
}

func (f *TermFactory) Zext(a *Term, w uint8) *Term {
	if w == a.W {
		return a
	}
	if w < a.W {
		panic("zext narrower")
	}
	if f.Raw && !a.IsConst() {
		return f.mk(Term{Op: OpZext, W: w, A: a})
	}
	return f.Concat(f.Const(w-a.W, 0), a)
}

func (f *TermFactory) Sext(a *Term, w uint8) *Term {
	if w == a.W {
		return a
	}
	if w < a.W {
		panic("sext narrower")
	}
	if a.IsConst() {
		return f.Const(w, uint64(a.SVal()))
	}
	if f.Raw {
		return f.mk(Term{Op: OpSext, W: w, A: a})
	}
	if a.Op == OpSext {
		return f.Sext(a.A, w)
	}
	// sext of something with a known-zero top bit is zext
	if a.Op == OpConcat && a.A.IsConst() && a.A.Val>>(a.A.W-1) == 0 {
		return f.Zext(a, w)
	}
	return f.mk(Term{Op: OpSext, W: w, A: a})
}

// Resize converts between widths with Go conversion semantics (truncate, or extend by signedness of the source).
func (f *TermFactory) Resize(a *Term, w uint8, srcSigned bool) *Term {
	switch {
	case w == a.W:
		return a
	case w < a.W:
		return f.Extract(a, w-1, 0)
	case srcSigned:
		return f.Sext(a, w)
	default:
		return f.Zext(a, w)
	}
}

// ---------- printing ----------

func (t *Term) String() string {
	var sb strings.Builder
	t.write(&sb, 0)
	return sb.String()
}

func (t *Term) write(sb *strings.Builder, depth int) {
	if depth > 6 {
		fmt.Fprintf(sb, "#%d", t.id)
		return
	}
	switch t.Op {
	case OpConst:
		if t.W == 0 {
			if t.Val != 0 {
				sb.WriteString("true")
			} else {
				sb.WriteString("false")
			}
		} else {
			fmt.Fprintf(sb, "%d:%d", t.Val, t.W)
		}
	case OpVar:
		sb.WriteString(t.Name)
	case OpStrLit:
		fmt.Fprintf(sb, "%q", t.Name)
	case OpExtract:
		sb.WriteString("ext[")
		fmt.Fprintf(sb, "%d:%d](", t.Val>>8, t.Val&0xff)
		t.A.write(sb, depth+1)
		sb.WriteString(")")
	default:
		fmt.Fprintf(sb, "(%s", opName(t))
		for _, x := range t.kids() {
			sb.WriteString(" ")
			x.write(sb, depth+1)
		}
		sb.WriteString(")")
	}
}

func (t *Term) kids() []*Term {
	if len(t.Args) > 0 {
		return t.Args
	}
	var r []*Term
	if t.A != nil {
		r = append(r, t.A)
	}
	if t.B != nil {
		r = append(r, t.B)
	}
	if t.C != nil {
		r = append(r, t.C)
	}
	return r
}

var opNames = map[Op]string{
	OpNot: "not", OpAnd: "and", OpOr: "or", OpIte: "ite", OpEq: "=",
	OpBvAdd: "bvadd", OpBvSub: "bvsub", OpBvMul: "bvmul", OpBvUDiv: "bvudiv", OpBvURem: "bvurem",
	OpBvSDiv: "bvsdiv", OpBvSRem: "bvsrem", OpBvAnd: "bvand", OpBvOr: "bvor", OpBvXor: "bvxor",
	OpBvNot: "bvnot", OpBvNeg: "bvneg", OpBvShl: "bvshl", OpBvLshr: "bvlshr", OpBvAshr: "bvashr",
	OpBvUlt: "bvult", OpBvUle: "bvule", OpBvSlt: "bvslt", OpBvSle: "bvsle", OpConcat: "concat",
	OpStrConcat: "str.++", OpStrLen: "str.len", OpStrEq: "=",
}

func opName(t *Term) string {
	if t.Op == OpStrApp {
		return t.Name
	}
	return opNames[t.Op]
}

// ---------- concrete evaluation (used for model replay and simplifier self-test) ----------

func (t *Term) Eval(env map[string]uint64) uint64 {
	memo := map[*Term]uint64{}
	return t.eval(env, memo)
}

func (t *Term) eval(env map[string]uint64, memo map[*Term]uint64) uint64 {
	if v, ok := memo[t]; ok {
		return v
	}
	ev := func(x *Term) uint64 { return x.eval(env, memo) }
	sx := func(x *Term) int64 {
		v := ev(x)
		if x.W < 64 && v&(uint64(1)<<(x.W-1)) != 0 {
			v |= ^mask(x.W)
		}
		return int64(v)
	}
	b2u := func(b bool) uint64 {
		if b {
			return 1
		}
		return 0
	}
	var r uint64
	switch t.Op {
	case OpConst:
		r = t.Val
	case OpVar:
		r = env[t.Name] & mask(maxw(t.W))
	case OpNot:
		r = b2u(ev(t.A) == 0)
	case OpAnd:
		r = b2u(ev(t.A) != 0 && ev(t.B) != 0)
	case OpOr:
		r = b2u(ev(t.A) != 0 || ev(t.B) != 0)
	case OpIte:
		if ev(t.A) != 0 {
			r = ev(t.B)
		} else {
			r = ev(t.C)
		}
	case OpEq:
		r = b2u(ev(t.A) == ev(t.B))
	case OpBvAdd:
		r = ev(t.A) + ev(t.B)
	case OpBvSub:
		r = ev(t.A) - ev(t.B)
	case OpBvMul:
		r = ev(t.A) * ev(t.B)
	case OpBvUDiv:
		if d := ev(t.B); d == 0 {
			r = mask(t.W)
		} else {
			r = ev(t.A) / d
		}
	case OpBvURem:
		if d := ev(t.B); d == 0 {
			r = ev(t.A)
		} else {
			r = ev(t.A) % d
		}
	case OpBvSDiv:
		x, y := sx(t.A), sx(t.B)
		switch {
		case y == 0:
			if x < 0 {
				r = 1
			} else {
				r = mask(t.W)
			}
		case y == -1:
			r = uint64(-x)
		default:
			r = uint64(x / y)
		}
	case OpBvSRem:
		x, y := sx(t.A), sx(t.B)
		switch {
		case y == 0:
			r = uint64(x)
		case y == -1:
			r = 0
		default:
			r = uint64(x % y)
		}
	case OpBvAnd:
		r = ev(t.A) & ev(t.B)
	case OpBvOr:
		r = ev(t.A) | ev(t.B)
	case OpBvXor:
		for _, x := range t.Args {
			r ^= ev(x)
		}
	case OpBvNot:
		r = ^ev(t.A)
	case OpBvNeg:
		r = -ev(t.A)
	case OpBvShl:
		if k := ev(t.B); k >= uint64(t.W) {
			r = 0
		} else {
			r = ev(t.A) << k
		}
	case OpBvLshr:
		if k := ev(t.B); k >= uint64(t.W) {
			r = 0
		} else {
			r = ev(t.A) >> k
		}
	case OpBvAshr:
		k := ev(t.B)
		if k >= uint64(t.W) {
			k = uint64(t.W) - 1
		}
		r = uint64(sx(t.A) >> k)
	case OpBvUlt:
		r = b2u(ev(t.A) < ev(t.B))
	case OpBvUle:
		r = b2u(ev(t.A) <= ev(t.B))
	case OpBvSlt:
		r = b2u(sx(t.A) < sx(t.B))
	case OpBvSle:
		r = b2u(sx(t.A) <= sx(t.B))
	case OpConcat:
		r = ev(t.A)<<t.B.W | ev(t.B)
	case OpExtract:
		r = ev(t.A) >> (t.Val & 0xff)
	case OpZext:
		r = ev(t.A)
	case OpSext:
		r = uint64(sx(t.A))
	default:
		panic("eval: unsupported op " + opName(t))
	}
	if t.W >= 1 && t.W <= 64 {
		r &= mask(t.W)
	}
	memo[t] = r
	return r
}

func maxw(w uint8) uint8 {
	if w == 0 {
		return 1
	}
	return w
}
