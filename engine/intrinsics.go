package main

// Engine-provided implementations of the functions on the frontier of the interpreted set:
// harness vocabulary, sync, sync/atomic, time, fmt, errors, runtime, bytealg, unicode, strconv, ...

import (
	"encoding/base64"
	"fmt"
	"go/types"
	"math"
	"net/url"
	"path/filepath"
	"sort"
	"strconv"
	"strings"
	"sync"
	"unicode"

	"golang.org/x/tools/go/ssa"
)

type Intrinsic func(m *Machine, fr *Frame, fn *ssa.Function, args []Value) Value

var intrinsicCache sync.Map // *ssa.Function -> Intrinsic (possibly nil)

type intrinsicEntry struct{ in Intrinsic }

func (m *Machine) lookupIntrinsic(fn *ssa.Function) Intrinsic {
	if e, ok := intrinsicCache.Load(fn); ok {
		return e.(intrinsicEntry).in
	}
	name := fn.String()
	if o := fn.Origin(); o != nil {
		name = o.String()
	}
	in := m.eng.intrinsics[name]
	if in == nil && fn.Pkg == nil && fn.Synthetic != "" {
		// wrappers / bound methods / thunks keep their bodies
	}
	intrinsicCache.Store(fn, intrinsicEntry{in})
	return in
}

const wsPkg = "nhooyr.io/websocket"

func (m *Machine) str(v Value) string {
	switch s := v.(type) {
	case string:
		return s
	}
	m.unsupported("concrete string expected, got %T", v)
	return ""
}

func (m *Machine) noteStub(name string) { m.res.Stubs[name]++ }

func (m *Machine) newInput(tag string, w uint8) *Term {
	k := m.tagCount[tag]
	m.tagCount[tag] = k + 1
	name := fmt.Sprintf("%s#%d", tag, k)
	t := m.tf.Var(name, w)
	m.inputs = append(m.inputs, t)
	return t
}

func boolT(v Value) *Term { return v.(*Term) }

func buildIntrinsics() map[string]Intrinsic {
	t := map[string]Intrinsic{}

	// ---------- harness vocabulary (package websocket and wsjson) ----------
	for _, pkg := range []string{wsPkg, wsPkg + "/wsjson"} {
		p := pkg + "."
		t[p+"vBool"] = func(m *Machine, fr *Frame, fn *ssa.Function, a []Value) Value {
			return m.newInput(m.str(a[0]), 0)
		}
		t[p+"vU8"] = func(m *Machine, fr *Frame, fn *ssa.Function, a []Value) Value {
			return m.newInput(m.str(a[0]), 8)
		}
		t[p+"vU16"] = func(m *Machine, fr *Frame, fn *ssa.Function, a []Value) Value {
			return m.newInput(m.str(a[0]), 16)
		}
		t[p+"vU32"] = func(m *Machine, fr *Frame, fn *ssa.Function, a []Value) Value {
			return m.newInput(m.str(a[0]), 32)
		}
		t[p+"vU64"] = func(m *Machine, fr *Frame, fn *ssa.Function, a []Value) Value {
			return m.newInput(m.str(a[0]), 64)
		}
		t[p+"vI64"] = func(m *Machine, fr *Frame, fn *ssa.Function, a []Value) Value {
			return m.newInput(m.str(a[0]), 64)
		}
		t[p+"vInt"] = func(m *Machine, fr *Frame, fn *ssa.Function, a []Value) Value {
			v := m.newInput(m.str(a[0]), 64)
			lo, hi := a[1].(*Term), a[2].(*Term)
			m.Assume(fr, m.tf.And(m.tf.Sle(lo, v), m.tf.Sle(v, hi)))
			return v
		}
		t[p+"vBytes"] = func(m *Machine, fr *Frame, fn *ssa.Function, a []Value) Value {
			n := int(m.concreteInt(fr, a[1].(*Term), "vBytes length"))
			tag := m.str(a[0])
			r := make([]Value, n)
			for i := range r {
				r[i] = m.newInput(tag, 8)
			}
			return r
		}
		t[p+"vChoose"] = func(m *Machine, fr *Frame, fn *ssa.Function, a []Value) Value {
			n := int(m.concreteInt(fr, a[1].(*Term), "vChoose n"))
			v := m.newInput(m.str(a[0]), 64)
			if pin, ok := m.cfg.Params["pin."+m.str(a[0])]; ok && n > 0 {
				if int(pin) >= n {
					panic(pathAbort{"assume", "pinned choice out of range"})
				}
				c := m.tf.Const(64, uint64(pin))
				m.addPC(m.tf.Eq(v, c))
				return c
			}
			if n <= 0 {
				panic(pathAbort{"assume", "vChoose over empty range"})
			}
			k := m.Choose(fr, n, "vChoose:"+m.str(a[0]))
			c := m.tf.Const(64, uint64(k))
			m.addPC(m.tf.Eq(v, c))
			return c
		}
		t[p+"vString"] = func(m *Machine, fr *Frame, fn *ssa.Function, a []Value) Value {
			return &SmtStr{T: m.newStrInput(m.str(a[0]))}
		}
		t[p+"vUFStr"] = func(m *Machine, fr *Frame, fn *ssa.Function, a []Value) Value {
			// reference-side application of the same uninterpreted function the engine uses for a stubbed stdlib function
			name := m.str(a[0])
			if s, ok := a[1].(string); ok {
				switch name {
				case "sha1":
					return string(sha1Sum([]byte(s)))
				case "b64":
					return b64Encode([]byte(s))
				case "urlHost":
					if u, err := url.Parse(s); err == nil {
						return u.Host
					}
					return ""
				}
			}
			return m.mkSmt(m.uf(WString, name, m.strTerm(a[1])))
		}
		t[p+"vUFBool"] = func(m *Machine, fr *Frame, fn *ssa.Function, a []Value) Value {
			var args []*Term
			allConc := true
			var conc []string
			for _, x := range a[1].([]Value) {
				if s, ok := x.(string); ok {
					conc = append(conc, s)
				} else {
					allConc = false
				}
				args = append(args, m.strTerm(x))
			}
			if allConc {
				// on concrete arguments the library runs the real function: so does the reference
				if r, ok := nativeUFBool(m.str(a[0]), conc); ok {
					return m.tf.Bool(r)
				}
			}
			return m.uf(0, m.str(a[0]), args...)
		}
		t[p+"vStrIsSymbolic"] = func(m *Machine, fr *Frame, fn *ssa.Function, a []Value) Value {
			_, ok := a[0].(*SmtStr)
			return m.tf.Bool(ok)
		}
		t[p+"vParam"] = func(m *Machine, fr *Frame, fn *ssa.Function, a []Value) Value {
			name := m.str(a[0])
			if v, ok := m.cfg.Params[name]; ok {
				return m.tf.Const(64, uint64(v))
			}
			return a[1]
		}
		t[p+"vAssume"] = func(m *Machine, fr *Frame, fn *ssa.Function, a []Value) Value {
			m.Assume(fr, boolT(a[0]))
			return nil
		}
		t[p+"vAssert"] = func(m *Machine, fr *Frame, fn *ssa.Function, a []Value) Value {
			m.Assert(fr, boolT(a[0]), m.str(a[1]))
			return nil
		}
		t[p+"vAssertGhost"] = func(m *Machine, fr *Frame, fn *ssa.Function, a []Value) Value {
			m.ghostAssert = true
			m.Assert(fr, boolT(a[0]), m.str(a[1]))
			m.ghostAssert = false
			return nil
		}
		t[p+"vReach"] = func(m *Machine, fr *Frame, fn *ssa.Function, a []Value) Value {
			m.reached[m.str(a[0])] = true
			return nil
		}
		t[p+"vClassify"] = func(m *Machine, fr *Frame, fn *ssa.Function, a []Value) Value {
			k := m.str(a[0])
			if _, ok := m.classes[k]; !ok {
				m.classKeys = append(m.classKeys, k)
			}
			m.classes[k] = m.str(a[1])
			return nil
		}
		t[p+"vObserve"] = func(m *Machine, fr *Frame, fn *ssa.Function, a []Value) Value {
			m.observe(m.str(a[0]), a[1].([]Value))
			return nil
		}
		t[p+"vAnd"] = func(m *Machine, fr *Frame, fn *ssa.Function, a []Value) Value {
			return m.tf.And(boolT(a[0]), boolT(a[1]))
		}
		t[p+"vOr"] = func(m *Machine, fr *Frame, fn *ssa.Function, a []Value) Value {
			return m.tf.Or(boolT(a[0]), boolT(a[1]))
		}
		t[p+"vNot"] = func(m *Machine, fr *Frame, fn *ssa.Function, a []Value) Value {
			return m.tf.Not(boolT(a[0]))
		}
		t[p+"vImplies"] = func(m *Machine, fr *Frame, fn *ssa.Function, a []Value) Value {
			return m.tf.Or(m.tf.Not(boolT(a[0])), boolT(a[1]))
		}
		ite := func(m *Machine, fr *Frame, fn *ssa.Function, a []Value) Value {
			return m.tf.Ite(boolT(a[0]), a[1].(*Term), a[2].(*Term))
		}
		t[p+"vIteU8"] = ite
		t[p+"vIteInt"] = ite
		t[p+"vIteU32"] = ite
		t[p+"vIteI64"] = ite
		t[p+"vIteBool"] = ite
		t[p+"vEqBytes"] = func(m *Machine, fr *Frame, fn *ssa.Function, a []Value) Value {
			x, y := a[0].([]Value), a[1].([]Value)
			if len(x) != len(y) {
				return m.tf.False
			}
			r := m.tf.True
			for i := range x {
				r = m.tf.And(r, m.tf.Eq(x[i].(*Term), y[i].(*Term)))
			}
			return r
		}
		t[p+"vEqStr"] = func(m *Machine, fr *Frame, fn *ssa.Function, a []Value) Value {
			return m.strEq(a[0], a[1])
		}
		t[p+"vIsSymbolic"] = func(m *Machine, fr *Frame, fn *ssa.Function, a []Value) Value {
			return m.tf.True
		}
		t[p+"vConcrete"] = func(m *Machine, fr *Frame, fn *ssa.Function, a []Value) Value {
			// fork over every feasible value of the argument
			v := a[0].(*Term)
			c := m.concretize(fr, v, "vConcrete")
			return m.tf.Const(v.W, c)
		}
		t[p+"vSlack"] = func(m *Machine, fr *Frame, fn *ssa.Function, a []Value) Value {
			return m.tf.Const(64, 0)
		}
		t[p+"vGhostElapsed"] = func(m *Machine, fr *Frame, fn *ssa.Function, a []Value) Value {
			return m.clock
		}
		t[p+"vGhostGoroutines"] = func(m *Machine, fr *Frame, fn *ssa.Function, a []Value) Value {
			n := 0
			for _, g := range m.gs {
				if g.isLib && g.state != gDead {
					n++
				}
			}
			return m.tf.Const(64, uint64(n))
		}
		t[p+"vGhostGoroutinesNow"] = t[p+"vGhostGoroutines"]
		t[p+"vGhostSettle"] = func(m *Machine, fr *Frame, fn *ssa.Function, a []Value) Value {
			// let every other runnable goroutine run until it blocks or exits (no clock advance)
			g := m.cur
			for round := 0; round < 1000; round++ {
				other := false
				for _, x := range m.gs {
					if x != g && (x.state == gRunnable || (x.state == gBlocked && m.canProceed(x))) {
						other = true
					}
				}
				if !other {
					return nil
				}
				m.lastRun = nil
				g.state = gBlocked
				g.wait = &waitState{fired: -1, what: "settle", custom: func() bool {
					for _, x := range m.gs {
						if x != g && (x.state == gRunnable || (x.state == gBlocked && x.wait != nil && x.wait.custom == nil && m.canProceed(x))) {
							return false
						}
					}
					return true
				}}
				m.yield(g)
				g.wait = nil
			}
			return nil
		}
		// natively: one P and no GC, so that a sync.Pool hands the object just put to the next Get; the engine's pool
		// model (mode 0) does that anyway
		t[p+"vGhostPoolDeterministic"] = func(m *Machine, fr *Frame, fn *ssa.Function, a []Value) Value { return nil }
		t[p+"vGhostPoolMode"] = func(m *Machine, fr *Frame, fn *ssa.Function, a []Value) Value {
			m.pool.mode = int(m.concreteInt(fr, a[0].(*Term), "pool mode"))
			return nil
		}
		t[p+"vGhostPoolMonitor"] = func(m *Machine, fr *Frame, fn *ssa.Function, a []Value) Value {
			m.pool.monitor = a[0].(*Term).Val != 0
			return nil
		}
		t[p+"vGhostPoolViolations"] = func(m *Machine, fr *Frame, fn *ssa.Function, a []Value) Value {
			for _, v := range m.pool.violations {
				m.res.Stubs["POOL: "+v]++
			}
			if len(m.pool.violations) > 0 {
				if _, ok := m.classes["pool"]; !ok {
					m.classKeys = append(m.classKeys, "pool")
				}
				m.classes["pool"] = m.pool.kinds[0]
			}
			return m.tf.Const(64, uint64(len(m.pool.violations)))
		}
		t[p+"vGhostPooled"] = func(m *Machine, fr *Frame, fn *ssa.Function, a []Value) Value {
			iv := a[0].(IfaceV)
			if p, ok := iv.V.(*Value); ok && p != nil {
				return m.tf.Bool(m.pool.pooled[p] != nil)
			}
			return m.tf.False
		}
		t[p+"vGhostExplore"] = func(m *Machine, fr *Frame, fn *ssa.Function, a []Value) Value {
			m.exploreSched = true
			m.maxPreempt = int(m.concreteInt(fr, a[0].(*Term), "preemption bound"))
			return nil
		}
		t[p+"vGhostExploreAtomics"] = func(m *Machine, fr *Frame, fn *ssa.Function, a []Value) Value {
			m.exploreSched = true
			m.atomicOnly = true
			m.maxPreempt = int(m.concreteInt(fr, a[0].(*Term), "preemption bound"))
			return nil
		}
		t[p+"vGhostTimeSlip"] = func(m *Machine, fr *Frame, fn *ssa.Function, a []Value) Value {
			m.timeSlip = m.concreteInt(fr, a[0].(*Term), "time slip")
			return nil
		}
		t[p+"vGhostExploreOff"] = func(m *Machine, fr *Frame, fn *ssa.Function, a []Value) Value {
			m.exploreSched = false
			m.atomicOnly = false
			return nil
		}
		t[p+"vGhostAllocMax"] = func(m *Machine, fr *Frame, fn *ssa.Function, a []Value) Value {
			mx := 0
			for _, n := range m.allocLog {
				if n > mx {
					mx = n
				}
			}
			if m.symbolicAllocs > 0 {
				mx = 1 << 40 // some allocation size was a function of symbolic input
			}
			return m.tf.Const(64, uint64(mx))
		}
		t[p+"vGhostAllocGuard"] = func(m *Machine, fr *Frame, fn *ssa.Function, a []Value) Value {
			m.allocGuardID = m.str(a[0])
			m.allocGuardBound = m.concreteInt(fr, a[1].(*Term), "alloc guard bound")
			return nil
		}
		t[p+"vGhostFmtDigits"] = func(m *Machine, fr *Frame, fn *ssa.Function, a []Value) Value {
			m.fmtDigits = a[0].(*Term).Val != 0
			return nil
		}
		t[p+"vGhostAllocReset"] = func(m *Machine, fr *Frame, fn *ssa.Function, a []Value) Value {
			m.allocLog = nil
			m.symbolicAllocs = 0
			return nil
		}
		t[p+"vGhostTrackAllocs"] = func(m *Machine, fr *Frame, fn *ssa.Function, a []Value) Value {
			m.trackAllocs = true
			return nil
		}
		t[p+"vGhostAsmOOB"] = func(m *Machine, fr *Frame, fn *ssa.Function, a []Value) Value {
			return m.tf.Const(64, uint64(m.asmOOB))
		}
		t[p+"vAlign64"] = func(m *Machine, fr *Frame, fn *ssa.Function, a []Value) Value {
			s := a[0].([]Value)
			if len(s) == 0 {
				return m.tf.Const(64, 0)
			}
			_, idx, ok := m.locateElem(&s[0])
			if !ok {
				m.unsupported("vAlign64 on an untracked allocation")
			}
			return m.tf.Const(64, uint64((64-idx%64)%64))
		}
		t[p+"vEngine"] = func(m *Machine, fr *Frame, fn *ssa.Function, a []Value) Value {
			return m.tf.True
		}
		t[p+"vPoolViolations"] = func(m *Machine, fr *Frame, fn *ssa.Function, a []Value) Value {
			return m.eng.intrinsics[p+"vGhostPoolViolations"](m, fr, fn, nil)
		}
	}

	// ---------- runtime / misc ----------
	nop := func(m *Machine, fr *Frame, fn *ssa.Function, a []Value) Value { return nil }
	t["runtime.SetFinalizer"] = nop
	t["runtime.KeepAlive"] = nop
	t["runtime.GC"] = nop
	t["log.Printf"] = nop
	t["log.Println"] = nop
	t["log.Print"] = nop
	t["runtime.Gosched"] = func(m *Machine, fr *Frame, fn *ssa.Function, a []Value) Value {
		g := m.cur
		g.state = gRunnable
		m.lastRun = nil
		m.yield(g)
		return nil
	}
	t["internal/abi.NoEscape"] = func(m *Machine, fr *Frame, fn *ssa.Function, a []Value) Value { return a[0] }
	t["internal/abi.Escape"] = func(m *Machine, fr *Frame, fn *ssa.Function, a []Value) Value { return a[0] }
	t["internal/race.Enabled"] = nop
	for _, n := range []string{"Acquire", "Release", "ReleaseMerge", "Disable", "Enable", "Read", "Write", "ReadRange", "WriteRange", "Errors"} {
		t["internal/race."+n] = nop
	}
	t["internal/godebug.(*Setting).Value"] = func(m *Machine, fr *Frame, fn *ssa.Function, a []Value) Value { return "" }
	t["internal/godebug.(*Setting).IncNonDefault"] = nop
	t["internal/godebug.New"] = func(m *Machine, fr *Frame, fn *ssa.Function, a []Value) Value {
		cell := new(Value)
		*cell = m.zero(derefType(fn.Signature.Results().At(0).Type()))
		return cell
	}

	addSyncIntrinsics(t)
	addAtomicIntrinsics(t)
	addTimeIntrinsics(t)
	addFmtIntrinsics(t)
	addBytealgIntrinsics(t)
	addMiscIntrinsics(t)
	addStubIntrinsics(t)
	addStringIntrinsics(t)
	addHashIntrinsics(t)
	return t
}

// ---------- observe ----------

type observation struct {
	tag  string
	vals []Value
}

func (o observation) render(env map[string]uint64) string {
	var sb strings.Builder
	sb.WriteString(o.tag)
	sb.WriteString(":")
	for _, v := range o.vals {
		sb.WriteString(" ")
		renderVal(&sb, v, env)
	}
	return sb.String()
}

func renderVal(sb *strings.Builder, v Value, env map[string]uint64) {
	switch v := v.(type) {
	case IfaceV:
		if v.T == nil {
			sb.WriteString("nil")
			return
		}
		if w, signed, ok := intWidth(v.T); ok {
			t := v.V.(*Term)
			x := t.Eval(env)
			switch {
			case w == 0:
				fmt.Fprintf(sb, "%v", x != 0)
			case signed:
				c := Term{Op: OpConst, W: w, Val: x}
				fmt.Fprintf(sb, "%d", c.SVal())
			default:
				fmt.Fprintf(sb, "%d", x)
			}
			return
		}
		renderVal(sb, v.V, env)
	case *Term:
		fmt.Fprintf(sb, "%d", v.Eval(env))
	case string:
		fmt.Fprintf(sb, "%q", v)
	case *SymStr:
		b := make([]byte, len(v.B))
		for i, t := range v.B {
			b[i] = byte(t.Eval(env))
		}
		fmt.Fprintf(sb, "%q", string(b))
	case []Value:
		allBytes := len(v) > 0
		for _, x := range v {
			if t, ok := x.(*Term); !ok || t.W != 8 {
				allBytes = false
			}
		}
		if allBytes || len(v) == 0 {
			sb.WriteString("[")
			for i, x := range v {
				if i > 0 {
					sb.WriteString(" ")
				}
				fmt.Fprintf(sb, "%02x", x.(*Term).Eval(env))
			}
			sb.WriteString("]")
			return
		}
		sb.WriteString("[")
		for i, x := range v {
			if i > 0 {
				sb.WriteString(" ")
			}
			renderVal(sb, x, env)
		}
		sb.WriteString("]")
	default:
		fmt.Fprintf(sb, "<%T>", v)
	}
}

func (m *Machine) observe(tag string, vals []Value) {
	cp := make([]Value, len(vals))
	for i, v := range vals {
		cp[i] = snapshotVal(v)
	}
	m.observedTerms = append(m.observedTerms, observation{tag, cp})
}

func snapshotVal(v Value) Value {
	switch v := v.(type) {
	case []Value:
		cp := make([]Value, len(v))
		for i, x := range v {
			cp[i] = snapshotVal(x)
		}
		return cp
	case IfaceV:
		return IfaceV{v.T, snapshotVal(v.V)}
	}
	return copyVal(v)
}

// ---------- sync ----------

func addSyncIntrinsics(t map[string]Intrinsic) {
	t["(*sync.Mutex).Lock"] = func(m *Machine, fr *Frame, fn *ssa.Function, a []Value) Value {
		m.mutexLock(fr, a[0].(*Value))
		return nil
	}
	t["(*sync.Mutex).TryLock"] = func(m *Machine, fr *Frame, fn *ssa.Function, a []Value) Value {
		return m.tf.Bool(m.mutexTryLock(fr, a[0].(*Value)))
	}
	t["(*sync.Mutex).Unlock"] = func(m *Machine, fr *Frame, fn *ssa.Function, a []Value) Value {
		m.mutexUnlock(fr, a[0].(*Value))
		return nil
	}
	t["(*sync.RWMutex).Lock"] = t["(*sync.Mutex).Lock"]
	t["(*sync.RWMutex).Unlock"] = t["(*sync.Mutex).Unlock"]
	t["(*sync.RWMutex).RLock"] = func(m *Machine, fr *Frame, fn *ssa.Function, a []Value) Value {
		m.mutexRLock(fr, a[0].(*Value))
		return nil
	}
	t["(*sync.RWMutex).RUnlock"] = func(m *Machine, fr *Frame, fn *ssa.Function, a []Value) Value {
		m.mutexRUnlock(fr, a[0].(*Value))
		return nil
	}
	t["(*sync.Once).Do"] = func(m *Machine, fr *Frame, fn *ssa.Function, a []Value) Value {
		p := a[0].(*Value)
		tab := m.side("once")
		for {
			st, _ := tab[p].(string)
			if st == "done" {
				m.hbAcquire(p)
				return nil
			}
			if st == "" {
				break
			}
			// running in another goroutine: wait
			g := m.cur
			m.block(g, &waitState{what: "sync.Once", custom: func() bool { s, _ := tab[p].(string); return s != "running" }})
			g.wait = nil
		}
		tab[p] = "running"
		defer func() { tab[p] = "done"; m.hbRelease(p) }()
		m.call(fr, 0, a[1], nil)
		return nil
	}
	t["(*sync.WaitGroup).Add"] = func(m *Machine, fr *Frame, fn *ssa.Function, a []Value) Value {
		tab := m.side("wg")
		p := a[0].(*Value)
		n, _ := tab[p].(int64)
		n += m.concreteInt(fr, a[1].(*Term), "WaitGroup.Add")
		if n < 0 {
			m.runtimePanic(fr, "sync: negative WaitGroup counter")
		}
		tab[p] = n
		return nil
	}
	t["(*sync.WaitGroup).Done"] = func(m *Machine, fr *Frame, fn *ssa.Function, a []Value) Value {
		tab := m.side("wg")
		p := a[0].(*Value)
		n, _ := tab[p].(int64)
		n--
		if n < 0 {
			m.runtimePanic(fr, "sync: negative WaitGroup counter")
		}
		tab[p] = n
		m.hbRelease(p)
		m.syncPoint(fr)
		return nil
	}
	t["(*sync.WaitGroup).Wait"] = func(m *Machine, fr *Frame, fn *ssa.Function, a []Value) Value {
		tab := m.side("wg")
		p := a[0].(*Value)
		g := m.cur
		for {
			n, _ := tab[p].(int64)
			if n == 0 {
				m.hbAcquire(p)
				return nil
			}
			m.block(g, &waitState{what: "WaitGroup.Wait", custom: func() bool { n, _ := tab[p].(int64); return n == 0 }})
			g.wait = nil
		}
	}
	t["(*sync.Pool).Get"] = func(m *Machine, fr *Frame, fn *ssa.Function, a []Value) Value {
		m.hbAcquire(a[0].(*Value)) // a Put happens before the Get that returns its value
		return m.poolGet(fr, a[0].(*Value))
	}
	t["(*sync.Pool).Put"] = func(m *Machine, fr *Frame, fn *ssa.Function, a []Value) Value {
		m.hbRelease(a[0].(*Value))
		m.poolPut(fr, a[0].(*Value), a[1].(IfaceV))
		return nil
	}
}

func (m *Machine) side(name string) map[*Value]Value {
	tab := m.sideTables[name]
	if tab == nil {
		tab = map[*Value]Value{}
		m.sideTables[name] = tab
	}
	return tab
}

// ---------- sync.Pool model ----------

type pooledObj struct {
	v     IfaceV
	pool  *Value
	putAt string
	putBy int
}

type poolModel struct {
	mode       int // 0 LIFO hit, 1 always miss, 2 fork between miss and every pooled object
	items      map[*Value][]*pooledObj
	pooled     map[*Value]*pooledObj // object pointer -> entry while it sits in a pool
	arrays     map[*Value]*pooledObj // last cell of a backing array owned by a pooled object (one level deep) -> entry
	violations []string
	kinds      []string
	monitor    bool
}

func newPoolModel() *poolModel {
	return &poolModel{items: map[*Value][]*pooledObj{}, pooled: map[*Value]*pooledObj{}, arrays: map[*Value]*pooledObj{}}
}

func (m *Machine) poolGet(fr *Frame, pool *Value) Value {
	pm := m.pool
	items := pm.items[pool]
	pick := -1
	switch pm.mode {
	case 0:
		if len(items) > 0 {
			pick = len(items) - 1
		}
	case 1:
	case 2:
		if len(items) > 0 {
			k := m.Choose(fr, len(items)+1, "pool.Get")
			pick = k - 1
		}
	}
	if pick >= 0 {
		it := items[pick]
		pm.items[pool] = append(append([]*pooledObj{}, items[:pick]...), items[pick+1:]...)
		if p, ok := it.v.V.(*Value); ok {
			delete(pm.pooled, p)
		}
		for k, o := range pm.arrays {
			if o == it {
				delete(pm.arrays, k)
			}
		}
		return it.v
	}
	// miss: Pool.New if set
	ps := (*pool).(StructV)
	st := under(derefTypeOfPool(m)).(*types.Struct)
	for i := 0; i < st.NumFields(); i++ {
		if st.Field(i).Name() == "New" {
			if f := ps[i]; f != nil && !isNilFunc(f) {
				return m.call(fr, 0, f, nil)
			}
		}
	}
	return IfaceV{}
}

func derefTypeOfPool(m *Machine) types.Type {
	return m.eng.Pkgs["sync"].Type("Pool").Type()
}

func (m *Machine) poolPut(fr *Frame, pool *Value, x IfaceV) {
	if x.T == nil {
		return
	}
	pm := m.pool
	it := &pooledObj{v: x, pool: pool, putAt: fr.where(), putBy: m.cur.id}
	if p, ok := x.V.(*Value); ok && p != nil {
		if prev := pm.pooled[p]; prev != nil {
			pm.violations = append(pm.violations, fmt.Sprintf("double-put of %v (first at %s, again at %s)", x.T, prev.putAt, fr.where()))
			pm.kinds = append(pm.kinds, "double-put:"+x.T.String())
		}
		pm.pooled[p] = it
		// the memory the object owns goes to the pool with it: remember the backing arrays of its slice fields
		if sv, isStruct := (*p).(StructV); isStruct {
			for _, f := range sv {
				if sl, isSlice := f.([]Value); isSlice && cap(sl) > 0 {
					full := sl[:cap(sl)]
					pm.arrays[&full[len(full)-1]] = it
				}
			}
		}
	}
	pm.items[pool] = append(pm.items[pool], it)
}

// checkPooledBytes flags a read of bytes whose backing array belongs to an object that currently sits in a pool (the
// previous owner kept a slice of it: b.Bytes() of a buffer that was put back).
func (m *Machine) checkPooledBytes(fr *Frame, what string, v Value) {
	sl, ok := v.([]Value)
	if !ok || cap(sl) == 0 || !m.pool.monitor {
		return
	}
	full := sl[:cap(sl)]
	if it := m.pool.arrays[&full[len(full)-1]]; it != nil {
		m.pool.violations = append(m.pool.violations, fmt.Sprintf("use-after-put: %s reads the memory of %v that was put at %s (caller %s)", what, it.v.T, it.putAt, fr.where()))
		m.pool.kinds = append(m.pool.kinds, "use-after-put:"+it.v.T.String())
	}
}

// checkPooledReceiver flags a method call on an object that currently sits in a pool.
func (m *Machine) checkPooledReceiver(fr *Frame, fn *ssa.Function, recv Value) {
	p, ok := recv.(*Value)
	if !ok || p == nil {
		return
	}
	if it := m.pool.pooled[p]; it != nil {
		m.pool.violations = append(m.pool.violations, fmt.Sprintf("use-after-put: %s called on %v that was put at %s (caller %s)", fn.String(), it.v.T, it.putAt, fr.where()))
		m.pool.kinds = append(m.pool.kinds, "use-after-put:"+it.v.T.String())
	}
}

// ---------- sync/atomic ----------

func addAtomicIntrinsics(t map[string]Intrinsic) {
	loadFn := func(m *Machine, fr *Frame, fn *ssa.Function, a []Value) Value {
		m.syncPoint(fr)
		return load(a[0].(*Value))
	}
	storeFn := func(m *Machine, fr *Frame, fn *ssa.Function, a []Value) Value {
		store(a[0].(*Value), a[1])
		m.syncPoint(fr)
		return nil
	}
	add := func(m *Machine, fr *Frame, fn *ssa.Function, a []Value) Value {
		p := a[0].(*Value)
		n := m.tf.Add((*p).(*Term), a[1].(*Term))
		*p = n
		m.syncPoint(fr)
		return n
	}
	swap := func(m *Machine, fr *Frame, fn *ssa.Function, a []Value) Value {
		p := a[0].(*Value)
		old := load(p)
		store(p, a[1])
		m.syncPoint(fr)
		return old
	}
	cas := func(m *Machine, fr *Frame, fn *ssa.Function, a []Value) Value {
		p := a[0].(*Value)
		cur := (*p)
		var eq *Term
		switch c := cur.(type) {
		case *Term:
			eq = m.tf.Eq(c, a[1].(*Term))
		case *Value:
			eq = m.tf.Bool(c == a[1].(*Value))
		default:
			m.unsupported("CompareAndSwap on %T", cur)
		}
		if m.Decide(fr, eq) {
			store(p, a[2])
			m.syncPoint(fr)
			return m.tf.True
		}
		return m.tf.False
	}
	for _, ty := range []string{"Int32", "Int64", "Uint32", "Uint64", "Uintptr", "Pointer"} {
		t["sync/atomic.Load"+ty] = loadFn
		t["sync/atomic.Store"+ty] = storeFn
		t["sync/atomic.Swap"+ty] = swap
		t["sync/atomic.CompareAndSwap"+ty] = cas
		if ty != "Pointer" {
			t["sync/atomic.Add"+ty] = add
		}
	}
	// typed atomics: the value lives in the field named "v"
	field := func(m *Machine, p *Value, fn *ssa.Function) *Value {
		recvT := derefType(fn.Signature.Recv().Type())
		st := under(recvT).(*types.Struct)
		for i := 0; i < st.NumFields(); i++ {
			if st.Field(i).Name() == "v" {
				return &(*p).(StructV)[i]
			}
		}
		m.unsupported("atomic type without v field: %v", recvT)
		return nil
	}
	for _, ty := range []string{"Int32", "Int64", "Uint32", "Uint64", "Uintptr", "Bool", "Pointer[T]"} {
		ty := ty
		pre := "(*sync/atomic." + ty + ")."
		t[pre+"Load"] = func(m *Machine, fr *Frame, fn *ssa.Function, a []Value) Value {
			m.syncPoint(fr)
			v := load(field(m, a[0].(*Value), fn))
			if ty == "Bool" {
				return m.tf.Not(m.tf.Eq(v.(*Term), m.tf.Const(32, 0)))
			}
			return v
		}
		t[pre+"Store"] = func(m *Machine, fr *Frame, fn *ssa.Function, a []Value) Value {
			v := a[1]
			if ty == "Bool" {
				v = m.tf.Ite(v.(*Term), m.tf.Const(32, 1), m.tf.Const(32, 0))
			}
			store(field(m, a[0].(*Value), fn), v)
			m.syncPoint(fr)
			return nil
		}
		t[pre+"Swap"] = func(m *Machine, fr *Frame, fn *ssa.Function, a []Value) Value {
			f := field(m, a[0].(*Value), fn)
			old := load(f)
			v := a[1]
			if ty == "Bool" {
				v = m.tf.Ite(v.(*Term), m.tf.Const(32, 1), m.tf.Const(32, 0))
				old = m.tf.Not(m.tf.Eq(old.(*Term), m.tf.Const(32, 0)))
			}
			store(f, v)
			m.syncPoint(fr)
			return old
		}
		t[pre+"Add"] = func(m *Machine, fr *Frame, fn *ssa.Function, a []Value) Value {
			f := field(m, a[0].(*Value), fn)
			n := m.tf.Add((*f).(*Term), a[1].(*Term))
			*f = n
			m.syncPoint(fr)
			return n
		}
		t[pre+"CompareAndSwap"] = func(m *Machine, fr *Frame, fn *ssa.Function, a []Value) Value {
			f := field(m, a[0].(*Value), fn)
			old, nw := a[1], a[2]
			if ty == "Bool" {
				old = m.tf.Ite(old.(*Term), m.tf.Const(32, 1), m.tf.Const(32, 0))
				nw = m.tf.Ite(nw.(*Term), m.tf.Const(32, 1), m.tf.Const(32, 0))
			}
			var eq *Term
			switch c := (*f).(type) {
			case *Term:
				eq = m.tf.Eq(c, old.(*Term))
			case *Value:
				eq = m.tf.Bool(c == old.(*Value))
			}
			if m.Decide(fr, eq) {
				store(f, nw)
				m.syncPoint(fr)
				return m.tf.True
			}
			return m.tf.False
		}
	}
	// atomic.Value: keep the stored interface in field 0
	t["(*sync/atomic.Value).Load"] = func(m *Machine, fr *Frame, fn *ssa.Function, a []Value) Value {
		m.syncPoint(fr)
		p := a[0].(*Value)
		return load(&(*p).(StructV)[0])
	}
	t["(*sync/atomic.Value).Store"] = func(m *Machine, fr *Frame, fn *ssa.Function, a []Value) Value {
		p := a[0].(*Value)
		v := a[1].(IfaceV)
		if v.T == nil {
			m.runtimePanic(fr, "sync/atomic: store of nil value into Value")
		}
		store(&(*p).(StructV)[0], v)
		m.syncPoint(fr)
		return nil
	}
	// happens-before: every atomic operation acquires what was released on its variable; stores and
	// read-modify-write operations release (sync/atomic operations are sequentially consistent synchronisation)
	for name, f := range t {
		if !strings.HasPrefix(name, "sync/atomic.") && !strings.HasPrefix(name, "(*sync/atomic.") {
			continue
		}
		f := f
		isLoad := strings.Contains(name, "Load")
		t[name] = func(m *Machine, fr *Frame, fn *ssa.Function, a []Value) Value {
			key, _ := a[0].(*Value)
			if key != nil {
				m.hbAcquire(key)
			}
			if m.atomicOnly {
				// exploration restricted to atomic operations: a scheduling point before and after each of them (and
				// nowhere else, except where goroutines block)
				m.inAtomicOp = true
				m.syncPoint(fr)
				m.inAtomicOp = false
			}
			r := f(m, fr, fn, a)
			if m.atomicOnly {
				m.inAtomicOp = true
				m.syncPoint(fr)
				m.inAtomicOp = false
			}
			if key != nil && !isLoad {
				m.hbRelease(key)
			}
			return r
		}
	}
}

// ---------- time ----------

const ghostEpochUnix = 1_700_000_000

// wallFields: seconds and nanoseconds of the wall clock reading. With a symbolic ghost clock the wall reading is
// frozen at the epoch (dividing a symbolic 64-bit value by 1e9 is out of every solver's reach): only the monotonic
// reading advances. Go compares, subtracts and waits on monotonic readings whenever both operands carry one, which
// every time value made here does.
func (m *Machine) wallFields(clock *Term) (sec, nsec int64) {
	if clock.IsConst() {
		return clock.SVal() / 1e9, clock.SVal() % 1e9
	}
	m.res.Stubs["symbolic ghost clock: wall-clock reading frozen, monotonic reading symbolic"]++
	return 0, 0
}

func (m *Machine) timeValue(clock *Term) Value {
	const hasMonotonic = uint64(1) << 63
	s, ns := m.wallFields(clock)
	sec := int64(ghostEpochUnix) + s + 2682288000
	wall := hasMonotonic | uint64(sec)<<30 | uint64(ns)
	return StructV{m.tf.Const(64, wall), m.tf.Add(clock, m.tf.Const(64, 1)), (*Value)(nil)}
}

func addTimeIntrinsics(t map[string]Intrinsic) {
	t["time.now"] = func(m *Machine, fr *Frame, fn *ssa.Function, a []Value) Value {
		s, ns := m.wallFields(m.clock)
		return TupleV{m.tf.Const(64, uint64(int64(ghostEpochUnix)+s)), m.tf.Const(32, uint64(ns)), m.tf.Add(m.clock, m.tf.Const(64, 1))}
	}
	t["time.runtimeNano"] = func(m *Machine, fr *Frame, fn *ssa.Function, a []Value) Value {
		return m.tf.Add(m.clock, m.tf.Const(64, 1))
	}
	t["time.Sleep"] = func(m *Machine, fr *Frame, fn *ssa.Function, a []Value) Value {
		d := a[0].(*Term)
		if m.Decide(fr, m.tf.Sle(d, m.tf.Const(64, 0))) {
			return nil
		}
		g := m.cur
		until, never := m.timeAfter(fr, d)
		if never {
			m.block(g, &waitState{what: "time.Sleep(forever)", custom: func() bool { return false }})
			return nil
		}
		w := &waitState{sleepUntil: until, what: "time.Sleep"}
		for !m.sleepOver(w) {
			m.block(g, w)
			g.wait = nil
		}
		return nil
	}
	newTimerObj := func(m *Machine, fn *ssa.Function) (*Value, StructV) {
		cell := new(Value)
		tt := derefType(fn.Signature.Results().At(0).Type())
		*cell = m.zero(tt)
		return cell, (*cell).(StructV)
	}
	t["time.AfterFunc"] = func(m *Machine, fr *Frame, fn *ssa.Function, a []Value) Value {
		cell, _ := newTimerObj(m, fn)
		tm := m.addTimer(fr, a[0].(*Term), a[1], nil, cell)
		m.side("timer")[cell] = tm
		return cell
	}
	t["time.NewTimer"] = func(m *Machine, fr *Frame, fn *ssa.Function, a []Value) Value {
		cell, sv := newTimerObj(m, fn)
		st := under(derefType(fn.Signature.Results().At(0).Type())).(*types.Struct)
		var ch *ChanV
		for i := 0; i < st.NumFields(); i++ {
			if st.Field(i).Name() == "C" {
				ch = m.newChan(1, under(st.Field(i).Type()).(*types.Chan).Elem(), "timer.C")
				sv[i] = ch
			}
		}
		tm := m.addTimer(fr, a[0].(*Term), nil, ch, cell)
		m.side("timer")[cell] = tm
		return cell
	}
	t["time.After"] = func(m *Machine, fr *Frame, fn *ssa.Function, a []Value) Value {
		ch := m.newChan(1, under(fn.Signature.Results().At(0).Type()).(*types.Chan).Elem(), "time.After")
		m.addTimer(fr, a[0].(*Term), nil, ch, nil)
		return ch
	}
	t["(*time.Timer).Stop"] = func(m *Machine, fr *Frame, fn *ssa.Function, a []Value) Value {
		tm, _ := m.side("timer")[a[0].(*Value)].(*timerV)
		if tm == nil {
			m.runtimePanic(fr, "time: Stop called on uninitialized Timer")
		}
		was := tm.active
		tm.active = false
		return m.tf.Bool(was)
	}
	t["(*time.Timer).Reset"] = func(m *Machine, fr *Frame, fn *ssa.Function, a []Value) Value {
		tm, _ := m.side("timer")[a[0].(*Value)].(*timerV)
		if tm == nil {
			m.runtimePanic(fr, "time: Reset called on uninitialized Timer")
		}
		was := tm.active
		tm.when, tm.never = m.timeAfter(fr, a[1].(*Term))
		tm.active = true
		return m.tf.Bool(was)
	}
}

// ---------- errors / fmt ----------

func (m *Machine) newErrorString(s Value) Value {
	et := m.eng.Pkgs["errors"].Type("errorString").Type()
	cell := new(Value)
	*cell = StructV{s}
	return IfaceV{T: types.NewPointer(et), V: cell}
}

func (m *Machine) ptrTypeOf(pkg, name string) types.Type {
	key := pkg + "." + name
	if t, ok := m.eng.ptrTypes.Load(key); ok {
		return t.(types.Type)
	}
	t := types.NewPointer(m.eng.Pkgs[pkg].Type(name).Type())
	// canonicalise through the program's method-set machinery by always reusing one pointer type
	act, _ := m.eng.ptrTypes.LoadOrStore(key, t)
	return act.(types.Type)
}

func isErrorType(t types.Type) bool {
	return types.Implements(t, errorIface)
}

var errorIface = types.Universe.Lookup("error").Type().Underlying().(*types.Interface)

func (m *Machine) callMethod(fr *Frame, recv IfaceV, name string, args ...Value) (Value, bool) {
	if recv.T == nil {
		return nil, false
	}
	ms := m.eng.Prog.MethodSets.MethodSet(recv.T)
	var sel *types.Selection
	for i := 0; i < ms.Len(); i++ {
		if ms.At(i).Obj().Name() == name {
			sel = ms.At(i)
			break
		}
	}
	if sel == nil {
		return nil, false
	}
	f := m.eng.LookupMethod(recv.T, sel.Obj().(*types.Func))
	if f == nil {
		return nil, false
	}
	return m.callSSA(fr, 0, f, append([]Value{recv.V}, args...), nil), true
}

func (m *Machine) errorString(fr *Frame, e IfaceV) Value {
	r, ok := m.callMethod(fr, e, "Error")
	if !ok {
		return "<no Error method>"
	}
	return r
}

func (m *Machine) panicString(v Value) string {
	if iv, ok := v.(IfaceV); ok {
		if iv.T == nil {
			return "nil"
		}
		if s, ok := iv.V.(string); ok {
			return s
		}
		return fmt.Sprintf("(%v) %s", iv.T, valString(iv.V))
	}
	return valString(v)
}

// sample replaces symbolic scalars by values from one model of the path condition (representative rendering only).
func (m *Machine) sample(v Value) Value {
	switch v := v.(type) {
	case *Term:
		if v.IsConst() {
			return v
		}
		m.flushPC()
		vd, val := m.solver.ValueOf(v)
		if vd != VSat {
			return m.tf.Const(v.W, 0)
		}
		m.res.Stubs["fmt: symbolic operand rendered with a representative value"]++
		return m.tf.Const(v.W, val)
	case *SymStr:
		b := make([]byte, len(v.B))
		for i, t := range v.B {
			b[i] = byte(m.sample(t).(*Term).Val)
		}
		return string(b)
	case *SmtStr:
		m.flushPC()
		vd, val := m.solver.StrValueOf(v.T)
		if vd != VSat {
			return "?"
		}
		m.res.Stubs["fmt: symbolic operand rendered with a representative value"]++
		return val
	case StructV:
		r := make(StructV, len(v))
		for i, x := range v {
			r[i] = m.sample(x)
		}
		return r
	case IfaceV:
		return IfaceV{v.T, m.sample(v.V)}
	case []Value:
		r := make([]Value, len(v))
		for i, x := range v {
			r[i] = m.sample(x)
		}
		return r
	}
	return v
}

// formatArg renders one operand for verb.
func (m *Machine) formatArg(fr *Frame, verb byte, flags string, arg Value) string {
	iv, ok := arg.(IfaceV)
	if !ok {
		return valString(arg)
	}
	if iv.T == nil {
		if verb == 'T' {
			return "<nil>"
		}
		return "<nil>"
	}
	if verb == 'T' {
		return iv.T.String()
	}
	if t, isT := iv.V.(*Term); isT && m.fmtDigits && !t.IsConst() && t.W >= 16 && (verb == 'd' || verb == 'v') {
		if _, signed, isInt := intWidth(iv.T); isInt {
			m.splitByDigits(fr, t, signed)
		}
	}
	iv = m.sample(iv).(IfaceV)
	// error / Stringer take precedence for the string-ish verbs
	if verb == 'v' || verb == 's' || verb == 'w' || verb == 'q' {
		if isErrorType(iv.T) {
			s := m.sample(m.errorString(fr, iv))
			if verb == 'q' {
				return strconv.Quote(s.(string))
			}
			return s.(string)
		}
		if r, ok := m.callMethod(fr, iv, "String"); ok {
			if s, ok := m.sample(r).(string); ok {
				if verb == 'q' {
					return strconv.Quote(s)
				}
				return s
			}
		}
	}
	return m.formatPlain(fr, verb, flags, iv.T, iv.V)
}

func (m *Machine) formatPlain(fr *Frame, verb byte, flags string, t types.Type, v Value) string {
	switch x := v.(type) {
	case *Term:
		w, signed, _ := intWidth(t)
		if w == 0 {
			return strconv.FormatBool(x.Val != 0)
		}
		switch verb {
		case 'x':
			return strconv.FormatUint(x.Val, 16)
		case 'c':
			return string(rune(x.Val))
		case 'q':
			return strconv.QuoteRune(rune(x.Val))
		}
		if signed {
			return strconv.FormatInt(x.SVal(), 10)
		}
		return strconv.FormatUint(x.Val, 10)
	case string:
		switch verb {
		case 'q':
			return strconv.Quote(x)
		case 'x':
			return fmt.Sprintf("%x", x)
		}
		return x
	case float64:
		return fmt.Sprintf("%"+flags+string(verb), x)
	case []Value:
		if st, ok := under(t).(*types.Slice); ok {
			if eb, ok := under(st.Elem()).(*types.Basic); ok && eb.Kind() == types.Uint8 {
				b := make([]byte, len(x))
				for i, e := range x {
					b[i] = byte(e.(*Term).Val)
				}
				return fmt.Sprintf("%"+flags+string(verb), b)
			}
			var parts []string
			for _, e := range x {
				parts = append(parts, m.formatPlain(fr, verb, flags, st.Elem(), e))
			}
			return "[" + strings.Join(parts, " ") + "]"
		}
	case StructV:
		st := under(t).(*types.Struct)
		var parts []string
		for i, e := range x {
			s := m.formatPlain(fr, verb, flags, st.Field(i).Type(), e)
			if strings.Contains(flags, "+") {
				s = st.Field(i).Name() + ":" + s
			}
			parts = append(parts, s)
		}
		return "{" + strings.Join(parts, " ") + "}"
	case IfaceV:
		return m.formatArg(fr, verb, flags, x)
	case *Value:
		if x == nil {
			return "<nil>"
		}
		return "0xc000000000"
	}
	return fmt.Sprintf("<%T>", v)
}

// sprintf implements the subset of fmt verbs the interpreted code uses; returns the string and the %w operand indices.
func (m *Machine) sprintf(fr *Frame, format string, args []Value) (string, []int) {
	var sb strings.Builder
	var wrapped []int
	argi := 0
	for i := 0; i < len(format); i++ {
		c := format[i]
		if c != '%' {
			sb.WriteByte(c)
			continue
		}
		i++
		if i >= len(format) {
			sb.WriteString("%!(NOVERB)")
			break
		}
		start := i
		for i < len(format) && strings.IndexByte("+-# 0123456789.", format[i]) >= 0 {
			i++
		}
		if i >= len(format) {
			sb.WriteString("%!(NOVERB)")
			break
		}
		flags := format[start:i]
		verb := format[i]
		if verb == '%' {
			sb.WriteByte('%')
			continue
		}
		if argi >= len(args) {
			sb.WriteString("%!" + string(verb) + "(MISSING)")
			continue
		}
		if verb == 'w' {
			wrapped = append(wrapped, argi)
		}
		sb.WriteString(m.formatArg(fr, verb, flags, args[argi]))
		argi++
	}
	if argi < len(args) {
		sb.WriteString("%!(EXTRA ")
		for j := argi; j < len(args); j++ {
			if j > argi {
				sb.WriteString(", ")
			}
			sb.WriteString(m.formatArg(fr, 'v', "", args[j]))
		}
		sb.WriteString(")")
	}
	return sb.String(), wrapped
}

func addFmtIntrinsics(t map[string]Intrinsic) {
	t["fmt.Sprintf"] = func(m *Machine, fr *Frame, fn *ssa.Function, a []Value) Value {
		s, _ := m.sprintf(fr, m.str(a[0]), a[1].([]Value))
		return s
	}
	t["fmt.Errorf"] = func(m *Machine, fr *Frame, fn *ssa.Function, a []Value) Value {
		args := a[1].([]Value)
		s, wrapped := m.sprintf(fr, m.str(a[0]), args)
		var errs []Value
		for _, i := range wrapped {
			if iv, ok := args[i].(IfaceV); ok && iv.T != nil && isErrorType(iv.T) {
				errs = append(errs, iv)
			}
		}
		switch len(wrapped) {
		case 0:
			return m.newErrorString(s)
		case 1:
			var e Value = IfaceV{}
			if len(errs) == 1 {
				e = errs[0]
			}
			cell := new(Value)
			*cell = StructV{s, e}
			return IfaceV{T: m.ptrTypeOf("fmt", "wrapError"), V: cell}
		default:
			cell := new(Value)
			*cell = StructV{s, errs}
			return IfaceV{T: m.ptrTypeOf("fmt", "wrapErrors"), V: cell}
		}
	}
	sprint := func(m *Machine, fr *Frame, args []Value, spaces bool) string {
		var parts []string
		for _, x := range args {
			parts = append(parts, m.formatArg(fr, 'v', "", x))
		}
		if spaces {
			return strings.Join(parts, " ")
		}
		return strings.Join(parts, "")
	}
	t["fmt.Sprint"] = func(m *Machine, fr *Frame, fn *ssa.Function, a []Value) Value {
		return sprint(m, fr, a[0].([]Value), false)
	}
	t["fmt.Sprintln"] = func(m *Machine, fr *Frame, fn *ssa.Function, a []Value) Value {
		return sprint(m, fr, a[0].([]Value), true) + "\n"
	}
	writeTo := func(m *Machine, fr *Frame, w IfaceV, s string) Value {
		b := make([]Value, len(s))
		for i := 0; i < len(s); i++ {
			b[i] = m.tf.Const(8, uint64(s[i]))
		}
		r, ok := m.callMethod(fr, w, "Write", b)
		if !ok {
			m.unsupported("Fprint to value without Write")
		}
		return r
	}
	t["fmt.Fprintln"] = func(m *Machine, fr *Frame, fn *ssa.Function, a []Value) Value {
		return writeTo(m, fr, a[0].(IfaceV), sprint(m, fr, a[1].([]Value), true)+"\n")
	}
	t["fmt.Fprintf"] = func(m *Machine, fr *Frame, fn *ssa.Function, a []Value) Value {
		s, _ := m.sprintf(fr, m.str(a[1]), a[2].([]Value))
		return writeTo(m, fr, a[0].(IfaceV), s)
	}
	t["fmt.Fprint"] = func(m *Machine, fr *Frame, fn *ssa.Function, a []Value) Value {
		return writeTo(m, fr, a[0].(IfaceV), sprint(m, fr, a[1].([]Value), false))
	}
	t["errors.New"] = func(m *Machine, fr *Frame, fn *ssa.Function, a []Value) Value {
		return m.newErrorString(a[0])
	}
	// math: bit-level float conversions go through unsafe pointers in the real code
	t["math.Float64frombits"] = func(m *Machine, fr *Frame, fn *ssa.Function, a []Value) Value {
		return math.Float64frombits(m.concretize(fr, a[0].(*Term), "float bits"))
	}
	t["math.Float64bits"] = func(m *Machine, fr *Frame, fn *ssa.Function, a []Value) Value {
		return m.tf.Const(64, math.Float64bits(a[0].(float64)))
	}
	t["math.NaN"] = func(m *Machine, fr *Frame, fn *ssa.Function, a []Value) Value { return math.NaN() }
	t["math.Inf"] = func(m *Machine, fr *Frame, fn *ssa.Function, a []Value) Value {
		return math.Inf(int(int64(m.concretize(fr, a[0].(*Term), "sign"))))
	}
	t["errors.Is"] = func(m *Machine, fr *Frame, fn *ssa.Function, a []Value) Value {
		err, target := a[0].(IfaceV), a[1].(IfaceV)
		if err.T == nil || target.T == nil {
			return m.tf.Bool(err.T == nil && target.T == nil)
		}
		cmp := types.Comparable(target.T)
		is := m.eng.Pkgs["errors"].Func("is")
		return m.callSSA(fr, 0, is, []Value{err, target, m.tf.Bool(cmp)}, nil)
	}
	t["errors.As"] = func(m *Machine, fr *Frame, fn *ssa.Function, a []Value) Value {
		err, target := a[0].(IfaceV), a[1].(IfaceV)
		if err.T == nil {
			return m.tf.False
		}
		if target.T == nil {
			m.runtimePanic(fr, "errors: target cannot be nil")
		}
		pt, ok := under(target.T).(*types.Pointer)
		tp, _ := target.V.(*Value)
		if !ok || tp == nil {
			m.runtimePanic(fr, "errors: target must be a non-nil pointer")
		}
		return m.tf.Bool(m.errorsAs(fr, err, pt.Elem(), tp, 0))
	}
	t["errors.Unwrap"] = func(m *Machine, fr *Frame, fn *ssa.Function, a []Value) Value {
		err := a[0].(IfaceV)
		if err.T == nil {
			return IfaceV{}
		}
		if r, ok := m.unwrapOne(fr, err); ok {
			return r
		}
		return IfaceV{}
	}
}

func (m *Machine) unwrapOne(fr *Frame, err IfaceV) (IfaceV, bool) {
	ms := m.eng.Prog.MethodSets.MethodSet(err.T)
	for i := 0; i < ms.Len(); i++ {
		f := ms.At(i).Obj().(*types.Func)
		if f.Name() != "Unwrap" {
			continue
		}
		sig := f.Type().(*types.Signature)
		if sig.Params().Len() != 0 || sig.Results().Len() != 1 {
			continue
		}
		if !types.Identical(sig.Results().At(0).Type(), types.Universe.Lookup("error").Type()) {
			return IfaceV{}, false
		}
		r, _ := m.callMethod(fr, err, "Unwrap")
		return r.(IfaceV), true
	}
	return IfaceV{}, false
}

func (m *Machine) unwrapMany(fr *Frame, err IfaceV) ([]Value, bool) {
	ms := m.eng.Prog.MethodSets.MethodSet(err.T)
	for i := 0; i < ms.Len(); i++ {
		f := ms.At(i).Obj().(*types.Func)
		if f.Name() != "Unwrap" {
			continue
		}
		sig := f.Type().(*types.Signature)
		if sig.Params().Len() != 0 || sig.Results().Len() != 1 {
			continue
		}
		if _, ok := under(sig.Results().At(0).Type()).(*types.Slice); ok {
			r, _ := m.callMethod(fr, err, "Unwrap")
			return r.([]Value), true
		}
	}
	return nil, false
}

func (m *Machine) errorsAs(fr *Frame, err IfaceV, targetType types.Type, tp *Value, depth int) bool {
	if depth > 64 {
		return false
	}
	for err.T != nil {
		if ti, ok := under(targetType).(*types.Interface); ok {
			if meth, _ := types.MissingMethod(err.T, ti, true); meth == nil {
				store(tp, err)
				return true
			}
		} else if types.Identical(err.T, targetType) {
			store(tp, err.V)
			return true
		}
		if r, ok := m.callMethodIfSig(fr, err, "As", IfaceV{T: types.NewPointer(targetType), V: tp}); ok {
			if m.Decide(fr, r.(*Term)) {
				return true
			}
		}
		if next, ok := m.unwrapOne(fr, err); ok {
			err = next
			continue
		}
		if many, ok := m.unwrapMany(fr, err); ok {
			for _, e := range many {
				if ev, ok := e.(IfaceV); ok && ev.T != nil && m.errorsAs(fr, ev, targetType, tp, depth+1) {
					return true
				}
			}
		}
		return false
	}
	return false
}

func (m *Machine) callMethodIfSig(fr *Frame, recv IfaceV, name string, arg Value) (Value, bool) {
	ms := m.eng.Prog.MethodSets.MethodSet(recv.T)
	for i := 0; i < ms.Len(); i++ {
		f := ms.At(i).Obj().(*types.Func)
		if f.Name() == name {
			sig := f.Type().(*types.Signature)
			if sig.Params().Len() == 1 && sig.Results().Len() == 1 {
				return m.callMethod(fr, recv, name, arg)
			}
		}
	}
	return nil, false
}

// ---------- internal/bytealg, unicode, strconv ----------

func (m *Machine) bytesOf(v Value) []*Term {
	switch x := v.(type) {
	case []Value:
		r := make([]*Term, len(x))
		for i, e := range x {
			r[i] = e.(*Term)
		}
		return r
	case string, *SymStr:
		return m.strBytes(x)
	}
	m.unsupported("bytesOf %T", v)
	return nil
}

func addBytealgIntrinsics(t map[string]Intrinsic) {
	indexByte := func(m *Machine, fr *Frame, fn *ssa.Function, a []Value) Value {
		b := m.bytesOf(a[0])
		c := a[1].(*Term)
		for i, x := range b {
			if m.Decide(fr, m.tf.Eq(x, c)) {
				return m.tf.Const(64, uint64(i))
			}
		}
		return m.tf.Const(64, ^uint64(0))
	}
	t["internal/bytealg.IndexByte"] = indexByte
	t["internal/bytealg.IndexByteString"] = indexByte
	lastIndexByte := func(m *Machine, fr *Frame, fn *ssa.Function, a []Value) Value {
		b := m.bytesOf(a[0])
		c := a[1].(*Term)
		for i := len(b) - 1; i >= 0; i-- {
			if m.Decide(fr, m.tf.Eq(b[i], c)) {
				return m.tf.Const(64, uint64(i))
			}
		}
		return m.tf.Const(64, ^uint64(0))
	}
	t["internal/bytealg.LastIndexByte"] = lastIndexByte
	t["internal/bytealg.LastIndexByteString"] = lastIndexByte
	count := func(m *Machine, fr *Frame, fn *ssa.Function, a []Value) Value {
		b := m.bytesOf(a[0])
		c := a[1].(*Term)
		n := m.tf.Const(64, 0)
		for _, x := range b {
			n = m.tf.Add(n, m.tf.Ite(m.tf.Eq(x, c), m.tf.Const(64, 1), m.tf.Const(64, 0)))
		}
		return n
	}
	t["internal/bytealg.Count"] = count
	t["internal/bytealg.CountString"] = count
	t["internal/bytealg.Equal"] = func(m *Machine, fr *Frame, fn *ssa.Function, a []Value) Value {
		x, y := m.bytesOf(a[0]), m.bytesOf(a[1])
		if len(x) != len(y) {
			return m.tf.False
		}
		r := m.tf.True
		for i := range x {
			r = m.tf.And(r, m.tf.Eq(x[i], y[i]))
		}
		return r
	}
	t["bytes.Equal"] = t["internal/bytealg.Equal"]
	index := func(m *Machine, fr *Frame, fn *ssa.Function, a []Value) Value {
		h, n := m.bytesOf(a[0]), m.bytesOf(a[1])
		for i := 0; i+len(n) <= len(h); i++ {
			eq := m.tf.True
			for j := range n {
				eq = m.tf.And(eq, m.tf.Eq(h[i+j], n[j]))
			}
			if m.Decide(fr, eq) {
				return m.tf.Const(64, uint64(i))
			}
		}
		return m.tf.Const(64, ^uint64(0))
	}
	t["internal/bytealg.Index"] = index
	t["internal/bytealg.IndexString"] = index
	t["internal/bytealg.Cutover"] = func(m *Machine, fr *Frame, fn *ssa.Function, a []Value) Value {
		return m.tf.Const(64, 1<<30)
	}
	t["internal/bytealg.MakeNoZero"] = func(m *Machine, fr *Frame, fn *ssa.Function, a []Value) Value {
		n := int(m.concreteInt(fr, a[0].(*Term), "MakeNoZero"))
		if n > m.maxAlloc {
			panic(pathAbort{"budget", "MakeNoZero exceeds allocation bound"})
		}
		s := make([]Value, n)
		z := m.tf.Const(8, 0)
		for i := range s {
			s[i] = z
		}
		m.noteAllocSlice(fr, s, types.Typ[types.Uint8])
		return s
	}
	t["internal/bytealg.Compare"] = func(m *Machine, fr *Frame, fn *ssa.Function, a []Value) Value {
		x, y := m.bytesOf(a[0]), m.bytesOf(a[1])
		n := len(x)
		if len(y) < n {
			n = len(y)
		}
		for i := 0; i < n; i++ {
			if m.Decide(fr, m.tf.Eq(x[i], y[i])) {
				continue
			}
			if m.Decide(fr, m.tf.Ult(x[i], y[i])) {
				return m.tf.Const(64, ^uint64(0))
			}
			return m.tf.Const(64, 1)
		}
		switch {
		case len(x) < len(y):
			return m.tf.Const(64, ^uint64(0))
		case len(x) > len(y):
			return m.tf.Const(64, 1)
		}
		return m.tf.Const(64, 0)
	}
	// unicode on (assumed) ASCII when symbolic
	asciiOnly := func(m *Machine, fr *Frame, r *Term) {
		if !r.IsConst() {
			m.AssumeInternal(fr, m.tf.Ult(r, m.tf.Const(32, 0x80)), "ascii-only unicode classification of symbolic rune")
		}
	}
	t["unicode.IsSpace"] = func(m *Machine, fr *Frame, fn *ssa.Function, a []Value) Value {
		r := a[0].(*Term)
		if r.IsConst() {
			return m.tf.Bool(unicode.IsSpace(rune(r.SVal())))
		}
		asciiOnly(m, fr, r)
		c := func(v uint64) *Term { return m.tf.Eq(r, m.tf.Const(32, v)) }
		return m.tf.Or(m.tf.Or(m.tf.Or(c('\t'), c('\n')), m.tf.Or(c('\v'), c('\f'))), m.tf.Or(c('\r'), c(' ')))
	}
	lower := func(m *Machine, fr *Frame, r *Term) *Term {
		isUp := m.tf.And(m.tf.Ule(m.tf.Const(32, 'A'), r), m.tf.Ule(r, m.tf.Const(32, 'Z')))
		return m.tf.Ite(isUp, m.tf.Add(r, m.tf.Const(32, 32)), r)
	}
	upper := func(m *Machine, fr *Frame, r *Term) *Term {
		isLo := m.tf.And(m.tf.Ule(m.tf.Const(32, 'a'), r), m.tf.Ule(r, m.tf.Const(32, 'z')))
		return m.tf.Ite(isLo, m.tf.Sub(r, m.tf.Const(32, 32)), r)
	}
	t["unicode.ToLower"] = func(m *Machine, fr *Frame, fn *ssa.Function, a []Value) Value {
		r := a[0].(*Term)
		if r.IsConst() {
			return m.tf.Const(32, uint64(unicode.ToLower(rune(r.SVal()))))
		}
		asciiOnly(m, fr, r)
		return lower(m, fr, r)
	}
	t["unicode.ToUpper"] = func(m *Machine, fr *Frame, fn *ssa.Function, a []Value) Value {
		r := a[0].(*Term)
		if r.IsConst() {
			return m.tf.Const(32, uint64(unicode.ToUpper(rune(r.SVal()))))
		}
		asciiOnly(m, fr, r)
		return upper(m, fr, r)
	}
	t["unicode.SimpleFold"] = func(m *Machine, fr *Frame, fn *ssa.Function, a []Value) Value {
		r := a[0].(*Term)
		if r.IsConst() {
			return m.tf.Const(32, uint64(unicode.SimpleFold(rune(r.SVal()))))
		}
		asciiOnly(m, fr, r)
		isUp := m.tf.And(m.tf.Ule(m.tf.Const(32, 'A'), r), m.tf.Ule(r, m.tf.Const(32, 'Z')))
		return m.tf.Ite(isUp, m.tf.Add(r, m.tf.Const(32, 32)), upper(m, fr, r))
	}
	for _, n := range []string{"IsUpper", "IsLower", "IsLetter", "IsDigit", "IsPrint", "IsControl", "IsPunct"} {
		n := n
		t["unicode."+n] = func(m *Machine, fr *Frame, fn *ssa.Function, a []Value) Value {
			r := a[0].(*Term)
			if !r.IsConst() {
				m.unsupported("unicode.%s on symbolic rune", n)
			}
			x := rune(r.SVal())
			var b bool
			switch n {
			case "IsUpper":
				b = unicode.IsUpper(x)
			case "IsLower":
				b = unicode.IsLower(x)
			case "IsLetter":
				b = unicode.IsLetter(x)
			case "IsDigit":
				b = unicode.IsDigit(x)
			case "IsPrint":
				b = unicode.IsPrint(x)
			case "IsControl":
				b = unicode.IsControl(x)
			case "IsPunct":
				b = unicode.IsPunct(x)
			}
			return m.tf.Bool(b)
		}
	}
	// strconv
	t["strconv.Itoa"] = func(m *Machine, fr *Frame, fn *ssa.Function, a []Value) Value {
		v := m.concreteInt(fr, a[0].(*Term), "strconv.Itoa operand")
		return strconv.Itoa(int(v))
	}
	t["strconv.FormatInt"] = func(m *Machine, fr *Frame, fn *ssa.Function, a []Value) Value {
		v := m.sample(a[0]).(*Term)
		base := m.concreteInt(fr, a[1].(*Term), "FormatInt base")
		return strconv.FormatInt(v.SVal(), int(base))
	}
	t["strconv.Quote"] = func(m *Machine, fr *Frame, fn *ssa.Function, a []Value) Value {
		return strconv.Quote(m.sample(a[0]).(string))
	}
	t["strconv.Atoi"] = func(m *Machine, fr *Frame, fn *ssa.Function, a []Value) Value {
		s, ok := a[0].(string)
		if !ok {
			return notHandled // byte-symbolic input: interpret the real strconv.Atoi
		}
		v, err := strconv.Atoi(s)
		if err != nil {
			return TupleV{m.tf.Const(64, 0), m.newErrorString(err.Error())}
		}
		return TupleV{m.tf.Const(64, uint64(v)), IfaceV{}}
	}
}

func sortedKeys(mp map[string]int) []string {
	var ks []string
	for k := range mp {
		ks = append(ks, k)
	}
	sort.Strings(ks)
	return ks
}

func nativeUFBool(name string, args []string) (bool, bool) {
	switch name {
	case "urlParseFails":
		_, err := url.Parse(args[0])
		return err != nil, true
	case "match":
		ok, _ := filepath.Match(args[0], args[1])
		return ok, true
	case "matchBadPattern":
		_, err := filepath.Match(args[0], "")
		return err != nil, true
	case "b64Decodes":
		_, err := base64.StdEncoding.DecodeString(args[0])
		return err == nil, true
	case "b64Is16Bytes":
		v, err := base64.StdEncoding.DecodeString(args[0])
		return err == nil && len(v) == 16, true
	}
	return false, false
}

// splitByDigits forks the path on the number of decimal digits (and the sign) of a symbolic integer about to be rendered
// by fmt, so that the length of the rendered text is exact on every resulting path; the digits themselves are those of a
// representative value of the class.
func (m *Machine) splitByDigits(fr *Frame, t *Term, signed bool) {
	x := t
	if signed {
		if m.Decide(fr, m.tf.Slt(t, m.tf.Const(t.W, 0))) {
			x = m.tf.Neg(t)
		}
	}
	pow := uint64(10)
	for k := 1; k < 20; k++ {
		if t.W < 64 && pow >= uint64(1)<<t.W {
			return
		}
		if m.Decide(fr, m.tf.Ult(x, m.tf.Const(t.W, pow))) {
			return
		}
		if pow > (1<<63)/5 { // 10^19 does not fit below 2^64 * ... : the last class is open-ended
			return
		}
		pow *= 10
	}
}

// sleepOver tells whether a sleeper's instant has been reached: chosen by advanceClock, or (all-concrete) passed.
func (m *Machine) sleepOver(w *waitState) bool {
	if w.woken {
		return true
	}
	if w.sleepUntil.IsConst() && m.clock.IsConst() {
		return m.clock.SVal() >= w.sleepUntil.SVal()
	}
	return false
}
