package main

// Path exploration: decisions, path condition, assertions, work-list, workers.

import (
	"fmt"
	"io"
	"math/rand"
	"os"
	"sort"
	"strings"
	"sync"
	"time"

	"golang.org/x/tools/go/ssa"
)

type Decision struct {
	Kind   byte   // 'b' symbolic branch, 'v' value pick (Val; Taken=1: equal), 'c' n-way choice
	Taken  int    // b/v: 1/0 ; c: chosen index
	N      int    // c: number of alternatives
	Val    uint64 // v
	Forced bool   // only one side was feasible (no alternative queued)
}

func (d Decision) String() string {
	switch d.Kind {
	case 'b':
		return fmt.Sprintf("b%d", d.Taken)
	case 'v':
		return fmt.Sprintf("v%d=%d", d.Taken, d.Val)
	default:
		return fmt.Sprintf("c%d/%d", d.Taken, d.N)
	}
}

type Violation struct {
	ID        string            `json:"id"`
	Harness   string            `json:"harness"`
	Msg       string            `json:"msg,omitempty"`
	Where     string            `json:"where,omitempty"`
	Class     string            `json:"class"`
	Model     map[string]uint64 `json:"model"`
	StrModel  map[string]string `json:"str_model,omitempty"`
	Choices   []int             `json:"choices,omitempty"` // non-solver decisions (select/scheduler) along the path
	Decisions string            `json:"decisions"`
	Kind      string            `json:"kind"`                   // assert | panic | hang
	UF        bool              `json:"uf_dependent,omitempty"` // path used uninterpreted stand-ins: the model may not be realisable natively
	ND        int               `json:"nd_choices,omitempty"`
	Confirmed string            `json:"confirmed,omitempty"`
	ReplayOut string            `json:"replay_out,omitempty"`
}

type Inconclusive struct {
	ID     string `json:"id"`
	Reason string `json:"reason"`
	Where  string `json:"where,omitempty"`
}

type Witness struct {
	Model       map[string]uint64 `json:"model"`
	StrModel    map[string]string `json:"str_model,omitempty"`
	Observed    []string          `json:"observed"`
	Reached     []string          `json:"reached"`
	Choices     []int             `json:"choices,omitempty"`
	Symbolic    bool              `json:"symbolic"`
	NDChoices   int               `json:"nd_choices"`   // select / scheduler choices on the path: the native run may legitimately differ
	UFDependent bool              `json:"uf_dependent"` // the path used uninterpreted stand-ins for stdlib functions
}

// PathResult is what one completed path reports back.
type PathResult struct {
	End          string // done | infeasible | assume | budget | unsupported | hang | panic | engine-panic
	Msg          string
	Steps        int64
	Decisions    int
	Asserts      int
	AssertsConc  int // assertions whose condition was concretely true
	Discharged   int
	Violations   []Violation
	Inconclusive []Inconclusive
	Reached      []string
	Classes      map[string]string
	Witness      *Witness
	Funcs        map[*ssa.Function]int64
	ForkSites    map[string]int
	Concretised  []string
	Stubs        map[string]int
	Alts         [][]Decision
	Elapsed      int64
}

type Config struct {
	Harness      string // function name in package websocket (or wsjson.<name>)
	Workers      int
	MaxSteps     int64
	MaxAlloc     int
	MaxPaths     int
	SolverMs     int
	Deadline     time.Time
	Seed         int64
	Trace        bool
	WitnessEvery int // sample a witness model every n-th completed path (0 = never)
	Params       map[string]int64
	Solver       SolverKind
	Raw          bool
}

type Explorer struct {
	eng *Engine
	cfg Config
	fn  *ssa.Function

	mu       sync.Mutex
	cond     *sync.Cond
	stack    [][]Decision
	busy     int
	started  int
	stopped  bool
	stopWhy  string
	Results  Summary
	pathSeq  int
	traceOut io.Writer
}

type Summary struct {
	Paths        int
	Ends         map[string]int
	EndMsgs      map[string]int
	Steps        int64
	Decisions    int64
	Asserts      int
	AssertsConc  int
	Discharged   int
	Violations   []Violation
	Inconclusive []Inconclusive
	Reached      map[string]int
	Witnesses    []Witness
	Funcs        map[*ssa.Function]int64
	ForkSites    map[string]int
	Concretised  map[string]int
	Stubs        map[string]int
	Queries      int
	Sat          int
	Unsat        int
	Unknown      int
	SolverErrors int
	SolverTime   time.Duration
	Truncated    string
	MaxDepth     int
}

func NewExplorer(eng *Engine, cfg Config) (*Explorer, error) {
	pkgPath, name := "nhooyr.io/websocket", cfg.Harness
	if i := strings.Index(cfg.Harness, "."); i >= 0 {
		if cfg.Harness[:i] == "wsjson" {
			pkgPath = "nhooyr.io/websocket/wsjson"
		}
		name = cfg.Harness[i+1:]
	}
	fn := eng.FindFunc(pkgPath, name)
	if fn == nil {
		return nil, fmt.Errorf("harness function %s not found in %s", name, pkgPath)
	}
	ex := &Explorer{eng: eng, cfg: cfg, fn: fn}
	ex.cond = sync.NewCond(&ex.mu)
	ex.Results = Summary{Ends: map[string]int{}, EndMsgs: map[string]int{}, Reached: map[string]int{}, Funcs: map[*ssa.Function]int64{},
		ForkSites: map[string]int{}, Concretised: map[string]int{}, Stubs: map[string]int{}}
	ex.stack = [][]Decision{nil}
	return ex, nil
}

func (ex *Explorer) Run() {
	var wg sync.WaitGroup
	n := ex.cfg.Workers
	if n < 1 {
		n = 1
	}
	for i := 0; i < n; i++ {
		wg.Add(1)
		go func(id int) {
			defer wg.Done()
			ex.worker(id)
		}(i)
	}
	wg.Wait()
}

func (ex *Explorer) worker(id int) {
	solver, err := NewSolver(ex.cfg.Solver, ex.cfg.SolverMs)
	if err != nil {
		ex.mu.Lock()
		ex.stopped, ex.stopWhy = true, "cannot start solver: "+err.Error()
		ex.cond.Broadcast()
		ex.mu.Unlock()
		return
	}
	defer func() {
		ex.mu.Lock()
		ex.Results.Queries += solver.Queries
		ex.Results.Sat += solver.Sat
		ex.Results.Unsat += solver.Unsat
		ex.Results.Unknown += solver.Unknown
		ex.Results.SolverErrors += solver.Errors
		ex.Results.SolverTime += solver.Time
		ex.mu.Unlock()
		solver.Close()
	}()
	for {
		ex.mu.Lock()
		for len(ex.stack) == 0 && ex.busy > 0 && !ex.stopped {
			ex.cond.Wait()
		}
		if ex.stopped || len(ex.stack) == 0 {
			ex.cond.Broadcast()
			ex.mu.Unlock()
			return
		}
		if ex.cfg.MaxPaths > 0 && ex.started >= ex.cfg.MaxPaths {
			ex.stopped, ex.stopWhy = true, fmt.Sprintf("path limit %d reached with %d prefixes pending", ex.cfg.MaxPaths, len(ex.stack))
			ex.cond.Broadcast()
			ex.mu.Unlock()
			return
		}
		if !ex.cfg.Deadline.IsZero() && time.Now().After(ex.cfg.Deadline) {
			ex.stopped, ex.stopWhy = true, fmt.Sprintf("time limit reached with %d prefixes pending", len(ex.stack))
			ex.cond.Broadcast()
			ex.mu.Unlock()
			return
		}
		prefix := ex.stack[len(ex.stack)-1]
		ex.stack = ex.stack[:len(ex.stack)-1]
		ex.busy++
		ex.started++
		seq := ex.pathSeq
		ex.pathSeq++
		ex.mu.Unlock()

		if solver.dead {
			solver.Close()
			solver, _ = NewSolver(ex.cfg.Solver, ex.cfg.SolverMs)
		}
		wantWitness := ex.cfg.WitnessEvery > 0 && seq%ex.cfg.WitnessEvery == 0
		res := runPath(ex.eng, ex.cfg, ex.fn, prefix, solver, wantWitness, seq)

		ex.mu.Lock()
		ex.busy--
		ex.merge(res)
		for _, a := range res.Alts {
			ex.stack = append(ex.stack, a)
		}
		ex.cond.Broadcast()
		ex.mu.Unlock()
	}
}

func (ex *Explorer) merge(r *PathResult) {
	s := &ex.Results
	s.Paths++
	s.Ends[r.End]++
	if r.End != "done" && r.End != "infeasible" && r.End != "assume" {
		k := r.End + ": " + r.Msg
		if len(k) > 600 {
			k = k[:600]
		}
		s.EndMsgs[k]++
	}
	s.Steps += r.Steps
	s.Decisions += int64(r.Decisions)
	if r.Decisions > s.MaxDepth {
		s.MaxDepth = r.Decisions
	}
	s.Asserts += r.Asserts
	s.AssertsConc += r.AssertsConc
	s.Discharged += r.Discharged
	s.Violations = append(s.Violations, r.Violations...)
	s.Inconclusive = append(s.Inconclusive, r.Inconclusive...)
	for _, id := range r.Reached {
		s.Reached[id]++
	}
	if r.Witness != nil && len(s.Witnesses) < 64 {
		s.Witnesses = append(s.Witnesses, *r.Witness)
	}
	for f, n := range r.Funcs {
		s.Funcs[f] += n
	}
	for k, n := range r.ForkSites {
		s.ForkSites[k] += n
	}
	for _, c := range r.Concretised {
		s.Concretised[c]++
	}
	for k, n := range r.Stubs {
		s.Stubs[k] += n
	}
}

// ---------- Machine: state of one path ----------

type Machine struct {
	race      raceState
	fmtDigits bool // fork on the digit count of symbolic integers rendered by fmt
	eng       *Engine
	cfg       Config
	tf        *TermFactory
	solver    *Solver

	prefix []Decision
	pos    int
	log    []Decision
	alts   [][]Decision

	pc     []*Term
	pcSent int

	res *PathResult

	steps    int64
	maxSteps int64
	maxAlloc int

	constCache  map[*ssa.Const]Value
	fnInfoCache map[*ssa.Function]*fnInfo
	globals     map[*ssa.Global]*Value
	globalSet   map[*ssa.Global]bool
	initDone    map[*ssa.Package]bool
	initRunning map[*ssa.Package]bool

	// scheduler
	gs       []*G
	cur      *G
	yieldCh  chan *G
	nextGID  int
	nextCh   int
	clock    *Term // ghost clock in ns (64-bit term; constant unless symbolic durations are in play)
	timers   []*timerV
	aborting bool

	// inputs
	inputs    []*Term
	strInputs []*Term
	tagCount  map[string]int
	observed  []string
	reached   map[string]bool
	classes   map[string]string
	classKeys []string

	// ghost state
	pool       *poolModel
	mutexes    map[*Value]*mutexState
	elemOwner  map[*Value]sliceRef
	allocLog   []int
	writesLog  []string
	sideTables map[string]map[*Value]Value
	choices    []int

	trace  bool
	traceW io.Writer

	harnessName string
	ended       bool

	abort           *pathAbort
	goPanic         *targetPanic
	goPanicG        *G
	exploreSched    bool
	lastRun         *G
	preemptions     int
	maxPreempt      int
	atomicOnly      bool // exploration mode restricted to scheduling points around sync/atomic operations
	inAtomicOp      bool
	yieldAtSync     bool // the goroutine that just yielded did so at a synchronisation point (not by blocking)
	timeSlip        int64 // exploration mode: a timer due within this many ns may fire at any scheduling point (real time passes while code runs)
	slips           int
	observedTerms   []observation
	lazyAddr        map[*Value]*ssa.Global
	namedErrs       map[string]Value
	initDepth       int
	seq             int
	allocs          []sliceRef
	asmOOB          int
	trackAllocs     bool
	ndChoices       int
	symbolicAllocs  int
	ghostAssert     bool
	allocGuardID    string
	allocGuardBound int64
	freshCount      int
	trimCache       map[*Term]*Term
	trimCacheSet    map[string]map[*Term]*Term
	splitCache      map[string][]*Term
	ufCount         int
}

type sliceRef struct {
	s   []Value
	off int
}

func runPath(eng *Engine, cfg Config, fn *ssa.Function, prefix []Decision, solver *Solver, wantWitness bool, seq int) (res *PathResult) {
	solver.ResetScope()
	m := &Machine{eng: eng, cfg: cfg, tf: NewTermFactory(), solver: solver, prefix: prefix,
		res:         &PathResult{Classes: map[string]string{}, Funcs: map[*ssa.Function]int64{}, ForkSites: map[string]int{}, Stubs: map[string]int{}},
		maxSteps:    cfg.MaxSteps,
		maxAlloc:    cfg.MaxAlloc,
		constCache:  map[*ssa.Const]Value{},
		fnInfoCache: map[*ssa.Function]*fnInfo{},
		globals:     map[*ssa.Global]*Value{},
		globalSet:   map[*ssa.Global]bool{},
		initDone:    map[*ssa.Package]bool{},
		initRunning: map[*ssa.Package]bool{},
		yieldCh:     make(chan *G),
		tagCount:    map[string]int{},
		reached:     map[string]bool{},
		classes:     map[string]string{},
		mutexes:     map[*Value]*mutexState{},
		elemOwner:   map[*Value]sliceRef{},
		sideTables:  map[string]map[*Value]Value{},
		lazyAddr:    map[*Value]*ssa.Global{},
		namedErrs:   map[string]Value{},
		trimCache:   map[*Term]*Term{},
		splitCache:  map[string][]*Term{},
		trace:       cfg.Trace,
		traceW:      os.Stderr,
		harnessName: cfg.Harness,
	}
	m.clock = m.tf.Const(64, 0)
	m.pool = newPoolModel()
	m.raceInit()
	m.race.on = cfg.Params["norace"] != 1
	m.seq = seq
	m.tf.Raw = cfg.Raw || cfg.Params["raw"] == 1
	if m.maxSteps == 0 {
		m.maxSteps = 20_000_000
	}
	if m.maxAlloc == 0 {
		m.maxAlloc = 1 << 20
	}
	res = m.res
	end, msg := m.runMain(fn)
	if m.race.checked > 0 {
		m.res.Stubs["race detector: loads/stores made while several goroutines exist, checked against happens-before"] += m.race.checked
	}
	if len(m.race.reports) > 0 && end != "infeasible" && end != "assume" {
		if model, smodel, ok := m.pathModel(); ok {
			m.recordViolation(nil, cfg.Harness+".race", "race", strings.Join(m.race.reports, "; "), model, smodel)
		}
	}
	res.End, res.Msg = end, msg
	res.Steps = m.steps
	res.Decisions = len(m.log)
	res.Alts = m.alts
	if m.clock.IsConst() {
		res.Elapsed = m.clock.SVal()
	} else {
		res.Elapsed = -1
	}
	for id := range m.reached {
		res.Reached = append(res.Reached, id)
	}
	sort.Strings(res.Reached)
	if end == "done" && wantWitness {
		m.makeWitness()
	}
	return res
}

// ---------- path condition ----------

func (m *Machine) addPC(t *Term) {
	if t.IsConst() {
		if t.Val == 0 {
			panic(pathAbort{"infeasible", "false added to path condition"})
		}
		return
	}
	m.pc = append(m.pc, t)
}

func (m *Machine) flushPC() {
	for ; m.pcSent < len(m.pc); m.pcSent++ {
		m.solver.Assert(m.pc[m.pcSent])
	}
}

func (m *Machine) inPrefix() bool { return m.pos < len(m.prefix) }

func (m *Machine) forkSite(fr *Frame) {
	w := "?"
	if fr != nil {
		w = fr.where()
	}
	m.res.ForkSites[w]++
}

const maxDecisions = 4000

func (m *Machine) pushAlt(d Decision) {
	alt := make([]Decision, len(m.log)+1)
	copy(alt, m.log)
	alt[len(m.log)] = d
	m.alts = append(m.alts, alt)
}

// Decide resolves a boolean term to a concrete outcome, forking when both outcomes are feasible.
func (m *Machine) Decide(fr *Frame, cond *Term) bool {
	if cond.IsConst() {
		return cond.Val != 0
	}
	if len(m.log) > maxDecisions {
		panic(pathAbort{"budget", "decision budget exceeded"})
	}
	if m.inPrefix() {
		d := m.prefix[m.pos]
		m.pos++
		if d.Kind != 'b' {
			panic(pathAbort{"engine-panic", fmt.Sprintf("replay divergence: expected %c decision, got branch at %s", d.Kind, fr.where())})
		}
		d.Forced = true // alternatives of replayed decisions are owned by the path that created them
		m.log = append(m.log, d)
		if d.Taken == 1 {
			m.addPC(cond)
			return true
		}
		m.addPC(m.tf.Not(cond))
		return false
	}
	m.flushPC()
	vt := m.solver.CheckWith(cond)
	feasT := vt != VUnsat
	feasF := true
	if feasT {
		vf := m.solver.CheckWith(m.tf.Not(cond))
		feasF = vf != VUnsat
		if vf == VUnknown {
			m.noteUnknown(fr, "branch feasibility")
		}
	}
	if vt == VUnknown {
		m.noteUnknown(fr, "branch feasibility")
	}
	switch {
	case feasT && feasF:
		m.forkSite(fr)
		m.pushAlt(Decision{Kind: 'b', Taken: 0})
		m.log = append(m.log, Decision{Kind: 'b', Taken: 1})
		m.addPC(cond)
		return true
	case feasT:
		m.log = append(m.log, Decision{Kind: 'b', Taken: 1, Forced: true})
		m.addPC(cond)
		return true
	default:
		m.log = append(m.log, Decision{Kind: 'b', Taken: 0, Forced: true})
		m.addPC(m.tf.Not(cond))
		return false
	}
}

func (m *Machine) noteUnknown(fr *Frame, what string) {
	w := ""
	if fr != nil {
		w = fr.where()
	}
	m.res.Inconclusive = append(m.res.Inconclusive, Inconclusive{ID: m.harnessName + ".solver", Reason: "solver unknown on " + what + ": " + m.solver.lastError, Where: w})
}

// Choose forks n ways without consulting the solver (select cases, scheduler, pool hits).
func (m *Machine) Choose(fr *Frame, n int, what string) int {
	if n <= 1 {
		return 0
	}
	if what == "select" || what == "sched" || what == "pool.Get" {
		m.ndChoices++
	}
	if m.inPrefix() {
		d := m.prefix[m.pos]
		m.pos++
		if d.Kind != 'c' || d.N != n {
			panic(pathAbort{"engine-panic", fmt.Sprintf("replay divergence: expected %s, got choice of %d (%s)", d, n, what)})
		}
		d.Forced = true
		m.log = append(m.log, d)
		m.choices = append(m.choices, d.Taken)
		return d.Taken
	}
	m.res.ForkSites["choice:"+what]++
	for i := n - 1; i >= 1; i-- {
		m.pushAlt(Decision{Kind: 'c', Taken: i, N: n})
	}
	m.log = append(m.log, Decision{Kind: 'c', Taken: 0, N: n})
	m.choices = append(m.choices, 0)
	return 0
}

// concretize forks over the feasible values of t.
func (m *Machine) concretize(fr *Frame, t *Term, what string) uint64 {
	for {
		if t.IsConst() {
			return t.Val
		}
		if len(m.log) > maxDecisions {
			panic(pathAbort{"budget", "decision budget exceeded"})
		}
		if m.inPrefix() {
			d := m.prefix[m.pos]
			m.pos++
			if d.Kind != 'v' {
				panic(pathAbort{"engine-panic", fmt.Sprintf("replay divergence: expected %c, got value pick (%s) at %s", d.Kind, what, fr.where())})
			}
			d.Forced = true
			m.log = append(m.log, d)
			c := m.tf.Const(t.W, d.Val)
			if d.Taken == 1 {
				m.addPC(m.tf.Eq(t, c))
				return d.Val
			}
			m.addPC(m.tf.Not(m.tf.Eq(t, c)))
			continue
		}
		m.flushPC()
		v, val := m.solver.ValueOf(t)
		if v == VUnsat {
			panic(pathAbort{"infeasible", "no value for " + what})
		}
		if v == VUnknown {
			m.noteUnknown(fr, "value pick for "+what)
			panic(pathAbort{"unsupported", "solver unknown while concretising " + what})
		}
		c := m.tf.Const(t.W, val)
		eq := m.tf.Eq(t, c)
		other := m.solver.CheckWith(m.tf.Not(eq))
		if other != VUnsat {
			m.forkSite(fr)
			m.pushAlt(Decision{Kind: 'v', Taken: 0, Val: val})
			m.log = append(m.log, Decision{Kind: 'v', Taken: 1, Val: val})
		} else {
			m.log = append(m.log, Decision{Kind: 'v', Taken: 1, Val: val, Forced: true})
		}
		m.addPC(eq)
		return val
	}
}

func (m *Machine) concreteInt(fr *Frame, t *Term, what string) int64 {
	if t.IsConst() {
		return t.SVal()
	}
	v := m.concretize(fr, t, what)
	return m.tf.Const(t.W, v).SVal()
}

func (m *Machine) concreteIntSigned(fr *Frame, t *Term, signed bool, what string) int64 {
	v := m.concretize(fr, t, what)
	c := m.tf.Const(t.W, v)
	if signed {
		return c.SVal()
	}
	return int64(c.Val)
}

func (m *Machine) concreteIntBounded(fr *Frame, t *Term, what string, lo, hi int64) int64 {
	return m.concreteInt(fr, t, what)
}

// AssumeInternal adds an engine-side assumption (recorded as part of the claim).
func (m *Machine) AssumeInternal(fr *Frame, c *Term, why string) {
	if c.IsConst() && c.Val != 0 {
		return
	}
	m.res.Stubs["assume:"+why]++
	m.Assume(fr, c)
}

func (m *Machine) Assume(fr *Frame, c *Term) {
	if c.IsConst() {
		if c.Val == 0 {
			panic(pathAbort{"assume", "assumption false"})
		}
		return
	}
	if !m.inPrefix() {
		m.flushPC()
		v := m.solver.CheckWith(c)
		if v == VUnsat {
			panic(pathAbort{"assume", "assumption infeasible"})
		}
		if v == VUnknown {
			m.noteUnknown(fr, "assume")
		}
	}
	m.addPC(c)
}

func (m *Machine) classString() string {
	var parts []string
	for _, k := range m.classKeys {
		parts = append(parts, k+"="+m.classes[k])
	}
	return strings.Join(parts, " ")
}

func (m *Machine) allInputs() []*Term {
	return append(append([]*Term{}, m.inputs...), m.strInputs...)
}

func (m *Machine) decisionString() string {
	var sb strings.Builder
	for i, d := range m.log {
		if i > 0 {
			sb.WriteByte(' ')
		}
		sb.WriteString(d.String())
		if sb.Len() > 2000 {
			sb.WriteString(" …")
			break
		}
	}
	return sb.String()
}

// Assert checks an obligation on the current path.
func (m *Machine) Assert(fr *Frame, cond *Term, id string) {
	if m.inPrefix() {
		// already decided by the path that owns this prefix (same path condition at this point)
		if !cond.IsConst() {
			m.addPC(cond)
		} else if cond.Val == 0 {
			panic(pathAbort{"assume", "after replayed violation"})
		}
		return
	}
	m.res.Asserts++
	if cond.IsConst() && cond.Val != 0 {
		m.res.AssertsConc++
		m.res.Discharged++
		return
	}
	m.flushPC()
	neg := m.tf.Not(cond)
	v, model, smodel := m.solver.ModelWith(neg, m.allInputs())
	switch v {
	case VUnsat:
		m.res.Discharged++
	case VUnknown:
		m.res.Inconclusive = append(m.res.Inconclusive, Inconclusive{ID: id, Reason: "solver unknown on assertion: " + m.solver.lastError, Where: fr.where()})
	case VSat:
		kind := "assert"
		if m.ghostAssert {
			kind = "ghost" // decided on engine-side ghost state: a native replay cannot observe it
		}
		m.recordViolation(fr, id, kind, "", model, smodel)
	}
	if cond.IsConst() {
		panic(pathAbort{"assume", "after violation"})
	}
	// continue under the assumption that the assertion held, to enumerate further classes
	if v == VSat {
		if m.solver.CheckWith(cond) == VUnsat {
			panic(pathAbort{"assume", "after violation"})
		}
	}
	m.addPC(cond)
}

func (m *Machine) recordViolation(fr *Frame, id, kind, msg string, model map[string]uint64, smodel map[string]string) {
	w := ""
	if fr != nil {
		w = fr.where()
	}
	m.res.Violations = append(m.res.Violations, Violation{ID: id, Harness: m.harnessName, Msg: msg, Where: w, Class: m.classString(),
		Model: model, StrModel: smodel, Choices: append([]int{}, m.choices...), Decisions: m.decisionString(), Kind: kind, UF: m.ufCount > 0, ND: m.ndChoices})
}

// pathModel returns a model of the current path condition.
func (m *Machine) pathModel() (map[string]uint64, map[string]string, bool) {
	m.flushPC()
	v, model, smodel := m.solver.ModelWith(nil, m.allInputs())
	if v != VSat {
		return nil, nil, false
	}
	if model == nil {
		model = map[string]uint64{}
	}
	return model, smodel, true
}

func (m *Machine) makeWitness() {
	m.flushPC()
	// randomise the witness: greedily pin groups of inputs to random values while the path stays satisfiable
	rng := rand.New(rand.NewSource(m.cfg.Seed*1000003 + int64(m.seq)))
	s := m.solver
	s.send("(push 1)")
	ins := m.inputs
	for i := 0; i < len(ins) && i < 600; {
		group := 6
		if i < 24 {
			group = 1
		}
		j := i + group
		if j > len(ins) {
			j = len(ins)
		}
		var conj *Term = m.tf.True
		for _, v := range ins[i:j] {
			var r uint64
			switch rng.Intn(4) {
			case 0:
				r = uint64(rng.Intn(4))
			case 1:
				r = ^uint64(0) - uint64(rng.Intn(3))
			default:
				r = rng.Uint64()
			}
			conj = m.tf.And(conj, m.tf.Eq(v, m.tf.Const(v.W, r)))
		}
		if s.CheckWith(conj) == VSat {
			s.Assert(conj)
		}
		i = j
	}
	v, model, smodel := s.ModelWith(nil, m.allInputs())
	s.send("(pop 1)")
	if v != VSat {
		return
	}
	if model == nil {
		model = map[string]uint64{}
	}
	w := &Witness{Model: model, StrModel: smodel, Choices: append([]int{}, m.choices...), Symbolic: len(m.inputs)+len(m.strInputs) > 0, NDChoices: m.ndChoices, UFDependent: m.ufCount > 0}
	env := model
	for _, o := range m.observedTerms {
		w.Observed = append(w.Observed, o.render(env))
	}
	for id := range m.reached {
		w.Reached = append(w.Reached, id)
	}
	sort.Strings(w.Reached)
	m.res.Witness = w
}
