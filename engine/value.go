package main

// Runtime values of the symbolic interpreter: concrete shape, symbolic scalars.

import (
	"fmt"
	"go/types"
	"strings"

	"golang.org/x/tools/go/ssa"
)

// Value is one of:
//
//	*Term                      bool / integer scalar (concrete constant or symbolic)
//	float64                    floating point (concrete only)
//	string                     concrete string
//	*SymStr                    string of concrete length with symbolic bytes
//	*SmtStr                    unbounded SMT string (handshake harnesses)
//	*Value                     pointer (nil pointer: (*Value)(nil)); also unsafe.Pointer
//	[]Value                    slice
//	ArrayV, StructV            aggregates (copied on load/store)
//	IfaceV                     interface value (T == nil: nil interface)
//	*ssa.Function, *ClosureV, *ssa.Builtin   function values
//	*MapV, *ChanV              reference types
//	TupleV                     multiple results
type Value interface{}

type ArrayV []Value
type StructV []Value
type TupleV []Value

type IfaceV struct {
	T types.Type
	V Value
}

type ClosureV struct {
	Fn  *ssa.Function
	Env []Value
}

// BoundIntrinsic is a function value implemented by the engine (e.g. a context.CancelFunc surrogate).
type BoundIntrinsic struct {
	Name string
	Fn   func(m *Machine, fr *Frame, args []Value) Value
}

type SymStr struct {
	B []*Term // each 8 bits
}

type SmtStr struct {
	T *Term // sort String
}

type mapEntry struct {
	k, v    Value
	deleted bool
}

type MapV struct {
	kt      types.Type
	entries []*mapEntry
}

type ChanV struct {
	id     int
	cap    int
	buf    []Value
	closed bool
	elem   types.Type
	name   string
	// happens-before bookkeeping (race detection)
	bufVC    []VC
	recvHist []VC
	sendN    int
	closeVC  VC
}

func (c *ChanV) String() string { return fmt.Sprintf("chan#%d", c.id) }

// ---------- type helpers ----------

func isNamedOrAlias(t types.Type) bool {
	switch t.(type) {
	case *types.Named, *types.Alias:
		return true
	}
	return false
}

func under(t types.Type) types.Type { return t.Underlying() }

// intWidth returns bit width and signedness of integer-like basic types (bool: w=0).
func intWidth(t types.Type) (w uint8, signed bool, ok bool) {
	b, isb := under(t).(*types.Basic)
	if !isb {
		return 0, false, false
	}
	switch b.Kind() {
	case types.Bool, types.UntypedBool:
		return 0, false, true
	case types.Int8:
		return 8, true, true
	case types.Int16:
		return 16, true, true
	case types.Int32, types.UntypedRune:
		return 32, true, true
	case types.Int, types.Int64, types.UntypedInt:
		return 64, true, true
	case types.Uint8:
		return 8, false, true
	case types.Uint16:
		return 16, false, true
	case types.Uint32:
		return 32, false, true
	case types.Uint, types.Uint64, types.Uintptr:
		return 64, false, true
	}
	return 0, false, false
}

func isString(t types.Type) bool {
	b, ok := under(t).(*types.Basic)
	return ok && b.Info()&types.IsString != 0
}

func isFloat(t types.Type) bool {
	b, ok := under(t).(*types.Basic)
	return ok && b.Info()&types.IsFloat != 0
}

func derefType(t types.Type) types.Type {
	if p, ok := under(t).(*types.Pointer); ok {
		return p.Elem()
	}
	panic(fmt.Sprintf("deref of non-pointer type %v", t))
}

// zero returns the zero value of type t.
func (m *Machine) zero(t types.Type) Value {
	switch t := t.(type) {
	case *types.Basic:
		if t.Kind() == types.UnsafePointer {
			return (*Value)(nil)
		}
		if t.Kind() == types.UntypedNil {
			panic("zero of untyped nil")
		}
		if w, _, ok := intWidth(t); ok {
			return m.tf.Const(w, 0)
		}
		if t.Info()&types.IsString != 0 {
			return ""
		}
		if t.Info()&types.IsFloat != 0 {
			return float64(0)
		}
		if t.Info()&types.IsComplex != 0 {
			return complex128(0)
		}
		panic(fmt.Sprintf("zero: unsupported basic %v", t))
	case *types.Pointer:
		return (*Value)(nil)
	case *types.Array:
		a := make(ArrayV, t.Len())
		if t.Len() > 0 {
			z := m.zero(t.Elem())
			if isImmutableValue(z) {
				for i := range a {
					a[i] = z
				}
			} else {
				a[0] = z
				for i := 1; i < len(a); i++ {
					a[i] = m.zero(t.Elem())
				}
			}
		}
		return a
	case *types.Named:
		return m.zero(t.Underlying())
	case *types.Alias:
		return m.zero(types.Unalias(t))
	case *types.Interface:
		return IfaceV{}
	case *types.Slice:
		return []Value(nil)
	case *types.Struct:
		s := make(StructV, t.NumFields())
		for i := range s {
			s[i] = m.zero(t.Field(i).Type())
		}
		return s
	case *types.Tuple:
		if t.Len() == 1 {
			return m.zero(t.At(0).Type())
		}
		s := make(TupleV, t.Len())
		for i := range s {
			s[i] = m.zero(t.At(i).Type())
		}
		return s
	case *types.Chan:
		return (*ChanV)(nil)
	case *types.Map:
		return (*MapV)(nil)
	case *types.Signature:
		return (*ssa.Function)(nil)
	}
	panic(fmt.Sprintf("zero: unexpected type %T %v", t, t))
}

func isImmutableValue(v Value) bool {
	switch v.(type) {
	case ArrayV, StructV:
		return false
	}
	return true
}

// copyVal makes the deep copy required by value semantics of arrays and structs.
func copyVal(v Value) Value {
	switch v := v.(type) {
	case ArrayV:
		a := make(ArrayV, len(v))
		for i, x := range v {
			a[i] = copyVal(x)
		}
		return a
	case StructV:
		s := make(StructV, len(v))
		for i, x := range v {
			s[i] = copyVal(x)
		}
		return s
	case IfaceV:
		switch v.V.(type) {
		case ArrayV, StructV:
			return IfaceV{v.T, copyVal(v.V)}
		}
		return v
	}
	return v
}

// load / store through a pointer slot. Aggregates are stored in place so that element
// pointers (&s.f, &a[i]) previously taken stay valid, exactly as in go/ssa/interp.
func load(addr *Value) Value {
	return copyVal(*addr)
}

func store(addr *Value, v Value) {
	switch dst := (*addr).(type) {
	case ArrayV:
		src := v.(ArrayV)
		for i := range dst {
			store(&dst[i], src[i])
		}
		return
	case StructV:
		src := v.(StructV)
		for i := range dst {
			store(&dst[i], src[i])
		}
		return
	}
	*addr = copyVal(v)
}

// ---------- debugging ----------

func valString(v Value) string {
	var sb strings.Builder
	writeVal(&sb, v, 0)
	return sb.String()
}

func writeVal(sb *strings.Builder, v Value, depth int) {
	if depth > 3 {
		sb.WriteString("…")
		return
	}
	switch v := v.(type) {
	case nil:
		sb.WriteString("<nil>")
	case *Term:
		sb.WriteString(v.String())
	case string:
		fmt.Fprintf(sb, "%q", v)
	case *SymStr:
		fmt.Fprintf(sb, "symstr[%d]", len(v.B))
	case *SmtStr:
		fmt.Fprintf(sb, "smtstr(%s)", v.T)
	case *Value:
		if v == nil {
			sb.WriteString("nilptr")
		} else {
			fmt.Fprintf(sb, "&%p", v)
		}
	case []Value:
		fmt.Fprintf(sb, "slice[%d/%d]{", len(v), cap(v))
		for i, x := range v {
			if i > 8 {
				sb.WriteString("…")
				break
			}
			if i > 0 {
				sb.WriteString(" ")
			}
			writeVal(sb, x, depth+1)
		}
		sb.WriteString("}")
	case ArrayV:
		fmt.Fprintf(sb, "array[%d]", len(v))
	case StructV:
		sb.WriteString("struct{")
		for i, x := range v {
			if i > 0 {
				sb.WriteString(", ")
			}
			writeVal(sb, x, depth+1)
		}
		sb.WriteString("}")
	case TupleV:
		sb.WriteString("(")
		for i, x := range v {
			if i > 0 {
				sb.WriteString(", ")
			}
			writeVal(sb, x, depth+1)
		}
		sb.WriteString(")")
	case IfaceV:
		if v.T == nil {
			sb.WriteString("iface(nil)")
		} else {
			fmt.Fprintf(sb, "iface(%v: ", v.T)
			writeVal(sb, v.V, depth+1)
			sb.WriteString(")")
		}
	case *ssa.Function:
		if v == nil {
			sb.WriteString("nilfunc")
		} else {
			sb.WriteString(v.String())
		}
	case *ClosureV:
		sb.WriteString("closure " + v.Fn.String())
	case *MapV:
		if v == nil {
			sb.WriteString("nilmap")
		} else {
			fmt.Fprintf(sb, "map[%d]", len(v.entries))
		}
	case *ChanV:
		if v == nil {
			sb.WriteString("nilchan")
		} else {
			sb.WriteString(v.String())
		}
	default:
		fmt.Fprintf(sb, "%T", v)
	}
}
