package main

// Native replay: the harness is compiled with the real package (go test -overlay, nothing is
// written into the repository) and run with the solver's values; only what reproduces is reported.

import (
	"bytes"
	"encoding/json"
	"fmt"
	"os"
	"os/exec"
	"path/filepath"
	"regexp"
	"sort"
	"strconv"
	"strings"
	"sync"
)

type ReplayCase struct {
	Name    string              `json:"name"`
	Fn      string              `json:"fn"`
	Vals    map[string][]uint64 `json:"vals"`
	Strs    map[string][]string `json:"strs"`
	Params  map[string]int64    `json:"params"`
	Repeat  int                 `json:"repeat"`            // >1: statistical replay for schedule/select-dependent cases
	WantID  string              `json:"want_id,omitempty"` // stop repeating once this failure id shows up
	Timeout int                 `json:"timeout_s"`
	Race    bool                `json:"race,omitempty"` // run under the Go race detector; a report confirms the case
}

type ReplayResult struct {
	Name     string
	Ran      bool
	Failures []string
	Panic    string
	Hang     bool
	Short    bool
	Observed []string
	Reached  []string
	Iter     int
	Raw      string
	Race     bool   // the Go race detector reported a data race in this case's process
	RaceText string // beginning of its first report
}

// modelToVals turns {"tag#k": v} into tag -> ordered values.
func modelToVals(model map[string]uint64) map[string][]uint64 {
	type kv struct {
		k int
		v uint64
	}
	tmp := map[string][]kv{}
	for name, v := range model {
		i := strings.LastIndex(name, "#")
		if i < 0 {
			continue
		}
		k, err := strconv.Atoi(name[i+1:])
		if err != nil {
			continue
		}
		tmp[name[:i]] = append(tmp[name[:i]], kv{k, v})
	}
	out := map[string][]uint64{}
	for tag, l := range tmp {
		sort.Slice(l, func(i, j int) bool { return l[i].k < l[j].k })
		vs := make([]uint64, 0, len(l))
		for i, e := range l {
			for len(vs) < e.k && i >= 0 {
				vs = append(vs, 0)
			}
			vs = append(vs, e.v)
		}
		out[tag] = vs
	}
	return out
}

func goLit(vals map[string][]uint64) string {
	var keys []string
	for k := range vals {
		keys = append(keys, k)
	}
	sort.Strings(keys)
	var sb strings.Builder
	sb.WriteString("map[string][]uint64{")
	for _, k := range keys {
		fmt.Fprintf(&sb, "%q: {", k)
		for i, v := range vals[k] {
			if i > 0 {
				sb.WriteString(",")
			}
			fmt.Fprintf(&sb, "%d", v)
		}
		sb.WriteString("}, ")
	}
	sb.WriteString("}")
	return sb.String()
}

func strsLit(strs map[string][]string) string {
	var keys []string
	for k := range strs {
		keys = append(keys, k)
	}
	sort.Strings(keys)
	var sb strings.Builder
	sb.WriteString("map[string][]string{")
	for _, k := range keys {
		fmt.Fprintf(&sb, "%q: {", k)
		for i, v := range strs[k] {
			if i > 0 {
				sb.WriteString(",")
			}
			fmt.Fprintf(&sb, "%q", v)
		}
		sb.WriteString("}, ")
	}
	sb.WriteString("}")
	return sb.String()
}

// strModelToVals turns {"tag#k": s} into tag -> ordered strings.
func strModelToVals(model map[string]string) map[string][]string {
	type kv struct {
		k int
		v string
	}
	tmp := map[string][]kv{}
	for name, v := range model {
		i := strings.LastIndex(name, "#")
		if i < 0 {
			continue
		}
		k, err := strconv.Atoi(name[i+1:])
		if err != nil {
			continue
		}
		tmp[name[:i]] = append(tmp[name[:i]], kv{k, v})
	}
	out := map[string][]string{}
	for tag, l := range tmp {
		sort.Slice(l, func(i, j int) bool { return l[i].k < l[j].k })
		var vs []string
		for _, e := range l {
			for len(vs) < e.k {
				vs = append(vs, "")
			}
			vs = append(vs, e.v)
		}
		out[tag] = vs
	}
	return out
}

func paramsLit(p map[string]int64) string {
	var keys []string
	for k := range p {
		keys = append(keys, k)
	}
	sort.Strings(keys)
	var sb strings.Builder
	sb.WriteString("map[string]int{")
	for _, k := range keys {
		fmt.Fprintf(&sb, "%q: %d, ", k, p[k])
	}
	sb.WriteString("}")
	return sb.String()
}

const replayTmpl = `package %s

import (
	"encoding/json"
	"fmt"
	"os"
	"sort"
	"testing"
	"time"
)

type vReplayCaseT struct {
	name    string
	fn      func()
	vals    map[string][]uint64
	strs    map[string][]string
	params  map[string]int
	repeat  int
	wantID  string
	timeout int
}

func TestVerifReplay(t *testing.T) {
	cases := []vReplayCaseT{
%s
	}
	only := os.Getenv("VERIF_CASE")
	for _, c := range cases {
		if only != "" && c.name != only {
			continue
		}
		var last string
		for it := 0; it < c.repeat; it++ {
			vParams = c.params
			vReset(c.vals)
			vResetStrs(c.strs)
			done := make(chan string, 1)
			go func() {
				defer func() {
					if r := recover(); r != nil {
						if _, ok := r.(vAssumeViolated); ok {
							done <- "assume"
							return
						}
						done <- fmt.Sprintf("panic: %%v", r)
						return
					}
					done <- ""
				}()
				c.fn()
			}()
			pan, hang := "", false
			select {
			case pan = <-done:
			case <-time.After(time.Duration(c.timeout) * time.Second):
				hang = true
			}
			var reached []string
			for k := range vReachedIDs {
				reached = append(reached, k)
			}
			sort.Strings(reached)
			out := map[string]any{"name": c.name, "failures": vFailures, "panic": pan, "hang": hang, "short": vReplayShort,
				"observed": vObserved, "reached": reached, "iter": it}
			b, _ := json.Marshal(out)
			last = string(b)
			hit := hang || (pan != "" && pan != "assume")
			for _, f := range vFailures {
				if c.wantID == "" || f == c.wantID {
					hit = true
				}
			}
			if hit || hang {
				break
			}
		}
		fmt.Println("VERIF-CASE " + last)
	}
}
`

// RunReplays compiles the harness package natively and runs the given cases. pkgSub is "" or "wsjson".
func RunReplays(repo, harnessDir, pkgSub string, cases []ReplayCase, keepDir string, excluded []string) (map[string]*ReplayResult, string, error) {
	if len(cases) == 0 {
		return map[string]*ReplayResult{}, "", nil
	}
	dir, err := os.MkdirTemp("", "verif-replay-")
	if err != nil {
		return nil, "", err
	}
	defer os.RemoveAll(dir)
	pkgName := "websocket"
	pkgDir := repo
	if pkgSub == "wsjson" {
		pkgName = "wsjson"
		pkgDir = filepath.Join(repo, "wsjson")
	}
	var sb strings.Builder
	for _, c := range cases {
		rep := c.Repeat
		if rep < 1 {
			rep = 1
		}
		to := c.Timeout
		if to < 1 {
			to = 20
		}
		fn := c.Fn
		if i := strings.Index(fn, "."); i >= 0 {
			fn = fn[i+1:]
		}
		fmt.Fprintf(&sb, "\t\t{name: %q, fn: %s, vals: %s, strs: %s, params: %s, repeat: %d, wantID: %q, timeout: %d},\n",
			c.Name, fn, goLit(c.Vals), strsLit(c.Strs), paramsLit(c.Params), rep, c.WantID, to)
	}
	tmpl := replayTmpl
	if pkgSub == "wsjson" {
		r := strings.NewReplacer(
			"vParams = c.params", "websocket.VerifSetParams(c.params)",
			"vReset(c.vals)", "websocket.VerifReset(c.vals)",
			"vResetStrs(c.strs)", "websocket.VerifResetStrs(c.strs)",
			"_, ok := r.(vAssumeViolated); ok", "websocket.VerifIsAssumeViolated(r)",
			"range vReachedIDs", "range websocket.VerifReached()",
			"range vFailures", "range websocket.VerifFailures()",
			"\"failures\": vFailures", "\"failures\": websocket.VerifFailures()",
			"vReplayShort", "websocket.VerifReplayShort()",
			"\"observed\": vObserved", "\"observed\": websocket.VerifObserved()",
			"\t\"time\"\n)", "\t\"time\"\n\n\t\"nhooyr.io/websocket\"\n)",
		)
		tmpl = r.Replace(tmpl)
	}
	src := fmt.Sprintf(tmpl, pkgName, sb.String())
	testFile := filepath.Join(dir, "zz_verif_replay_test.go")
	if err := os.WriteFile(testFile, []byte(src), 0o644); err != nil {
		return nil, "", err
	}
	ov, err := overlayFiles(repo, harnessDir, false)
	if err != nil {
		return nil, "", err
	}
	replace := map[string]string{}
	for virt, real := range ov {
		skip := false
		for _, x := range excluded {
			if filepath.Base(virt) == x {
				skip = true
			}
		}
		if !skip {
			replace[virt] = real
		}
	}
	replace[filepath.Join(pkgDir, "zz_verif_replay_test.go")] = testFile
	// hide the repository's own test files of that package (faster build, no TestMain leak check)
	ents, _ := os.ReadDir(pkgDir)
	for _, e := range ents {
		if strings.HasSuffix(e.Name(), "_test.go") {
			replace[filepath.Join(pkgDir, e.Name())] = ""
		}
	}
	ovb, _ := json.Marshal(map[string]interface{}{"Replace": replace})
	ovFile := filepath.Join(dir, "overlay.json")
	if err := os.WriteFile(ovFile, ovb, 0o644); err != nil {
		return nil, "", err
	}
	// build the test binary once, then run every case in its own process, several at a time
	bin := filepath.Join(dir, "replay.test")
	env := append(os.Environ(), "GOFLAGS=-mod=mod", "GOPROXY=off", "GOSUMDB=off", "GOTOOLCHAIN=local")
	build := exec.Command("go", "test", "-c", "-o", bin, "-vet=off", "-overlay", ovFile, ".")
	build.Dir = pkgDir
	build.Env = env
	var out bytes.Buffer
	bo, runErr := build.CombinedOutput()
	out.Write(bo)
	raceBin := ""
	for _, c := range cases {
		if c.Race && runErr == nil && raceBin == "" {
			raceBin = filepath.Join(dir, "replay.race.test")
			rb := exec.Command("go", "test", "-race", "-c", "-o", raceBin, "-vet=off", "-overlay", ovFile, ".")
			rb.Dir = pkgDir
			rb.Env = env
			if o, err := rb.CombinedOutput(); err != nil {
				out.Write(o)
				raceBin = ""
				break
			}
		}
	}
	raceSeen := map[string]string{}
	if runErr == nil {
		var mu sync.Mutex
		var wg sync.WaitGroup
		sem := make(chan struct{}, 8)
		for _, c := range cases {
			c := c
			to := c.Timeout
			if to < 1 {
				to = 20
			}
			rep := c.Repeat
			if rep < 1 {
				rep = 1
			}
			wg.Add(1)
			sem <- struct{}{}
			go func() {
				defer wg.Done()
				defer func() { <-sem }()
				useBin := bin
				if c.Race && raceBin != "" {
					useBin = raceBin
				}
				cmd := exec.Command(useBin, "-test.run", "^TestVerifReplay$", "-test.v", "-test.timeout", fmt.Sprintf("%ds", to*rep+60))
				cmd.Dir = pkgDir
				cmd.Env = append(append([]string{}, env...), "VERIF_CASE="+c.Name)
				o, err := cmd.CombinedOutput()
				mu.Lock()
				out.Write(o)
				if i := bytes.Index(o, []byte("WARNING: DATA RACE")); i >= 0 && c.Race {
					raceSeen[c.Name] = truncate(string(o[i:]), 1500)
				}
				if !bytes.Contains(o, []byte("VERIF-CASE")) && os.Getenv("SYMGO_DEBUG") != "" {
					fmt.Fprintf(os.Stderr, "replay case %s produced no result: err=%v\n%s\n", c.Name, err, tail(string(o), 1500))
				}
				mu.Unlock()
			}()
		}
		wg.Wait()
	}
	res := map[string]*ReplayResult{}
	re := regexp.MustCompile(`(?m)^VERIF-CASE (.*)$`)
	for _, mm := range re.FindAllStringSubmatch(out.String(), -1) {
		var o struct {
			Name     string   `json:"name"`
			Failures []string `json:"failures"`
			Panic    string   `json:"panic"`
			Hang     bool     `json:"hang"`
			Short    bool     `json:"short"`
			Observed []string `json:"observed"`
			Reached  []string `json:"reached"`
			Iter     int      `json:"iter"`
		}
		if err := json.Unmarshal([]byte(mm[1]), &o); err != nil {
			if os.Getenv("SYMGO_DEBUG") != "" {
				fmt.Fprintf(os.Stderr, "replay result line does not parse: %v: %s\n", err, truncate(mm[1], 400))
			}
			continue
		}
		res[o.Name] = &ReplayResult{Name: o.Name, Ran: true, Failures: o.Failures, Panic: o.Panic, Hang: o.Hang, Short: o.Short,
			Observed: o.Observed, Reached: o.Reached, Iter: o.Iter, Raw: mm[1]}
	}
	for name, txt := range raceSeen {
		if res[name] == nil {
			res[name] = &ReplayResult{Name: name, Ran: true}
		}
		res[name].Race = true
		res[name].RaceText = txt
	}
	if os.Getenv("SYMGO_DEBUG") != "" {
		fmt.Fprintf(os.Stderr, "replay: %d cases, %d result lines, %d parsed\n", len(cases), len(re.FindAllStringSubmatch(out.String(), -1)), len(res))
		for _, c := range cases {
			if res[c.Name] == nil {
				fmt.Fprintf(os.Stderr, "  missing %s (%s)\n", c.Name, c.Fn)
			}
		}
	}
	if keepDir != "" {
		os.MkdirAll(keepDir, 0o755)
		os.WriteFile(filepath.Join(keepDir, "zz_verif_replay_test.go"), []byte(src), 0o644)
		os.WriteFile(filepath.Join(keepDir, "replay_output.txt"), out.Bytes(), 0o644)
	}
	if len(res) == 0 && runErr != nil {
		return res, out.String(), fmt.Errorf("replay build/run failed: %v", runErr)
	}
	return res, out.String(), nil
}

// ReplayStored runs the test file kept in a replay directory against the repository with the harness overlay.
func ReplayStored(repo, harnessDir, dir string) (string, error) {
	src, err := os.ReadFile(filepath.Join(dir, "zz_verif_replay_test.go"))
	if err != nil {
		return "", err
	}
	pkgDir := repo
	if strings.HasPrefix(string(src), "package wsjson") {
		pkgDir = filepath.Join(repo, "wsjson")
	}
	tmp, err := os.MkdirTemp("", "verif-replay-")
	if err != nil {
		return "", err
	}
	defer os.RemoveAll(tmp)
	testFile := filepath.Join(tmp, "zz_verif_replay_test.go")
	os.WriteFile(testFile, src, 0o644)
	ov, _ := overlayFiles(repo, harnessDir, false)
	replace := map[string]string{}
	for virt, real := range ov {
		replace[virt] = real
	}
	replace[filepath.Join(pkgDir, "zz_verif_replay_test.go")] = testFile
	ents, _ := os.ReadDir(pkgDir)
	for _, e := range ents {
		if strings.HasSuffix(e.Name(), "_test.go") {
			replace[filepath.Join(pkgDir, e.Name())] = ""
		}
	}
	ovb, _ := json.Marshal(map[string]interface{}{"Replace": replace})
	ovFile := filepath.Join(tmp, "overlay.json")
	os.WriteFile(ovFile, ovb, 0o644)
	cmd := exec.Command("go", "test", "-v", "-vet=off", "-count=1", "-overlay", ovFile, "-run", "^TestVerifReplay$", ".")
	cmd.Dir = pkgDir
	cmd.Env = append(os.Environ(), "GOFLAGS=-mod=mod", "GOPROXY=off", "GOSUMDB=off", "GOTOOLCHAIN=local")
	out, _ := cmd.CombinedOutput()
	return string(out), nil
}
