package main

// Globals, package initialisation, bookkeeping, reporting.

import (
	"fmt"
	"go/types"
	"strings"

	"golang.org/x/tools/go/ssa"
)

// Packages whose synthetic init function is executed (lazily, on first touch of one of their globals).
var initWhitelist = map[string]bool{
	"nhooyr.io/websocket":                   true,
	"nhooyr.io/websocket/wsjson":            true,
	"nhooyr.io/websocket/internal/bpool":    true,
	"nhooyr.io/websocket/internal/errd":     true,
	"nhooyr.io/websocket/internal/util":     true,
	"nhooyr.io/websocket/internal/xsync":    true,
	"io":                                    true,
	"bufio":                                 true,
	"bytes":                                 true,
	"strings":                               true,
	"context":                               true,
	"compress/flate":                        true,
	"unicode/utf8":                          true,
	"math/bits":                             true,
	"net/textproto":                         true,
	"encoding/base64":                       true,
	"sort":                                  true,
	"slices":                                true,
	"internal/stringslite":                  true,
	"internal/bytealg":                      true,
	"vendor/golang.org/x/net/http/httpguts": true,
	"net/url":                               true,
}

// Packages whose globals may be read as zero values without running their init (no initialiser matters to us).
var zeroOKPackages = map[string]bool{
	"encoding/binary":  true,
	"time":             true,
	"errors":           true,
	"sync":             true,
	"sync/atomic":      true,
	"internal/race":    true,
	"internal/godebug": true,
	"runtime":          true,
	"unicode":          false,
}

func (m *Machine) globalAddr(fr *Frame, g *ssa.Global) *Value {
	if cell, ok := m.globals[g]; ok {
		return cell
	}
	pkg := g.Pkg
	path := pkg.Pkg.Path()
	if initWhitelist[path] && !m.initDone[pkg] {
		m.runInit(fr, pkg)
		if cell, ok := m.globals[g]; ok {
			return cell
		}
	}
	cell := new(Value)
	*cell = m.zero(derefType(g.Type()))
	m.globals[g] = cell
	if !initWhitelist[path] && !zeroOKPackages[path] {
		if sp := m.specialGlobal(g); sp != nil {
			*cell = sp
		} else {
			m.lazyAddr[cell] = g
		}
	}
	return cell
}

func (m *Machine) runInit(fr *Frame, pkg *ssa.Package) {
	if m.initDone[pkg] {
		return
	}
	initFn := pkg.Func("init")
	if initFn == nil || initFn.Blocks == nil {
		return
	}
	m.initDepth++
	m.callSSA(fr, 0, initFn, nil, nil)
	m.initDepth--
}

// specialGlobal supplies values for a few globals of packages whose init is not executed.
func (m *Machine) specialGlobal(g *ssa.Global) Value {
	switch g.Pkg.Pkg.Path() + "." + g.Name() {
	case "net.ErrClosed":
		if p := m.eng.Pkgs["internal/poll"]; p != nil {
			if t := p.Type("errNetClosing"); t != nil {
				return IfaceV{T: t.Type(), V: StructV{}}
			}
		}
	case "path/filepath.ErrBadPattern", "path.ErrBadPattern":
		return m.namedError(g)
	case "strconv.ErrSyntax", "strconv.ErrRange", "io/fs.ErrClosed", "os.ErrDeadlineExceeded", "net/http.ErrBodyReadAfterClose", "net/http.ErrUseLastResponse",
		"net/http.ErrNoLocation", "net/http.ErrNotSupported":
		return m.namedError(g)
	}
	return nil
}

func (m *Machine) namedError(g *ssa.Global) Value {
	key := g.Pkg.Pkg.Path() + "." + g.Name()
	if v, ok := m.namedErrs[key]; ok {
		return v
	}
	v := m.newErrorString(key)
	m.namedErrs[key] = v
	return v
}

func (m *Machine) checkLazyGlobalRead(fr *Frame, addr *Value) {
}

func (m *Machine) checkAccess(fr *Frame, addr *Value, write bool) {
	if m.race.on && len(m.gs) > 1 {
		m.raceAccess(fr, addr, write)
	}
	if len(m.lazyAddr) == 0 {
		return
	}
	g, ok := m.lazyAddr[addr]
	if !ok {
		return
	}
	if write {
		delete(m.lazyAddr, addr)
		return
	}
	m.unsupported("read of global %s.%s whose package initialiser is not executed (at %s)", g.Pkg.Pkg.Path(), g.Name(), fr.where())
}

func (m *Machine) checkSliceAccess(fr *Frame, s []Value, write bool) {}

func (m *Machine) noteFunc(fn *ssa.Function) {
	if m.initDepth > 0 {
		return
	}
	m.res.Funcs[fn]++
}

func (m *Machine) noteAlloc(fr *Frame, addr *Value, n int) {}

func (m *Machine) noteAllocSlice(fr *Frame, s []Value, elem types.Type) {
	if m.initDepth > 0 {
		return
	}
	if len(s) > 0 {
		m.elemOwner[&s[0]] = sliceRef{s, 0}
		if m.trackAllocs {
			m.allocs = append(m.allocs, sliceRef{s, 0})
		}
	}
	if fr != nil && fr.fn != nil && !isHarnessFrame(fr) {
		m.allocLog = append(m.allocLog, cap(s))
	}
}

func isHarnessFrame(fr *Frame) bool {
	return fr != nil && fr.fn != nil && isHarnessFunc(fr.fn)
}

func (m *Machine) reportPanic(g *G, msg, where string) {
	model, smodel, ok := m.pathModel()
	if !ok {
		m.res.Inconclusive = append(m.res.Inconclusive, Inconclusive{ID: m.harnessName + ".nopanic", Reason: "panic on a path whose model could not be produced: " + msg, Where: where})
		return
	}
	var fr *Frame
	if g != nil {
		fr = nil
	}
	m.recordViolation(fr, m.harnessName+".nopanic", "panic", msg+" at "+where, model, smodel)
}

func (m *Machine) reportHang() {
	model, smodel, ok := m.pathModel()
	if !ok {
		m.res.Inconclusive = append(m.res.Inconclusive, Inconclusive{ID: m.harnessName + ".hang", Reason: "hang on a path whose model could not be produced"})
		return
	}
	m.recordViolation(nil, m.harnessName+".hang", "hang", m.hangString(), model, smodel)
}

func funcPkgPath(fn *ssa.Function) string {
	for f := fn; f != nil; f = f.Parent() {
		if f.Pkg != nil {
			return f.Pkg.Pkg.Path()
		}
	}
	if fn.Signature.Recv() != nil {
		t := fn.Signature.Recv().Type()
		if p, ok := t.(*types.Pointer); ok {
			t = p.Elem()
		}
		if n, ok := t.(*types.Named); ok && n.Obj().Pkg() != nil {
			return n.Obj().Pkg().Path()
		}
	}
	s := fn.String()
	if i := strings.LastIndex(s, "."); i > 0 {
		return strings.Trim(s[:i], "(*)")
	}
	return "?"
}

var _ = fmt.Sprintf
