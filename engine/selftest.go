package main

// Differential self-test of the term rewriter: random expressions are built twice, once with rewriting and once in Raw
// mode (constant folding only), and evaluated under random assignments; any disagreement is a rewriter bug.

import (
	"fmt"
	"math/rand"
	"os"
)

type stGen struct {
	rng  *rand.Rand
	a, b *TermFactory // a: rewriting, b: raw
	vars []string
}

func (g *stGen) pair(w uint8, depth int) (*Term, *Term) {
	if depth == 0 || g.rng.Intn(5) == 0 {
		if g.rng.Intn(3) == 0 {
			v := g.rng.Uint64()
			if g.rng.Intn(2) == 0 {
				v = uint64(g.rng.Intn(70))
			}
			return g.a.Const(w, v), g.b.Const(w, v)
		}
		name := fmt.Sprintf("v%d_%d", w, g.rng.Intn(3))
		return g.a.Var(name, w), g.b.Var(name, w)
	}
	if w == 0 {
		switch g.rng.Intn(8) {
		case 0:
			x, y := g.pair(0, depth-1)
			return g.a.Not(x), g.b.Not(y)
		case 1:
			x1, y1 := g.pair(0, depth-1)
			x2, y2 := g.pair(0, depth-1)
			return g.a.And(x1, x2), g.b.And(y1, y2)
		case 2:
			x1, y1 := g.pair(0, depth-1)
			x2, y2 := g.pair(0, depth-1)
			return g.a.Or(x1, x2), g.b.Or(y1, y2)
		case 3:
			c1, c2 := g.pair(0, depth-1)
			x1, y1 := g.pair(0, depth-1)
			x2, y2 := g.pair(0, depth-1)
			return g.a.Ite(c1, x1, x2), g.b.Ite(c2, y1, y2)
		default:
			ws := []uint8{8, 16, 32, 64}
			ww := ws[g.rng.Intn(len(ws))]
			x1, y1 := g.pair(ww, depth-1)
			x2, y2 := g.pair(ww, depth-1)
			switch g.rng.Intn(5) {
			case 0:
				return g.a.Eq(x1, x2), g.b.Eq(y1, y2)
			case 1:
				return g.a.Ult(x1, x2), g.b.Ult(y1, y2)
			case 2:
				return g.a.Ule(x1, x2), g.b.Ule(y1, y2)
			case 3:
				return g.a.Slt(x1, x2), g.b.Slt(y1, y2)
			default:
				return g.a.Sle(x1, x2), g.b.Sle(y1, y2)
			}
		}
	}
	switch g.rng.Intn(16) {
	case 0:
		x1, y1 := g.pair(w, depth-1)
		x2, y2 := g.pair(w, depth-1)
		return g.a.Add(x1, x2), g.b.Add(y1, y2)
	case 1:
		x1, y1 := g.pair(w, depth-1)
		x2, y2 := g.pair(w, depth-1)
		return g.a.Sub(x1, x2), g.b.Sub(y1, y2)
	case 2:
		x1, y1 := g.pair(w, depth-1)
		x2, y2 := g.pair(w, depth-1)
		return g.a.Mul(x1, x2), g.b.Mul(y1, y2)
	case 3:
		x1, y1 := g.pair(w, depth-1)
		x2, y2 := g.pair(w, depth-1)
		return g.a.BvAnd(x1, x2), g.b.BvAnd(y1, y2)
	case 4:
		x1, y1 := g.pair(w, depth-1)
		x2, y2 := g.pair(w, depth-1)
		return g.a.BvOr(x1, x2), g.b.BvOr(y1, y2)
	case 5, 6:
		x1, y1 := g.pair(w, depth-1)
		x2, y2 := g.pair(w, depth-1)
		return g.a.BvXor(x1, x2), g.b.BvXor(y1, y2)
	case 7:
		x, y := g.pair(w, depth-1)
		return g.a.BvNot(x), g.b.BvNot(y)
	case 8:
		x, y := g.pair(w, depth-1)
		k := uint64(g.rng.Intn(int(w) + 3))
		return g.a.Shl(x, g.a.Const(w, k)), g.b.Shl(y, g.b.Const(w, k))
	case 9:
		x, y := g.pair(w, depth-1)
		k := uint64(g.rng.Intn(int(w) + 3))
		return g.a.Lshr(x, g.a.Const(w, k)), g.b.Lshr(y, g.b.Const(w, k))
	case 10:
		x, y := g.pair(w, depth-1)
		k := uint64(g.rng.Intn(int(w) + 3))
		return g.a.Ashr(x, g.a.Const(w, k)), g.b.Ashr(y, g.b.Const(w, k))
	case 11:
		// resize from another width and back (extract / zext / sext)
		ws := []uint8{8, 16, 32, 64}
		ww := ws[g.rng.Intn(len(ws))]
		x, y := g.pair(ww, depth-1)
		signed := g.rng.Intn(2) == 0
		return g.a.Resize(x, w, signed), g.b.Resize(y, w, signed)
	case 12:
		if w >= 16 {
			hw := w / 2
			x1, y1 := g.pair(hw, depth-1)
			x2, y2 := g.pair(w-hw, depth-1)
			return g.a.Concat(x1, x2), g.b.Concat(y1, y2)
		}
		fallthrough
	case 13:
		c1, c2 := g.pair(0, depth-1)
		x1, y1 := g.pair(w, depth-1)
		x2, y2 := g.pair(w, depth-1)
		return g.a.Ite(c1, x1, x2), g.b.Ite(c2, y1, y2)
	case 14:
		x1, y1 := g.pair(w, depth-1)
		x2, y2 := g.pair(w, depth-1)
		return g.a.Shl(x1, x2), g.b.Shl(y1, y2)
	default:
		x, y := g.pair(w, depth-1)
		return g.a.Neg(x), g.b.Neg(y)
	}
}

// RewriterSelfTest returns the number of cases compared and a description of the first disagreement ("" if none).
func RewriterSelfTest(cases int, seed int64) (int, string) {
	rng := rand.New(rand.NewSource(seed))
	n := 0
	for i := 0; i < cases; i++ {
		g := &stGen{rng: rng, a: NewTermFactory(), b: NewTermFactory()}
		g.b.Raw = true
		ws := []uint8{0, 8, 16, 32, 64}
		w := ws[rng.Intn(len(ws))]
		ta, tb := g.pair(w, 4)
		for k := 0; k < 4; k++ {
			env := map[string]uint64{}
			for _, ww := range []uint8{0, 8, 16, 32, 64} {
				for j := 0; j < 3; j++ {
					v := rng.Uint64()
					switch rng.Intn(4) {
					case 0:
						v = uint64(rng.Intn(3))
					case 1:
						v = ^uint64(0) - uint64(rng.Intn(3))
					}
					env[fmt.Sprintf("v%d_%d", ww, j)] = v
				}
			}
			va, vb := ta.Eval(env), tb.Eval(env)
			n++
			if va != vb {
				return n, fmt.Sprintf("rewritten %s = %d but raw %s = %d under %v", ta, va, tb, vb, env)
			}
		}
	}
	return n, ""
}

func cmdSelftest(args []string) {
	n, bad := RewriterSelfTest(20000, 1)
	if bad != "" {
		fmt.Println("REWRITER SELF-TEST FAILED:", bad)
		os.Exit(1)
	}
	fmt.Printf("rewriter self-test: %d evaluations agree\n", n)
}
