package main

import (
	"fmt"
	"go/token"
	"go/types"
	"math"
	"strings"
	"unicode/utf8"

	"golang.org/x/tools/go/ssa"
)

// ---------- strings ----------

func (m *Machine) strBytes(v Value) []*Term {
	switch s := v.(type) {
	case string:
		b := make([]*Term, len(s))
		for i := 0; i < len(s); i++ {
			b[i] = m.tf.Const(8, uint64(s[i]))
		}
		return b
	case *SymStr:
		return s.B
	case *SmtStr:
		m.unsupported("byte access to unbounded SMT string")
	}
	panic(fmt.Sprintf("strBytes: not a string: %T", v))
}

func (m *Machine) mkStr(b []*Term) Value {
	allc := true
	for _, t := range b {
		if !t.IsConst() {
			allc = false
			break
		}
	}
	if allc {
		bs := make([]byte, len(b))
		for i, t := range b {
			bs[i] = byte(t.Val)
		}
		return string(bs)
	}
	cp := make([]*Term, len(b))
	copy(cp, b)
	return &SymStr{B: cp}
}

func strLen(v Value) int {
	switch s := v.(type) {
	case string:
		return len(s)
	case *SymStr:
		return len(s.B)
	}
	panic(fmt.Sprintf("strLen: %T", v))
}

func (m *Machine) strEq(x, y Value) *Term {
	if xs, ok := x.(string); ok {
		if ys, ok := y.(string); ok {
			return m.tf.Bool(xs == ys)
		}
	}
	if isSmt(x) || isSmt(y) {
		return m.smtStrEq(x, y)
	}
	if strLen(x) != strLen(y) {
		return m.tf.False
	}
	xb, yb := m.strBytes(x), m.strBytes(y)
	r := m.tf.True
	for i := range xb {
		r = m.tf.And(r, m.tf.Eq(xb[i], yb[i]))
		if r == m.tf.False {
			break
		}
	}
	return r
}

// strLess: lexicographic x < y
func (m *Machine) strLess(x, y Value) *Term {
	if xs, ok := x.(string); ok {
		if ys, ok := y.(string); ok {
			return m.tf.Bool(xs < ys)
		}
	}
	xb, yb := m.strBytes(x), m.strBytes(y)
	n := len(xb)
	if len(yb) < n {
		n = len(yb)
	}
	// result for equal common prefix
	r := m.tf.Bool(len(xb) < len(yb))
	for i := n - 1; i >= 0; i-- {
		r = m.tf.Ite(m.tf.Eq(xb[i], yb[i]), r, m.tf.Ult(xb[i], yb[i]))
	}
	return r
}

func isSmt(v Value) bool { _, ok := v.(*SmtStr); return ok }

// ---------- equality ----------

func (m *Machine) equals(t types.Type, x, y Value) *Term {
	switch x := x.(type) {
	case *Term:
		return m.tf.Eq(x, y.(*Term))
	case float64:
		return m.tf.Bool(x == y.(float64))
	case string, *SymStr, *SmtStr:
		return m.strEq(x, y)
	case *Value:
		return m.tf.Bool(x == y.(*Value))
	case *ChanV:
		return m.tf.Bool(x == y.(*ChanV))
	case *MapV:
		return m.tf.Bool(x == y.(*MapV))
	case IfaceV:
		yi := y.(IfaceV)
		if x.T == nil || yi.T == nil {
			return m.tf.Bool(x.T == nil && yi.T == nil)
		}
		if !types.Identical(x.T, yi.T) {
			return m.tf.False
		}
		if !types.Comparable(x.T) {
			panic(targetPanic{runtime: "comparing uncomparable type " + x.T.String()})
		}
		return m.equals(x.T, x.V, yi.V)
	case StructV:
		ys := y.(StructV)
		st := under(t).(*types.Struct)
		r := m.tf.True
		for i := range x {
			if st.Field(i).Name() == "_" {
				continue
			}
			r = m.tf.And(r, m.equals(st.Field(i).Type(), x[i], ys[i]))
		}
		return r
	case ArrayV:
		ya := y.(ArrayV)
		et := under(t).(*types.Array).Elem()
		r := m.tf.True
		for i := range x {
			r = m.tf.And(r, m.equals(et, x[i], ya[i]))
		}
		return r
	case *ssa.Function, *ClosureV, *ssa.Builtin, *BoundIntrinsic:
		// only comparison with nil is legal
		return m.tf.Bool(isNilFunc(x) && isNilFunc(y))
	case []Value:
		// only comparison with nil is legal
		return m.tf.Bool(x == nil && y.([]Value) == nil)
	}
	panic(fmt.Sprintf("equals: unexpected %T", x))
}

func isNilFunc(v Value) bool {
	switch f := v.(type) {
	case *ssa.Function:
		return f == nil
	case nil:
		return true
	}
	return false
}

// ---------- binop ----------

func (m *Machine) binop(fr *Frame, op token.Token, tx, ty types.Type, x, y Value) Value {
	tf := m.tf
	switch op {
	case token.EQL:
		return m.equals(tx, x, y)
	case token.NEQ:
		return tf.Not(m.equals(tx, x, y))
	}
	switch xv := x.(type) {
	case *Term:
		yv := y.(*Term)
		w, signed, _ := intWidth(tx)
		if w == 0 {
			switch op {
			case token.AND, token.LAND:
				return tf.And(xv, yv)
			case token.OR, token.LOR:
				return tf.Or(xv, yv)
			}
			panic("bool binop " + op.String())
		}
		switch op {
		case token.ADD:
			return tf.Add(xv, yv)
		case token.SUB:
			return tf.Sub(xv, yv)
		case token.MUL:
			return tf.Mul(xv, yv)
		case token.QUO, token.REM:
			zero := tf.Eq(yv, tf.Const(w, 0))
			if m.Decide(fr, zero) {
				m.runtimePanic(fr, "integer divide by zero")
			}
			if signed {
				if op == token.QUO {
					return tf.SDiv(xv, yv)
				}
				return tf.SRem(xv, yv)
			}
			if op == token.QUO {
				return tf.UDiv(xv, yv)
			}
			return tf.URem(xv, yv)
		case token.AND:
			return tf.BvAnd(xv, yv)
		case token.OR:
			return tf.BvOr(xv, yv)
		case token.XOR:
			return tf.BvXor(xv, yv)
		case token.AND_NOT:
			return tf.BvAnd(xv, tf.BvNot(yv))
		case token.SHL, token.SHR:
			_, ySigned, _ := intWidth(ty)
			if ySigned {
				neg := tf.Slt(yv, tf.Const(yv.W, 0))
				if m.Decide(fr, neg) {
					m.runtimePanic(fr, "negative shift amount")
				}
			}
			var cnt *Term
			var over *Term = tf.False
			if yv.W > w {
				over = tf.Not(tf.Ult(yv, tf.Const(yv.W, uint64(w))))
				cnt = tf.Extract(yv, w-1, 0)
			} else {
				cnt = tf.Zext(yv, w)
			}
			var r *Term
			if op == token.SHL {
				r = tf.Shl(xv, cnt)
				return tf.Ite(over, tf.Const(w, 0), r)
			}
			if signed {
				r = tf.Ashr(xv, cnt)
				return tf.Ite(over, tf.Ashr(xv, tf.Const(w, uint64(w-1))), r)
			}
			r = tf.Lshr(xv, cnt)
			return tf.Ite(over, tf.Const(w, 0), r)
		case token.LSS:
			if signed {
				return tf.Slt(xv, yv)
			}
			return tf.Ult(xv, yv)
		case token.LEQ:
			if signed {
				return tf.Sle(xv, yv)
			}
			return tf.Ule(xv, yv)
		case token.GTR:
			if signed {
				return tf.Slt(yv, xv)
			}
			return tf.Ult(yv, xv)
		case token.GEQ:
			if signed {
				return tf.Sle(yv, xv)
			}
			return tf.Ule(yv, xv)
		}
	case float64:
		yv := y.(float64)
		switch op {
		case token.ADD:
			return xv + yv
		case token.SUB:
			return xv - yv
		case token.MUL:
			return xv * yv
		case token.QUO:
			return xv / yv
		case token.LSS:
			return tf.Bool(xv < yv)
		case token.LEQ:
			return tf.Bool(xv <= yv)
		case token.GTR:
			return tf.Bool(xv > yv)
		case token.GEQ:
			return tf.Bool(xv >= yv)
		}
	case string, *SymStr, *SmtStr:
		switch op {
		case token.ADD:
			if isSmt(x) || isSmt(y) {
				return m.smtStrConcat(x, y)
			}
			if xs, ok := x.(string); ok {
				if ys, ok := y.(string); ok {
					return xs + ys
				}
			}
			return m.mkStr(append(append([]*Term{}, m.strBytes(x)...), m.strBytes(y)...))
		case token.LSS:
			return m.strLess(x, y)
		case token.GTR:
			return m.strLess(y, x)
		case token.LEQ:
			return tf.Not(m.strLess(y, x))
		case token.GEQ:
			return tf.Not(m.strLess(x, y))
		}
	}
	m.unsupported("binop %s on %T at %s", op, x, fr.where())
	return nil
}

// ---------- unop ----------

func (m *Machine) unop(fr *Frame, instr *ssa.UnOp, x Value) Value {
	switch instr.Op {
	case token.ARROW:
		v, ok := m.chanRecv(fr, x.(*ChanV))
		if !ok {
			v = m.zero(under(instr.X.Type()).(*types.Chan).Elem())
		}
		if instr.CommaOk {
			return TupleV{v, m.tf.Bool(ok)}
		}
		return v
	case token.SUB:
		switch x := x.(type) {
		case *Term:
			return m.tf.Neg(x)
		case float64:
			return -x
		}
	case token.MUL:
		if se, ok := x.(*SymElem); ok {
			return m.loadSymElem(se)
		}
		p := x.(*Value)
		if p == nil {
			m.runtimePanic(fr, "invalid memory address or nil pointer dereference (load)")
		}
		m.checkAccess(fr, p, false)
		return load(p)
	case token.NOT:
		return m.tf.Not(x.(*Term))
	case token.XOR:
		return m.tf.BvNot(x.(*Term))
	}
	m.unsupported("unop %s on %T", instr.Op, x)
	return nil
}

// ---------- conversions ----------

func (m *Machine) conv(fr *Frame, tdst, tsrc types.Type, x Value) Value {
	ud, us := under(tdst), under(tsrc)
	// pointer <-> unsafe.Pointer
	if _, ok := x.(*Value); ok {
		switch d := ud.(type) {
		case *types.Pointer:
			return x
		case *types.Basic:
			if d.Kind() == types.UnsafePointer {
				return x
			}
			m.unsupported("conversion of pointer to %v at %s", tdst, fr.where())
		}
	}
	switch xv := x.(type) {
	case *Term:
		sw, ssigned, _ := intWidth(us)
		if dw, _, ok := intWidth(ud); ok {
			if dw == 0 || sw == 0 {
				return xv
			}
			return m.tf.Resize(xv, dw, ssigned)
		}
		if isFloat(ud) {
			c := m.concreteIntSigned(fr, xv, ssigned, "int->float")
			if ssigned {
				return float64(c)
			}
			return float64(uint64(c))
		}
		if isString(ud) {
			c := m.concreteIntSigned(fr, xv, ssigned, "int->string")
			return string(rune(c))
		}
	case float64:
		if dw, dsigned, ok := intWidth(ud); ok {
			if dsigned {
				return m.tf.Const(dw, uint64(int64(xv)))
			}
			return m.tf.Const(dw, uint64(xv))
		}
		if isFloat(ud) {
			if b := ud.(*types.Basic); b.Kind() == types.Float32 {
				return float64(float32(xv))
			}
			return xv
		}
	case string, *SymStr:
		if isString(ud) {
			return x
		}
		if sl, ok := ud.(*types.Slice); ok {
			if eb, ok := under(sl.Elem()).(*types.Basic); ok && eb.Kind() == types.Uint8 {
				b := m.strBytes(x)
				r := make([]Value, len(b))
				for i, t := range b {
					r[i] = t
				}
				return r
			}
			if eb, ok := under(sl.Elem()).(*types.Basic); ok && eb.Kind() == types.Int32 {
				s, ok := x.(string)
				if !ok {
					m.unsupported("[]rune of symbolic string")
				}
				var r []Value
				for _, c := range s {
					r = append(r, m.tf.Const(32, uint64(c)))
				}
				if r == nil {
					r = []Value{}
				}
				return r
			}
		}
	case *SmtStr:
		if isString(ud) {
			return x
		}
		if sl, ok := ud.(*types.Slice); ok {
			if eb, ok := under(sl.Elem()).(*types.Basic); ok && eb.Kind() == types.Uint8 {
				return &SmtBytes{T: xv.T}
			}
		}
		m.unsupported("conversion of SMT string to %v at %s", tdst, fr.where())
	case *SmtBytes:
		if isString(ud) {
			return &SmtStr{T: xv.T}
		}
		m.unsupported("conversion of SMT bytes to %v at %s", tdst, fr.where())
	case []Value:
		if isString(ud) {
			sl := us.(*types.Slice)
			eb := under(sl.Elem()).(*types.Basic)
			if eb.Kind() == types.Uint8 {
				b := make([]*Term, len(xv))
				for i, v := range xv {
					b[i] = v.(*Term)
				}
				return m.mkStr(b)
			}
			// []rune -> string
			var sb strings.Builder
			for _, v := range xv {
				t := v.(*Term)
				if !t.IsConst() {
					m.unsupported("string([]rune) with symbolic rune")
				}
				sb.WriteRune(rune(t.SVal()))
			}
			return sb.String()
		}
		if _, ok := ud.(*types.Slice); ok {
			return x
		}
	}
	m.unsupported("conversion %v -> %v (%T) at %s", tsrc, tdst, x, fr.where())
	return nil
}

// ---------- slicing ----------

func (m *Machine) slice(fr *Frame, instr *ssa.Slice, x, lo, hi, max Value) Value {
	var ln, cp int
	switch xv := x.(type) {
	case string:
		ln, cp = len(xv), len(xv)
	case *SymStr:
		ln, cp = len(xv.B), len(xv.B)
	case []Value:
		ln, cp = len(xv), cap(xv)
	case *Value:
		if xv == nil {
			m.runtimePanic(fr, "slice of nil array pointer")
		}
		a := (*xv).(ArrayV)
		ln, cp = len(a), len(a)
	default:
		panic(fmt.Sprintf("slice: unexpected %T", x))
	}
	tf := m.tf
	c64 := func(v int) *Term { return tf.Const(64, uint64(v)) }
	asT := func(v Value, def int, val ssa.Value) *Term {
		if v == nil {
			return c64(def)
		}
		t := v.(*Term)
		_, signed, _ := intWidth(val.Type())
		return tf.Resize(t, 64, signed)
	}
	l := asT(lo, 0, instr.Low)
	hdef := ln
	h := asT(hi, hdef, instr.High)
	mx := asT(max, cp, instr.Max)
	// bounds: 0 <= l <= h <= mx <= cap  (strings: h <= len)
	limit := cp
	ok := tf.And(tf.And(tf.Sle(c64(0), l), tf.Sle(l, h)), tf.And(tf.Sle(h, mx), tf.Sle(mx, c64(limit))))
	if !m.Decide(fr, ok) {
		m.runtimePanic(fr, "slice bounds out of range")
	}
	li := int(m.concreteIntBounded(fr, l, "slice low", 0, int64(limit)))
	hi2 := int(m.concreteIntBounded(fr, h, "slice high", int64(li), int64(limit)))
	mi := int(m.concreteIntBounded(fr, mx, "slice max", int64(hi2), int64(limit)))
	switch xv := x.(type) {
	case string:
		return xv[li:hi2]
	case *SymStr:
		return m.mkStr(xv.B[li:hi2])
	case []Value:
		if xv == nil {
			return xv
		}
		return xv[li:hi2:mi]
	case *Value:
		a := (*xv).(ArrayV)
		return []Value(a)[li:hi2:mi]
	}
	return nil
}

// ---------- maps ----------

func (m *Machine) mapFind(fr *Frame, mp *MapV, k Value) *mapEntry {
	if mp == nil {
		return nil
	}
	for _, e := range mp.entries {
		if e.deleted {
			continue
		}
		if m.Decide(fr, m.equals(mp.kt, e.k, k)) {
			return e
		}
	}
	return nil
}

func (m *Machine) mapUpdate(fr *Frame, mp *MapV, k, v Value) {
	if e := m.mapFind(fr, mp, k); e != nil {
		e.v = copyVal(v)
		return
	}
	mp.entries = append(mp.entries, &mapEntry{k: copyVal(k), v: copyVal(v)})
}

func (m *Machine) mapDelete(fr *Frame, mp *MapV, k Value) {
	if e := m.mapFind(fr, mp, k); e != nil {
		e.deleted = true
	}
}

func (mp *MapV) length() int {
	if mp == nil {
		return 0
	}
	n := 0
	for _, e := range mp.entries {
		if !e.deleted {
			n++
		}
	}
	return n
}

func (m *Machine) lookup(fr *Frame, instr *ssa.Lookup, x, idx Value) Value {
	switch xv := x.(type) {
	case *MapV:
		var v Value
		ok := false
		if e := m.mapFind(fr, xv, idx); e != nil {
			v, ok = copyVal(e.v), true
		} else {
			v = m.zero(under(instr.X.Type()).(*types.Map).Elem())
		}
		if instr.CommaOk {
			return TupleV{v, m.tf.Bool(ok)}
		}
		return v
	case string:
		_, signed, _ := intWidth(instr.Index.Type())
		i := m.indexInBounds(fr, idx.(*Term), signed, len(xv))
		return m.tf.Const(8, uint64(xv[i]))
	case *SymStr:
		_, signed, _ := intWidth(instr.Index.Type())
		i := m.indexInBounds(fr, idx.(*Term), signed, len(xv.B))
		return xv.B[i]
	}
	panic(fmt.Sprintf("lookup on %T", x))
}

// ---------- range ----------

type iterV interface {
	next(m *Machine, fr *Frame) Value
}

type mapIter struct {
	mp  *MapV
	pos int
}

func (it *mapIter) next(m *Machine, fr *Frame) Value {
	if it.mp != nil {
		for it.pos < len(it.mp.entries) {
			e := it.mp.entries[it.pos]
			it.pos++
			if !e.deleted {
				return TupleV{m.tf.True, copyVal(e.k), copyVal(e.v)}
			}
		}
	}
	return TupleV{m.tf.False, nil, nil}
}

type strIter struct {
	s   string
	pos int
}

func (it *strIter) next(m *Machine, fr *Frame) Value {
	if it.pos >= len(it.s) {
		return TupleV{m.tf.False, m.tf.Const(64, 0), m.tf.Const(32, 0)}
	}
	r, n := utf8.DecodeRuneInString(it.s[it.pos:])
	i := it.pos
	it.pos += n
	return TupleV{m.tf.True, m.tf.Const(64, uint64(i)), m.tf.Const(32, uint64(r))}
}

// symStrIter iterates a symbolic string assuming ASCII (each byte < 0x80); the assumption is added to the path.
type symStrIter struct {
	s   *SymStr
	pos int
}

func (it *symStrIter) next(m *Machine, fr *Frame) Value {
	if it.pos >= len(it.s.B) {
		return TupleV{m.tf.False, m.tf.Const(64, 0), m.tf.Const(32, 0)}
	}
	b := it.s.B[it.pos]
	m.AssumeInternal(fr, m.tf.Ult(b, m.tf.Const(8, 0x80)), "ascii-only range over symbolic string")
	i := it.pos
	it.pos++
	return TupleV{m.tf.True, m.tf.Const(64, uint64(i)), m.tf.Zext(b, 32)}
}

func (m *Machine) rangeIter(fr *Frame, x Value, t types.Type) Value {
	switch x := x.(type) {
	case *MapV:
		return &mapIter{mp: x}
	case string:
		return &strIter{s: x}
	case *SymStr:
		return &symStrIter{s: x}
	}
	m.unsupported("range over %T", x)
	return nil
}

// ---------- type assertions ----------

func (m *Machine) typeAssert(fr *Frame, instr *ssa.TypeAssert, itf IfaceV) Value {
	var v Value
	errMsg := ""
	if idst, ok := under(instr.AssertedType).(*types.Interface); ok {
		v = itf
		if itf.T == nil {
			errMsg = "interface conversion: interface is nil"
		} else if meth, _ := types.MissingMethod(itf.T, idst, true); meth != nil {
			errMsg = fmt.Sprintf("interface conversion: %v is not %v: missing method %s", itf.T, idst, meth.Name())
		}
	} else {
		if itf.T == nil {
			errMsg = "interface conversion: interface is nil, not " + instr.AssertedType.String()
		} else if types.Identical(itf.T, instr.AssertedType) {
			v = copyVal(itf.V)
		} else {
			errMsg = fmt.Sprintf("interface conversion: interface is %v, not %v", itf.T, instr.AssertedType)
		}
	}
	if errMsg != "" {
		if !instr.CommaOk {
			m.runtimePanic(fr, errMsg)
		}
		return TupleV{m.zero(instr.AssertedType), m.tf.False}
	}
	if instr.CommaOk {
		return TupleV{v, m.tf.True}
	}
	return v
}

// ---------- builtins ----------

func (m *Machine) callBuiltin(caller *Frame, pos token.Pos, fn *ssa.Builtin, args []Value) Value {
	tf := m.tf
	switch fn.Name() {
	case "append":
		if len(args) == 1 {
			return args[0]
		}
		var add []Value
		switch s := args[1].(type) {
		case string, *SymStr:
			for _, t := range m.strBytes(s) {
				add = append(add, t)
			}
		case []Value:
			add = s
		}
		dst := args[0].([]Value)
		if len(add) == 0 {
			return dst
		}
		if len(dst)+len(add) <= cap(dst) {
			r := dst[:len(dst)+len(add)]
			for i, v := range add {
				store2(&r[len(dst)+i], v)
			}
			return r
		}
		need := len(dst) + len(add)
		newcap := cap(dst) * 2
		if newcap < need {
			newcap = need
		}
		if newcap < 8 {
			newcap = 8
		}
		if newcap > m.maxAlloc {
			if need > m.maxAlloc {
				panic(pathAbort{"budget", fmt.Sprintf("append to %d elements exceeds allocation bound", need)})
			}
			newcap = need
		}
		r := make([]Value, need, newcap)
		for i, v := range dst {
			r[i] = copyVal(v)
		}
		for i, v := range add {
			r[len(dst)+i] = copyVal(v)
		}
		var et types.Type
		if sig := fn.Type().(*types.Signature); sig.Results().Len() == 1 {
			if st, ok := under(sig.Results().At(0).Type()).(*types.Slice); ok {
				et = st.Elem()
			}
		}
		if et != nil {
			z := m.zero(et)
			full := r[:newcap]
			for i := need; i < newcap; i++ {
				if isImmutableValue(z) {
					full[i] = z
				} else {
					full[i] = m.zero(et)
				}
			}
			m.noteAllocSlice(caller, full, et)
		}
		return r

	case "copy":
		dst := args[0].([]Value)
		var src []Value
		switch s := args[1].(type) {
		case string, *SymStr:
			for _, t := range m.strBytes(s) {
				src = append(src, t)
			}
		case []Value:
			src = s
		}
		n := len(dst)
		if len(src) < n {
			n = len(src)
		}
		if n > 0 {
			m.checkSliceAccess(caller, dst[:n], true)
			// memmove semantics
			tmp := make([]Value, n)
			for i := 0; i < n; i++ {
				tmp[i] = copyVal(src[i])
			}
			copy(dst, tmp)
		}
		return tf.Const(64, uint64(n))

	case "close":
		m.chanClose(caller, args[0].(*ChanV))
		return nil

	case "delete":
		m.mapDelete(caller, args[0].(*MapV), args[1])
		return nil

	case "clear":
		switch x := args[0].(type) {
		case *MapV:
			if x != nil {
				x.entries = nil
			}
		default:
			m.unsupported("clear on %T", x)
		}
		return nil

	case "print", "println":
		return nil

	case "len":
		switch x := args[0].(type) {
		case string:
			return tf.Const(64, uint64(len(x)))
		case *SymStr:
			return tf.Const(64, uint64(len(x.B)))
		case *SmtStr:
			return m.smtStrLen(x)
		case []Value:
			return tf.Const(64, uint64(len(x)))
		case ArrayV:
			return tf.Const(64, uint64(len(x)))
		case *Value:
			return tf.Const(64, uint64(len((*x).(ArrayV))))
		case *MapV:
			return tf.Const(64, uint64(x.length()))
		case *ChanV:
			if x == nil {
				return tf.Const(64, 0)
			}
			return tf.Const(64, uint64(len(x.buf)))
		}
		panic(fmt.Sprintf("len of %T", args[0]))

	case "cap":
		switch x := args[0].(type) {
		case []Value:
			return tf.Const(64, uint64(cap(x)))
		case ArrayV:
			return tf.Const(64, uint64(len(x)))
		case *Value:
			return tf.Const(64, uint64(len((*x).(ArrayV))))
		case *ChanV:
			if x == nil {
				return tf.Const(64, 0)
			}
			return tf.Const(64, uint64(x.cap))
		}
		panic(fmt.Sprintf("cap of %T", args[0]))

	case "min", "max":
		r := args[0]
		sig := fn.Type().(*types.Signature)
		t := sig.Params().At(0).Type()
		for _, a := range args[1:] {
			op := token.LSS
			if fn.Name() == "max" {
				op = token.GTR
			}
			switch av := a.(type) {
			case *Term:
				c := m.binop(caller, op, t, t, av, r).(*Term)
				r = tf.Ite(c, av, r.(*Term))
			case float64:
				if fn.Name() == "min" {
					r = math.Min(av, r.(float64))
				} else {
					r = math.Max(av, r.(float64))
				}
			default:
				m.unsupported("min/max on %T", a)
			}
		}
		return r

	case "recover":
		return m.doRecover(caller)

	case "ssa:wrapnilchk":
		recv := args[0]
		if p, ok := recv.(*Value); ok && p == nil {
			m.runtimePanic(caller, "value method called using nil pointer")
		}
		return recv

	case "String": // unsafe.String(ptr *byte, len)
		p := args[0].(*Value)
		n := int(m.concreteInt(caller, args[1].(*Term), "unsafe.String len"))
		if n == 0 {
			return ""
		}
		sl := m.sliceFromElemPtr(caller, p, n)
		b := make([]*Term, n)
		for i := range b {
			b[i] = sl[i].(*Term)
		}
		return m.mkStr(b)

	case "SliceData":
		s := args[0].([]Value)
		if cap(s) == 0 {
			return (*Value)(nil)
		}
		return &s[:1][0]

	case "Slice": // unsafe.Slice(ptr, len)
		p := args[0].(*Value)
		n := int(m.concreteInt(caller, args[1].(*Term), "unsafe.Slice len"))
		if p == nil {
			return []Value(nil)
		}
		return m.sliceFromElemPtr(caller, p, n)

	case "StringData":
		m.unsupported("unsafe.StringData")
	}
	m.unsupported("builtin %s", fn.Name())
	return nil
}

func store2(addr *Value, v Value) { *addr = copyVal(v) }

// sliceFromElemPtr recovers the slice starting at element pointer p (as produced by &s[i] / SliceData).
func (m *Machine) sliceFromElemPtr(fr *Frame, p *Value, n int) []Value {
	if bs, ok := m.elemOwner[p]; ok {
		return bs.s[bs.off : bs.off+n : bs.off+n]
	}
	m.unsupported("unsafe slice from untracked element pointer at %s", fr.where())
	return nil
}

// SymElem is the address of table[idx] for a symbolic, in-bounds idx into a table of constant scalars.
type SymElem struct {
	elems []Value
	idx   *Term
}

func constScalarTable(a ArrayV) bool {
	for _, e := range a {
		t, ok := e.(*Term)
		if !ok || !t.IsConst() {
			return false
		}
	}
	return len(a) > 0
}

// loadSymElem builds ite(idx in S1, v1, ite(idx in S2, v2, ... default)) grouping the indices by table value.
func (m *Machine) loadSymElem(se *SymElem) Value {
	tf := m.tf
	groups := map[uint64][]int{}
	var order []uint64
	var w uint8
	for i, e := range se.elems {
		t := e.(*Term)
		w = t.W
		if _, ok := groups[t.Val]; !ok {
			order = append(order, t.Val)
		}
		groups[t.Val] = append(groups[t.Val], i)
	}
	// the most frequent value is the default
	def := order[0]
	for _, v := range order {
		if len(groups[v]) > len(groups[def]) {
			def = v
		}
	}
	res := tf.Const(w, def)
	for _, v := range order {
		if v == def {
			continue
		}
		cond := tf.False
		for _, i := range groups[v] {
			cond = tf.Or(cond, tf.Eq(se.idx, tf.Const(64, uint64(i))))
		}
		res = tf.Ite(cond, tf.Const(w, v), res)
	}
	return res
}
