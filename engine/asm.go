package main

// Symbolic interpreter for the Plan 9 amd64 assembly of mask_amd64.s (parsed from the repository on every run).
// Registers are 64-bit terms (X registers: two 64-bit halves), memory is the byte cells of the Go backing array the
// pointer argument points into, placed at a virtual address whose alignment is the element index modulo 64.
// Every access is checked against [b, b+len). An unknown mnemonic or operand form makes the path unsupported.

import (
	"fmt"
	"regexp"
	"strconv"
	"strings"
	"unsafe"

	"golang.org/x/tools/go/ssa"
)

type asmInstr struct {
	op   string
	args []string
	line int
}

type AsmFunc struct {
	Name   string
	File   string
	Instrs []asmInstr
	Labels map[string]int
}

var asmTextRe = regexp.MustCompile(`^TEXT\s+·(\w+)\(SB\)`)

func ParseAsm(src, file string) map[string]*AsmFunc {
	res := map[string]*AsmFunc{}
	var cur *AsmFunc
	for ln, line := range strings.Split(src, "\n") {
		if i := strings.Index(line, "//"); i >= 0 {
			line = line[:i]
		}
		line = strings.TrimSpace(line)
		if line == "" || strings.HasPrefix(line, "#") {
			continue
		}
		if m := asmTextRe.FindStringSubmatch(line); m != nil {
			cur = &AsmFunc{Name: m[1], File: file, Labels: map[string]int{}}
			res[m[1]] = cur
			continue
		}
		if cur == nil {
			continue
		}
		if strings.HasSuffix(line, ":") {
			cur.Labels[strings.TrimSuffix(line, ":")] = len(cur.Instrs)
			continue
		}
		f := strings.Fields(line)
		op := f[0]
		rest := strings.TrimSpace(line[len(op):])
		var args []string
		if rest != "" {
			for _, a := range strings.Split(rest, ",") {
				args = append(args, strings.TrimSpace(a))
			}
		}
		cur.Instrs = append(cur.Instrs, asmInstr{op: op, args: args, line: ln + 1})
	}
	return res
}

type asmState struct {
	m      *Machine
	fr     *Frame
	regs   map[string]*Term
	xregs  map[string][2]*Term
	zf, sf *Term
	cf, of *Term
	mem    []Value // backing array
	base   int     // index of the first permitted byte
	n      int     // permitted length
	vaddr0 uint64  // virtual address of mem[0]
	fpArgs map[int]*Term
	ret    *Term
	oob    int
	steps  int
}

const asmVirtBase = 0x10000 // 64-aligned

var asmMemRe = regexp.MustCompile(`^([0-9*+\-xXa-fA-F]*)\((\w+)\)$`)

func evalAsmConst(s string) (int64, bool) {
	s = strings.TrimSpace(s)
	if s == "" {
		return 0, true
	}
	// forms: 8, 0x40, 2*16
	total := int64(1)
	for _, part := range strings.Split(s, "*") {
		v, err := strconv.ParseInt(strings.TrimSpace(part), 0, 64)
		if err != nil {
			return 0, false
		}
		total *= v
	}
	return total, true
}

func (st *asmState) unsupported(in asmInstr, why string) {
	st.m.unsupported("assembly %s %v (line %d): %s", in.op, in.args, in.line, why)
}

// addrOf resolves a memory operand to a concrete virtual address.
func (st *asmState) addrOf(in asmInstr, opnd string) (uint64, bool) {
	mm := asmMemRe.FindStringSubmatch(opnd)
	if mm == nil {
		return 0, false
	}
	off, ok := evalAsmConst(mm[1])
	if !ok {
		return 0, false
	}
	r, ok := st.regs[mm[2]]
	if !ok {
		return 0, false
	}
	if !r.IsConst() {
		st.unsupported(in, "symbolic address")
	}
	return r.Val + uint64(off), true
}

func (st *asmState) loadBytes(in asmInstr, addr uint64, size int) []*Term {
	out := make([]*Term, size)
	for i := 0; i < size; i++ {
		idx := int64(addr) - int64(st.vaddr0) + int64(i)
		if idx < int64(st.base) || idx >= int64(st.base+st.n) {
			st.oob++
			if idx < 0 || idx >= int64(len(st.mem)) {
				out[i] = st.m.tf.Const(8, 0)
				continue
			}
		}
		out[i] = st.mem[idx].(*Term)
	}
	return out
}

func (st *asmState) storeBytes(in asmInstr, addr uint64, b []*Term) {
	for i, t := range b {
		idx := int64(addr) - int64(st.vaddr0) + int64(i)
		if idx < int64(st.base) || idx >= int64(st.base+st.n) {
			st.oob++
			if idx < 0 || idx >= int64(len(st.mem)) {
				continue
			}
		}
		st.mem[idx] = t
	}
}

func (st *asmState) bytesOf(t *Term) []*Term {
	n := int(t.W) / 8
	out := make([]*Term, n)
	for i := 0; i < n; i++ {
		out[i] = st.m.tf.Extract(t, uint8(8*i+7), uint8(8*i))
	}
	return out
}

func (st *asmState) fromBytes(b []*Term) *Term {
	r := b[len(b)-1]
	for i := len(b) - 2; i >= 0; i-- {
		r = st.m.tf.Concat(r, b[i])
	}
	return r
}

// read an operand as a term of width w bits
func (st *asmState) read(in asmInstr, opnd string, w uint8) *Term {
	tf := st.m.tf
	if strings.HasPrefix(opnd, "$") {
		v, ok := evalAsmConst(opnd[1:])
		if !ok {
			st.unsupported(in, "immediate")
		}
		return tf.Const(w, uint64(v))
	}
	if r, ok := st.regs[opnd]; ok {
		return tf.Resize(r, w, false)
	}
	if strings.HasSuffix(opnd, "(FP)") {
		off := st.fpOffset(in, opnd)
		a, ok := st.fpArgs[off]
		if !ok {
			st.unsupported(in, "unknown FP argument")
		}
		return tf.Resize(a, w, false)
	}
	if addr, ok := st.addrOf(in, opnd); ok {
		return st.fromBytes(st.loadBytes(in, addr, int(w)/8))
	}
	st.unsupported(in, "operand "+opnd)
	return nil
}

func (st *asmState) fpOffset(in asmInstr, opnd string) int {
	// name+off(FP)
	i := strings.Index(opnd, "+")
	j := strings.Index(opnd, "(FP)")
	if i < 0 || j < 0 {
		st.unsupported(in, "FP operand")
	}
	v, err := strconv.Atoi(opnd[i+1 : j])
	if err != nil {
		st.unsupported(in, "FP offset")
	}
	return v
}

func (st *asmState) write(in asmInstr, opnd string, v *Term) {
	tf := st.m.tf
	if _, ok := st.regs[opnd]; ok || isGPR(opnd) {
		// 32-bit writes zero-extend; 8/16-bit register writes are not used by this file
		switch v.W {
		case 64:
			st.regs[opnd] = v
		case 32:
			st.regs[opnd] = tf.Zext(v, 64)
		case 8, 16:
			// 8/16-bit register writes leave the upper bits of the register unchanged
			old, ok := st.regs[opnd]
			if !ok {
				old = st.m.newInput("asm-uninitialised-"+opnd, 64)
			}
			st.regs[opnd] = tf.Concat(tf.Extract(old, 63, v.W), v)
		default:
			st.unsupported(in, "narrow register write")
		}
		return
	}
	if strings.HasSuffix(opnd, "(FP)") {
		st.ret = v
		return
	}
	if addr, ok := st.addrOf(in, opnd); ok {
		st.storeBytes(in, addr, st.bytesOf(v))
		return
	}
	st.unsupported(in, "destination "+opnd)
}

func isGPR(r string) bool {
	switch r {
	case "AX", "BX", "CX", "DX", "SI", "DI", "R8", "R9", "R10", "R11", "R12", "R13", "R14", "R15":
		return true
	}
	return false
}

func isXReg(r string) bool {
	return len(r) >= 2 && r[0] == 'X' && r[1] >= '0' && r[1] <= '9'
}

func (st *asmState) setFlagsLogic(r *Term) {
	tf := st.m.tf
	st.zf = tf.Eq(r, tf.Const(r.W, 0))
	st.sf = tf.Eq(tf.Extract(r, r.W-1, r.W-1), tf.Const(1, 1))
	st.cf = tf.False
	st.of = tf.False
}

// flags of a - b
func (st *asmState) setFlagsSub(a, b *Term) *Term {
	tf := st.m.tf
	r := tf.Sub(a, b)
	st.zf = tf.Eq(r, tf.Const(r.W, 0))
	st.sf = tf.Slt(r, tf.Const(r.W, 0))
	st.cf = tf.Ult(a, b)
	sa := tf.Slt(a, tf.Const(a.W, 0))
	sb := tf.Slt(b, tf.Const(b.W, 0))
	sr := tf.Slt(r, tf.Const(r.W, 0))
	// overflow: operands have different signs and the result's sign differs from a's
	st.of = tf.And(tf.Not(tf.Eq(sa, sb)), tf.Not(tf.Eq(sr, sa)))
	return r
}

func (st *asmState) setFlagsAdd(a, b *Term) *Term {
	tf := st.m.tf
	r := tf.Add(a, b)
	st.zf = tf.Eq(r, tf.Const(r.W, 0))
	st.sf = tf.Slt(r, tf.Const(r.W, 0))
	st.cf = tf.Ult(r, a)
	sa := tf.Slt(a, tf.Const(a.W, 0))
	sb := tf.Slt(b, tf.Const(b.W, 0))
	sr := tf.Slt(r, tf.Const(r.W, 0))
	st.of = tf.And(tf.Eq(sa, sb), tf.Not(tf.Eq(sr, sa)))
	return r
}

func (m *Machine) locateElem(p *Value) ([]Value, int, bool) {
	for _, ref := range m.allocs {
		s := ref.s
		if len(s) == 0 {
			continue
		}
		s = s[:cap(s)]
		lo := uintptr(unsafe.Pointer(&s[0]))
		hi := lo + uintptr(len(s))*unsafe.Sizeof(s[0])
		x := uintptr(unsafe.Pointer(p))
		if x >= lo && x < hi {
			return s, int((x - lo) / unsafe.Sizeof(s[0])), true
		}
	}
	return nil, 0, false
}

func (m *Machine) callAsm(fr *Frame, fn *ssa.Function, af *AsmFunc, args []Value) Value {
	m.noteStub("assembly " + af.File + ":" + af.Name + " interpreted by the amd64 model")
	tf := m.tf
	st := &asmState{m: m, fr: fr, regs: map[string]*Term{}, xregs: map[string][2]*Term{}, fpArgs: map[int]*Term{}}
	st.zf, st.sf, st.cf, st.of = tf.False, tf.False, tf.False, tf.False
	// argument layout: b *byte at 0, len int at 8, key uint32 at 16, ret at 24
	if len(args) != 3 {
		m.unsupported("assembly function with unexpected signature: %s", fn)
	}
	p := args[0].(*Value)
	n := int(m.concreteInt(fr, args[1].(*Term), "asm len"))
	if p == nil {
		if n != 0 {
			m.runtimePanic(fr, "nil pointer passed to assembly with non-zero length")
		}
		st.mem, st.base, st.vaddr0 = nil, 0, asmVirtBase
		st.fpArgs[0] = tf.Const(64, 0)
	} else {
		s, idx, ok := m.locateElem(p)
		if !ok {
			m.unsupported("pointer argument of assembly function does not point into a tracked allocation")
		}
		st.mem, st.base, st.vaddr0 = s, idx, asmVirtBase
		st.fpArgs[0] = tf.Const(64, asmVirtBase+uint64(idx))
	}
	st.n = n
	st.fpArgs[8] = tf.Const(64, uint64(n))
	st.fpArgs[16] = tf.Zext(args[2].(*Term), 64)
	pc := 0
	for {
		st.steps++
		if st.steps > 200000 {
			panic(pathAbort{"budget", "assembly step budget exceeded"})
		}
		if pc >= len(af.Instrs) {
			m.unsupported("assembly fell off the end of %s", af.Name)
		}
		in := af.Instrs[pc]
		pc++
		jump := func(cond *Term) {
			if m.Decide(fr, cond) {
				t, ok := af.Labels[in.args[0]]
				if !ok {
					st.unsupported(in, "unknown label")
				}
				pc = t
			}
		}
		switch in.op {
		case "MOVQ":
			if isXReg(in.args[1]) {
				st.xregs[in.args[1]] = [2]*Term{st.read(in, in.args[0], 64), tf.Const(64, 0)}
			} else {
				st.write(in, in.args[1], st.read(in, in.args[0], 64))
			}
		case "MOVL":
			st.write(in, in.args[1], st.read(in, in.args[0], 32))
		case "MOVB":
			st.write(in, in.args[1], st.read(in, in.args[0], 8))
		case "MOVW":
			st.write(in, in.args[1], st.read(in, in.args[0], 16))
		case "MOVBLZX", "MOVBQZX", "MOVWLZX", "MOVWQZX", "MOVLQZX",
			"MOVBLSX", "MOVBQSX", "MOVWLSX", "MOVWQSX", "MOVLQSX":
			// MOV<src width><dst width><ZX|SX>: widen into a register (a 32-bit result clears the upper half)
			sw := map[byte]uint8{'B': 8, 'W': 16, 'L': 32}[in.op[3]]
			dw := map[byte]uint8{'L': 32, 'Q': 64}[in.op[4]]
			if !isGPR(in.args[1]) {
				st.unsupported(in, "widening move to a non-register destination")
			}
			v := tf.Resize(st.read(in, in.args[0], sw), dw, strings.HasSuffix(in.op, "SX"))
			st.write(in, in.args[1], v)
		case "SHLQ", "SHLL", "SHRQ", "SHRL", "SARQ", "SARL":
			w := uint8(64)
			if in.op[3] == 'L' {
				w = 32
			}
			d := st.read(in, in.args[1], w)
			cnt := tf.BvAnd(st.read(in, in.args[0], w), tf.Const(w, uint64(w-1)))
			var r *Term
			switch in.op[:3] {
			case "SHL":
				r = tf.Shl(d, cnt)
			case "SHR":
				r = tf.Lshr(d, cnt)
			default:
				r = tf.Ashr(d, cnt)
			}
			st.write(in, in.args[1], r)
			st.setFlagsLogic(r) // (CF/OF after a shift are not used by the routines; they are cleared here)
		case "ORQ", "ORL", "ANDQ", "ANDL":
			w := uint8(64)
			if in.op[len(in.op)-1] == 'L' {
				w = 32
			}
			a, b := st.read(in, in.args[1], w), st.read(in, in.args[0], w)
			var r *Term
			if in.op[0] == 'O' {
				r = tf.BvOr(a, b)
			} else {
				r = tf.BvAnd(a, b)
			}
			st.write(in, in.args[1], r)
			st.setFlagsLogic(r)
		case "NOTQ", "NOTL":
			w := uint8(64)
			if in.op[3] == 'L' {
				w = 32
			}
			st.write(in, in.args[0], tf.BvNot(st.read(in, in.args[0], w)))
		case "NEGQ", "NEGL":
			w := uint8(64)
			if in.op[3] == 'L' {
				w = 32
			}
			r := st.setFlagsSub(tf.Const(w, 0), st.read(in, in.args[0], w))
			st.write(in, in.args[0], r)
		case "CMPQ":
			st.setFlagsSub(st.read(in, in.args[0], 64), st.read(in, in.args[1], 64))
		case "CMPL":
			st.setFlagsSub(st.read(in, in.args[0], 32), st.read(in, in.args[1], 32))
		case "TESTQ":
			st.setFlagsLogic(tf.BvAnd(st.read(in, in.args[0], 64), st.read(in, in.args[1], 64)))
		case "TESTL":
			st.setFlagsLogic(tf.BvAnd(st.read(in, in.args[0], 32), st.read(in, in.args[1], 32)))
		case "XORB", "XORW", "XORL", "XORQ":
			w := map[string]uint8{"XORB": 8, "XORW": 16, "XORL": 32, "XORQ": 64}[in.op]
			r := tf.BvXor(st.read(in, in.args[1], w), st.read(in, in.args[0], w))
			if isGPR(in.args[1]) {
				if w < 32 {
					st.unsupported(in, "narrow register destination")
				}
				st.write(in, in.args[1], r)
			} else {
				st.write(in, in.args[1], r)
			}
			st.setFlagsLogic(r)
		case "INCQ":
			cf := st.cf
			r := st.setFlagsAdd(st.read(in, in.args[0], 64), tf.Const(64, 1))
			st.cf = cf
			st.write(in, in.args[0], r)
		case "DECQ":
			cf := st.cf
			r := st.setFlagsSub(st.read(in, in.args[0], 64), tf.Const(64, 1))
			st.cf = cf
			st.write(in, in.args[0], r)
		case "ADDQ":
			r := st.setFlagsAdd(st.read(in, in.args[1], 64), st.read(in, in.args[0], 64))
			st.write(in, in.args[1], r)
		case "SUBQ":
			r := st.setFlagsSub(st.read(in, in.args[1], 64), st.read(in, in.args[0], 64))
			st.write(in, in.args[1], r)
		case "ADDL":
			r := st.setFlagsAdd(st.read(in, in.args[1], 32), st.read(in, in.args[0], 32))
			st.write(in, in.args[1], r)
		case "SUBL":
			r := st.setFlagsSub(st.read(in, in.args[1], 32), st.read(in, in.args[0], 32))
			st.write(in, in.args[1], r)
		case "INCL":
			cf := st.cf
			r := st.setFlagsAdd(st.read(in, in.args[0], 32), tf.Const(32, 1))
			st.cf = cf
			st.write(in, in.args[0], r)
		case "DECL":
			cf := st.cf
			r := st.setFlagsSub(st.read(in, in.args[0], 32), tf.Const(32, 1))
			st.cf = cf
			st.write(in, in.args[0], r)
		case "ROLL", "RORL", "ROLQ", "RORQ", "ROLW", "RORW", "ROLB", "RORB":
			k, ok := evalAsmConst(strings.TrimPrefix(in.args[0], "$"))
			if !ok || !strings.HasPrefix(in.args[0], "$") {
				st.unsupported(in, "rotate count")
			}
			w := map[byte]uint8{'L': 32, 'Q': 64, 'W': 16, 'B': 8}[in.op[3]]
			k &= int64(w - 1)
			if in.op[2] == 'R' && k != 0 {
				k = int64(w) - k // rotate right by k = rotate left by w-k
			}
			x := st.read(in, in.args[1], w)
			r := x
			if k != 0 {
				r = tf.BvOr(tf.Shl(x, tf.Const(w, uint64(k))), tf.Lshr(x, tf.Const(w, uint64(int64(w)-k))))
			}
			st.write(in, in.args[1], r)
		case "PUNPCKLQDQ":
			src, dst := st.xreg(in.args[0]), st.xreg(in.args[1])
			st.xregs[in.args[1]] = [2]*Term{dst[0], src[0]}
		case "MOVOU":
			if isXReg(in.args[1]) {
				addr, ok := st.addrOf(in, in.args[0])
				if !ok {
					st.unsupported(in, "source")
				}
				b := st.loadBytes(in, addr, 16)
				st.xregs[in.args[1]] = [2]*Term{st.fromBytes(b[:8]), st.fromBytes(b[8:])}
			} else if isXReg(in.args[0]) {
				addr, ok := st.addrOf(in, in.args[1])
				if !ok {
					st.unsupported(in, "destination")
				}
				x := st.xreg(in.args[0])
				st.storeBytes(in, addr, append(st.bytesOf(x[0]), st.bytesOf(x[1])...))
			} else {
				st.unsupported(in, "operands")
			}
		case "PXOR":
			src, dst := st.xreg(in.args[0]), st.xreg(in.args[1])
			st.xregs[in.args[1]] = [2]*Term{tf.BvXor(dst[0], src[0]), tf.BvXor(dst[1], src[1])}
		case "JMP":
			jump(tf.True)
		case "JZ", "JE", "JEQ":
			jump(st.zf)
		case "JNZ", "JNE":
			jump(tf.Not(st.zf))
		case "JLE":
			jump(tf.Or(st.zf, tf.Not(tf.Eq(st.sf, st.of))))
		case "JL", "JLT":
			jump(tf.Not(tf.Eq(st.sf, st.of)))
		case "JGE":
			jump(tf.Eq(st.sf, st.of))
		case "JG", "JGT":
			jump(tf.And(tf.Not(st.zf), tf.Eq(st.sf, st.of)))
		case "JA", "JHI":
			jump(tf.And(tf.Not(st.cf), tf.Not(st.zf)))
		case "JBE", "JLS":
			jump(tf.Or(st.cf, st.zf))
		case "JS", "JMI":
			jump(st.sf)
		case "JNS", "JPL":
			jump(tf.Not(st.sf))
		case "JAE", "JCC":
			jump(tf.Not(st.cf))
		case "JB", "JCS":
			jump(st.cf)
		case "RET":
			m.asmOOB += st.oob
			if st.ret == nil {
				m.unsupported("assembly returned without writing its result")
			}
			return tf.Resize(st.ret, 32, false)
		default:
			st.unsupported(in, "unknown mnemonic")
		}
	}
}

var _ = fmt.Sprintf

// xreg reads a vector register. A register the routine has not written holds whatever the caller left in it: an
// arbitrary value, i.e. two fresh solver variables (a routine whose result depends on them is wrong for almost all of
// their values, and the solver picks one that shows it).
func (st *asmState) xreg(name string) [2]*Term {
	if x, ok := st.xregs[name]; ok {
		return x
	}
	x := [2]*Term{st.m.newInput("asm-uninitialised-"+name+"-lo", 64), st.m.newInput("asm-uninitialised-"+name+"-hi", 64)}
	st.xregs[name] = x
	st.m.res.Stubs["asm: a vector register read before the routine wrote it holds an arbitrary value"]++
	return x
}
