package main

import "golang.org/x/tools/go/ssa"

type AsmFunc struct {
	Name string
	File string
}

func ParseAsm(src, file string) map[string]*AsmFunc { return map[string]*AsmFunc{} }

func (m *Machine) callAsm(fr *Frame, fn *ssa.Function, af *AsmFunc, args []Value) Value {
	m.unsupported("assembly function %s", fn)
	return nil
}
