#!/bin/bash
# run_all.sh [quick|thorough] : run every registered check in turn, print one summary line each
cd "$(dirname "$0")"
tier=${1:-quick}
for p in $(python3 -c "import json;print(' '.join(c['property_id'] for c in json.load(open('MANIFEST.json'))['checks']))"); do
  s=$(date +%s)
  out=$(./check $p $tier 2>&1); rc=$?
  e=$(( $(date +%s) - s ))
  echo "$p exit=$rc ${e}s $(echo "$out" | grep -c '^INCONCLUSIVE') inconclusive $(echo "$out" | grep -c '^KNOWN-FINDING') known | $(echo "$out" | tail -1 | cut -c1-200)"
  echo "$out" | grep -E '^(VIOLATION|INCONCLUSIVE)' | cut -c1-250 | head -5
done
