#!/bin/bash
# seed_matrix.sh : run the quick check of the owning property against every kept seeded change; one line per seed
cd "$(dirname "$0")"
out=seeded/RESULTS.txt
: > $out.tmp
for d in seeded/*/; do
  name=$(basename $d)
  prop=$(python3 -c "import json;print(json.load(open('$d/meta.json'))['property'])")
  res=$(./seedtool.sh run $name $prop quick 2>&1)
  rc=$(echo "$res" | grep -o "exit=[0-9]*" | head -1)
  nv=$(echo "$res" | grep -c "obligation=")
  ob=$(echo "$res" | grep "obligation=" | sed 's/.*obligation=\([^ ]*\).*/\1/' | sort -u | head -3 | tr '\n' ' ')
  echo "$name property=$prop $rc violations_reported=$nv obligations: $ob" | tee -a $out.tmp
done
mv $out.tmp $out
