#!/bin/bash
# seed_matrix.sh [shards] : for every kept seeded change, (1) re-confirm it on the current /repo HEAD (suite passes with
# it, its demonstration fails with it and passes without it) and (2) run the quick check of the owning property against
# it. One line per seed in seeded/RESULTS.txt. Shards run in parallel; wall-clock budgets of the checks are stretched.
cd "$(dirname "$0")"
shards=${1:-3}
export VERIF_TIME_MULT=$((shards+1))
out=seeded/RESULTS.txt
ls -d seeded/*/ | xargs -n1 basename > /tmp/seed_names.txt
rm -f /tmp/seed_shard_*.out
for s in $(seq 0 $((shards-1))); do
  (
  i=0
  while read name; do
    if [ $((i % shards)) -eq $s ]; then
      prop=$(python3 -c "import json;print(json.load(open('seeded/$name/meta.json'))['property'])")
      cp -r seeded/$name /tmp/svsrc_$name
      ver=$(SEED_VERIFY_NOWRITE=1 ./seedtool.sh verify /tmp/svsrc_$name $name 2>&1 | grep -c "^CONFIRMED")
      rm -rf /tmp/svsrc_$name
      res=$(./seedtool.sh run $name $prop quick 2>&1)
      rc=$(echo "$res" | grep -o "exit=[0-9]*" | head -1)
      nv=$(echo "$res" | grep -c "obligation=")
      ob=$(echo "$res" | grep "obligation=" | sed 's/.*obligation=\([^ ]*\).*/\1/' | sort -u | head -3 | tr '\n' ' ')
      echo "$name property=$prop still_valid_on_head=$ver $rc violations_reported=$nv obligations: $ob" >> /tmp/seed_shard_$s.out
    fi
    i=$((i+1))
  done < /tmp/seed_names.txt
  ) &
done
wait
cat /tmp/seed_shard_*.out | sort > $out
