#!/bin/bash
# seed_round.sh <prop> [round] : verify the two seeds a sub-agent delivered under /tmp/seedr<round>/<prop>/seed{1,2}
# (seedtool.sh verify) and run the owning property's quick check against each confirmed one (seedtool.sh run).
cd "$(dirname "$0")"
prop=$1; r=${2:-5}
out=/tmp/seedr$r/$prop/result.txt; : > $out
for n in 1 2; do
  src=/tmp/seedr$r/$prop/seed$n; name=${prop}_r${r}seed$n
  [ -f $src/patch.diff ] || { echo "$name MISSING" >> $out; continue; }
  v=$(./seedtool.sh verify $src $name 2>&1 | tail -3 | tr '\n' ' ')
  echo "$name verify: $v" >> $out
  if echo "$v" | grep -q "CONFIRMED" && ! echo "$v" | grep -q "NOT-CONFIRMED"; then
    VERIF_TIME_MULT=2 ./seedtool.sh run $name $prop quick >> $out 2>&1
  fi
done
cat $out
