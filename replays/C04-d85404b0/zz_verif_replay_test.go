package websocket

import (
	"encoding/json"
	"fmt"
	"sort"
	"testing"
	"time"
)

type vReplayCaseT struct {
	name    string
	fn      func()
	vals    map[string][]uint64
	params  map[string]int
	repeat  int
	wantID  string
	timeout int
}

func TestVerifReplay(t *testing.T) {
	cases := []vReplayCaseT{
		{name: "vio0", fn: verifC04_cut, vals: map[string][]uint64{"buf": {1}, "cut": {7}, "end": {0}, "frags": {1}, "key": {1,0,0,0,0,0,0,0}, "len": {1,0}, "payload": {254,0}, }, params: map[string]int{"bufs": 2, "client": 0, "frags": 2, "lens": 2, "msgs": 1, }, repeat: 1, wantID: "C04.cut.prefix", timeout: 20},
		{name: "vio1", fn: verifC04_cut, vals: map[string][]uint64{"buf": {1}, "cut": {7}, "end": {2}, "frags": {1}, "key": {1,0,0,0,0,0,0,0}, "len": {1,0}, "payload": {254,0}, }, params: map[string]int{"bufs": 2, "client": 0, "frags": 2, "lens": 2, "msgs": 1, }, repeat: 1, wantID: "C04.cut.prefix", timeout: 20},
		{name: "vio2", fn: verifC04_cut, vals: map[string][]uint64{"buf": {1}, "cut": {7}, "end": {1}, "frags": {1}, "key": {1,0,0,0,0,0,0,0}, "len": {1,0}, "payload": {254,0}, }, params: map[string]int{"bufs": 2, "client": 0, "frags": 2, "lens": 2, "msgs": 1, }, repeat: 1, wantID: "C04.cut.prefix", timeout: 20},
		{name: "vio3", fn: verifC04_cut, vals: map[string][]uint64{"buf": {1}, "cut": {15}, "end": {0}, "frags": {1}, "key": {0,0,0,0,1,0,0,0}, "len": {1,1}, "payload": {0,0,254,0}, }, params: map[string]int{"bufs": 2, "client": 0, "frags": 2, "lens": 2, "msgs": 1, }, repeat: 1, wantID: "C04.cut.prefix", timeout: 20},
		{name: "vio4", fn: verifC04_cut, vals: map[string][]uint64{"buf": {1}, "cut": {15}, "end": {1}, "frags": {1}, "key": {0,0,0,0,1,0,0,0}, "len": {1,1}, "payload": {0,0,254,0}, }, params: map[string]int{"bufs": 2, "client": 0, "frags": 2, "lens": 2, "msgs": 1, }, repeat: 1, wantID: "C04.cut.prefix", timeout: 20},
		{name: "vio5", fn: verifC04_cut, vals: map[string][]uint64{"buf": {1}, "cut": {15}, "end": {2}, "frags": {1}, "key": {0,0,0,0,1,0,0,0}, "len": {1,1}, "payload": {0,0,254,0}, }, params: map[string]int{"bufs": 2, "client": 0, "frags": 2, "lens": 2, "msgs": 1, }, repeat: 1, wantID: "C04.cut.prefix", timeout: 20},
		{name: "wit0", fn: verifC04_cut, vals: map[string][]uint64{"buf": {0}, "cut": {0}, "end": {0}, "frags": {0}, "len": {0}, }, params: map[string]int{"bufs": 2, "client": 1, "frags": 2, "lens": 2, "msgs": 1, }, repeat: 1, wantID: "\x00none", timeout: 20},
		{name: "wit1", fn: verifC04_cut, vals: map[string][]uint64{"buf": {0}, "cut": {4}, "end": {1}, "frags": {1}, "len": {1,0}, "payload": {253,3}, }, params: map[string]int{"bufs": 2, "client": 1, "frags": 2, "lens": 2, "msgs": 1, }, repeat: 1, wantID: "\x00none", timeout: 20},
		{name: "wit2", fn: verifC04_cut, vals: map[string][]uint64{"buf": {0}, "cut": {0}, "end": {0}, "frags": {0}, "key": {254,175,120,0}, "len": {0}, }, params: map[string]int{"bufs": 2, "client": 0, "frags": 2, "lens": 2, "msgs": 1, }, repeat: 1, wantID: "\x00none", timeout: 20},
		{name: "wit3", fn: verifC04_cut, vals: map[string][]uint64{"buf": {1}, "cut": {4}, "end": {1}, "frags": {1}, "key": {253,253,3,254,2,192,34,170}, "len": {1,0}, "payload": {204,253}, }, params: map[string]int{"bufs": 2, "client": 0, "frags": 2, "lens": 2, "msgs": 1, }, repeat: 1, wantID: "\x00none", timeout: 20},
		{name: "wit4", fn: verifC04_cut, vals: map[string][]uint64{"buf": {1}, "cut": {11}, "end": {1}, "frags": {1}, "key": {253,255,179,1,0,0,29,2}, "len": {1,0}, "payload": {42,253}, }, params: map[string]int{"bufs": 2, "client": 0, "frags": 2, "lens": 2, "msgs": 1, }, repeat: 1, wantID: "\x00none", timeout: 20},
		{name: "wit5", fn: verifC04_cut, vals: map[string][]uint64{"buf": {1}, "cut": {8}, "end": {2}, "frags": {0}, "key": {239,247,172,1}, "len": {1}, "payload": {253,3}, }, params: map[string]int{"bufs": 2, "client": 0, "frags": 2, "lens": 2, "msgs": 1, }, repeat: 1, wantID: "\x00none", timeout: 20},
		{name: "wit6", fn: verifC04_cut, vals: map[string][]uint64{"buf": {0}, "cut": {0}, "end": {0}, "frags": {0,0}, "len": {0,0}, }, params: map[string]int{"bufs": 1, "client": 1, "frags": 2, "lens": 1, "msgs": 2, "pings": 1, }, repeat: 1, wantID: "\x00none", timeout: 20},
		{name: "wit7", fn: verifC04_cut, vals: map[string][]uint64{"buf": {0}, "cut": {0}, "end": {0}, "frags": {0,0}, "key": {254,175,120,0,2,95,204,242}, "len": {0,0}, }, params: map[string]int{"bufs": 1, "client": 0, "frags": 2, "lens": 1, "msgs": 2, "pings": 1, }, repeat: 1, wantID: "\x00none", timeout: 20},
		{name: "wit8", fn: verifC04_cut, vals: map[string][]uint64{"buf": {0}, "cut": {9}, "end": {0}, "frags": {1,1}, "key": {253,255,179,1,42,253,0,0,13,1,237,60,56,1,253,254}, "len": {0,0,0,0}, "ping": {0,0}, }, params: map[string]int{"bufs": 1, "client": 0, "frags": 2, "lens": 1, "msgs": 2, "pings": 1, }, repeat: 1, wantID: "\x00none", timeout: 20},
		{name: "wit9", fn: verifC04_cut, vals: map[string][]uint64{"buf": {0}, "cut": {24}, "end": {1}, "frags": {1,1}, "key": {254,3,2,252,2,173,3,2,255,1,249,3,13,97,254,12,0,0,0,0}, "len": {0,0,0,0}, "ping": {0,1}, "pingp": {0}, }, params: map[string]int{"bufs": 1, "client": 0, "frags": 2, "lens": 1, "msgs": 2, "pings": 1, }, repeat: 1, wantID: "\x00none", timeout: 20},

	}
	for _, c := range cases {
		var last string
		for it := 0; it < c.repeat; it++ {
			vParams = c.params
			vReset(c.vals)
			done := make(chan string, 1)
			go func() {
				defer func() {
					if r := recover(); r != nil {
						if _, ok := r.(vAssumeViolated); ok {
							done <- "assume"
							return
						}
						done <- fmt.Sprintf("panic: %v", r)
						return
					}
					done <- ""
				}()
				c.fn()
			}()
			pan, hang := "", false
			select {
			case pan = <-done:
			case <-time.After(time.Duration(c.timeout) * time.Second):
				hang = true
			}
			var reached []string
			for k := range vReachedIDs {
				reached = append(reached, k)
			}
			sort.Strings(reached)
			out := map[string]any{"name": c.name, "failures": vFailures, "panic": pan, "hang": hang, "short": vReplayShort,
				"observed": vObserved, "reached": reached, "iter": it}
			b, _ := json.Marshal(out)
			last = string(b)
			hit := hang || (pan != "" && pan != "assume")
			for _, f := range vFailures {
				if c.wantID == "" || f == c.wantID {
					hit = true
				}
			}
			if hit || hang {
				break
			}
		}
		fmt.Println("VERIF-CASE " + last)
	}
}
