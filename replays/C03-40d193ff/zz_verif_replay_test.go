package websocket

import (
	"encoding/json"
	"fmt"
	"os"
	"sort"
	"testing"
	"time"
)

type vReplayCaseT struct {
	name    string
	fn      func()
	vals    map[string][]uint64
	params  map[string]int
	repeat  int
	wantID  string
	timeout int
}

func TestVerifReplay(t *testing.T) {
	cases := []vReplayCaseT{
		{name: "vio0", fn: verifC03_deflate, vals: map[string][]uint64{"bfinal": {1}, "blocks": {0}, "buf": {0}, "cutAt": {7}, "data": {0,0}, "frag": {1}, "n": {2}, "ping": {0}, "rfcExtraOctet": {0}, "second": {0,0}, "secondKind": {0}, "step": {0}, }, params: map[string]int{"client": 1, "deflate": 1, "maxN": 2, }, repeat: 1, wantID: "C03.deflate.messages", timeout: 20},
		{name: "vio1", fn: verifC03_deflate, vals: map[string][]uint64{"bfinal": {1}, "blocks": {0}, "buf": {0}, "data": {0,0}, "frag": {0}, "n": {2}, "rfcExtraOctet": {1}, "second": {0,0}, "secondKind": {2}, "step": {0}, }, params: map[string]int{"client": 1, "deflate": 1, "maxN": 2, }, repeat: 1, wantID: "C03.deflate.messages", timeout: 20},
		{name: "vio2", fn: verifC03_deflate, vals: map[string][]uint64{"bfinal": {1}, "buf": {0}, "frag": {0}, "key": {0,0,0,0,0,0,0,0}, "n": {0}, "rfcExtraOctet": {1}, "second": {0,0}, "secondKind": {1}, "step": {0}, }, params: map[string]int{"client": 0, "deflate": 2, "maxN": 2, }, repeat: 1, wantID: "C03.deflate.messages", timeout: 20},
		{name: "vio3", fn: verifC03_deflate, vals: map[string][]uint64{"bfinal": {1}, "buf": {0}, "cutAt": {5}, "frag": {1}, "key": {0,0,0,0,0,0,0,0,0,0,0,0}, "n": {0}, "ping": {0}, "rfcExtraOctet": {0}, "second": {0,0}, "secondKind": {0}, "step": {0}, }, params: map[string]int{"client": 0, "deflate": 2, "maxN": 2, }, repeat: 1, wantID: "C03.deflate.messages", timeout: 20},
		{name: "wit0", fn: verifC03_hdr_dec, vals: map[string][]uint64{"N": {0}, "first": {0}, "step": {0}, }, params: map[string]int{"maxN": 14, }, repeat: 1, wantID: "\x00none", timeout: 20},
		{name: "wit1", fn: verifC03_hdr_dec, vals: map[string][]uint64{"N": {9}, "first": {0}, "step": {0}, "wire": {253,126,3,254,130,204,253,2,192}, }, params: map[string]int{"maxN": 14, }, repeat: 1, wantID: "\x00none", timeout: 20},
		{name: "wit2", fn: verifC03_hdr_dec, vals: map[string][]uint64{"N": {10}, "first": {0}, "step": {1}, "wire": {253,128,179,1,4,42,253,0,0,29}, }, params: map[string]int{"maxN": 14, }, repeat: 1, wantID: "\x00none", timeout: 20},
		{name: "wit3", fn: verifC03_hdr_dec, vals: map[string][]uint64{"N": {11}, "first": {0}, "step": {0}, "wire": {239,127,172,1,254,253,3,0,218,216,65}, }, params: map[string]int{"maxN": 14, }, repeat: 1, wantID: "\x00none", timeout: 20},
		{name: "wit4", fn: verifC03_hdr_dec, vals: map[string][]uint64{"N": {11}, "first": {2}, "step": {1}, "wire": {254,127,2,252,232,2,173,3,2,210,253}, }, params: map[string]int{"maxN": 14, }, repeat: 1, wantID: "\x00none", timeout: 20},
		{name: "wit5", fn: verifC03_hdr_dec, vals: map[string][]uint64{"N": {14}, "first": {6}, "step": {0}, "wire": {254,128,253,1,172,3,167,1,243,21,220,92,14,21}, }, params: map[string]int{"maxN": 14, }, repeat: 1, wantID: "\x00none", timeout: 20},
		{name: "wit6", fn: verifC03_close_parse, vals: map[string][]uint64{"n": {0}, }, params: map[string]int{"maxN": 125, }, repeat: 1, wantID: "\x00none", timeout: 20},
		{name: "wit7", fn: verifC03_close_parse, vals: map[string][]uint64{"n": {17}, "p": {253,253,3,254,130,204,253,2,192,34,170,10,143,97,1,213,1}, }, params: map[string]int{"maxN": 125, }, repeat: 1, wantID: "\x00none", timeout: 20},
		{name: "wit8", fn: verifC03_close_parse, vals: map[string][]uint64{"n": {36}, "p": {3,237,179,1,4,42,253,0,0,29,2,1,13,1,237,60,53,56,1,253,254,0,3,255,192,196,2,254,0,254,3,177,253,254,42,203}, }, params: map[string]int{"maxN": 125, }, repeat: 1, wantID: "\x00none", timeout: 20},
		{name: "wit9", fn: verifC03_close_parse, vals: map[string][]uint64{"n": {48}, "p": {239,247,172,1,254,253,3,0,218,216,65,2,3,129,15,108,138,3,1,100,212,187,253,227,243,2,254,139,2,52,1,33,1,255,254,1,254,3,10,3,192,72,255,254,255,3,111,2}, }, params: map[string]int{"maxN": 125, }, repeat: 1, wantID: "\x00none", timeout: 20},
		{name: "wit10", fn: verifC03_close_parse, vals: map[string][]uint64{"n": {70}, "p": {3,238,2,252,232,2,173,3,2,210,253,254,255,1,249,3,3,13,97,254,12,114,169,188,253,1,197,255,2,254,3,1,253,2,133,254,132,9,168,36,253,254,255,253,253,2,1,175,168,143,255,249,227,3,145,3,2,27,254,12,252,79,253,81,28,199,4,0,12,36}, }, params: map[string]int{"maxN": 125, }, repeat: 1, wantID: "\x00none", timeout: 20},
		{name: "wit11", fn: verifC03_close_parse, vals: map[string][]uint64{"n": {81}, "p": {3,254,253,1,172,3,167,1,243,21,220,92,14,21,255,253,93,95,164,161,253,74,2,32,4,253,112,7,3,21,1,1,17,18,254,248,6,210,255,0,255,39,22,255,24,135,253,65,255,76,254,252,247,255,254,225,144,22,34,167,184,2,0,181,140,69,1,232,254,173,91,45,254,123,201,254,69,254,51,252,1}, }, params: map[string]int{"maxN": 125, }, repeat: 1, wantID: "\x00none", timeout: 20},
		{name: "wit12", fn: verifC03_struct, vals: map[string][]uint64{"fin": {1,1}, "key": {178,2,95,204,162,2,255,64}, "len": {0,0}, "masked": {1,1}, "opcode": {0,253}, "rand": {30,0,147,16}, "rsv1": {1,1}, "rsv2": {1,0}, "rsv3": {1,1}, }, params: map[string]int{"client": 1, "frames": 2, "lens": 3, }, repeat: 1, wantID: "\x00none", timeout: 20},
		{name: "wit13", fn: verifC03_struct, vals: map[string][]uint64{"fin": {0,1}, "key": {253,2,2,3,2,91,1,32}, "len": {2,1}, "masked": {0,0}, "opcode": {2,8}, "payload": {104,2,219}, "rand": {56,148,3,26}, "rsv1": {0,0}, "rsv2": {0,0}, "rsv3": {0,0}, }, params: map[string]int{"client": 1, "frames": 2, "lens": 3, }, repeat: 1, wantID: "\x00none", timeout: 20},
		{name: "wit14", fn: verifC03_struct, vals: map[string][]uint64{"fin": {1,1}, "key": {253,3,253,1,1,110,0,0}, "len": {1,1}, "masked": {0,0}, "opcode": {2,11}, "payload": {66,253}, "rand": {3,253,38,254}, "rsv1": {0,0}, "rsv2": {0,0}, "rsv3": {0,0}, }, params: map[string]int{"client": 1, "frames": 2, "lens": 3, }, repeat: 1, wantID: "\x00none", timeout: 20},
		{name: "wit15", fn: verifC03_struct, vals: map[string][]uint64{"fin": {1,1}, "key": {1,236,3,160,3,0,71,108}, "len": {0,2}, "masked": {0,1}, "opcode": {1,2}, "payload": {254,254}, "rand": {253,46,0,187}, "rsv1": {0,1}, "rsv2": {0,1}, "rsv3": {0,1}, }, params: map[string]int{"client": 1, "frames": 2, "lens": 3, }, repeat: 1, wantID: "\x00none", timeout: 20},
		{name: "wit16", fn: verifC03_struct, vals: map[string][]uint64{"fin": {1,1}, "key": {178,2,95,204,162,2,255,64}, "len": {0,0}, "masked": {1,1}, "opcode": {0,253}, "rsv1": {1,1}, "rsv2": {1,0}, "rsv3": {1,1}, }, params: map[string]int{"client": 0, "frames": 2, "lens": 3, }, repeat: 1, wantID: "\x00none", timeout: 20},
		{name: "wit17", fn: verifC03_struct, vals: map[string][]uint64{"fin": {1,0}, "key": {253,2,2,3,255,2,2,91}, "len": {0,2}, "masked": {1,1}, "opcode": {1,9}, "payload": {32,16}, "rsv1": {0,0}, "rsv2": {0,0}, "rsv3": {0,0}, }, params: map[string]int{"client": 0, "frames": 2, "lens": 3, }, repeat: 1, wantID: "\x00none", timeout: 20},
		{name: "wit18", fn: verifC03_struct, vals: map[string][]uint64{"fin": {1,1}, "key": {253,3,253,1,110,0,0,120}, "len": {2,2}, "masked": {1,0}, "opcode": {10,255}, "payload": {66,110,3,253}, "rsv1": {0,1}, "rsv2": {0,0}, "rsv3": {0,1}, }, params: map[string]int{"client": 0, "frames": 2, "lens": 3, }, repeat: 1, wantID: "\x00none", timeout: 20},
		{name: "wit19", fn: verifC03_struct, vals: map[string][]uint64{"fin": {0,1}, "key": {1,236,3,160,0,71,108,41}, "len": {1,2}, "masked": {1,1}, "opcode": {2,9}, "payload": {161,254,253}, "rsv1": {0,1}, "rsv2": {0,0}, "rsv3": {0,1}, }, params: map[string]int{"client": 0, "frames": 2, "lens": 3, }, repeat: 1, wantID: "\x00none", timeout: 20},
		{name: "wit20", fn: verifC03_struct, vals: map[string][]uint64{"fin": {1}, "key": {178,2,95,204}, "len": {0}, "masked": {1}, "opcode": {0}, "rsv1": {1}, "rsv2": {1}, "rsv3": {1}, }, params: map[string]int{"client": 0, "frames": 1, "lens": 6, "step": 1, }, repeat: 1, wantID: "\x00none", timeout: 20},
		{name: "wit21", fn: verifC03_struct, vals: map[string][]uint64{"fin": {1}, "key": {178,2,95,204}, "len": {0}, "masked": {1}, "opcode": {0}, "rand": {90,255,0,107}, "rsv1": {1}, "rsv2": {1}, "rsv3": {1}, }, params: map[string]int{"client": 1, "frames": 1, "lens": 6, "step": 1, }, repeat: 1, wantID: "\x00none", timeout: 20},
		{name: "wit22", fn: verifC03_deflate, vals: map[string][]uint64{"bfinal": {0}, "buf": {0}, "frag": {0}, "n": {0}, "second": {120,0}, "secondKind": {0}, "step": {0}, }, params: map[string]int{"client": 1, "deflate": 1, "maxN": 2, }, repeat: 1, wantID: "\x00none", timeout: 20},
		{name: "wit23", fn: verifC03_deflate, vals: map[string][]uint64{"b1": {0}, "bfinal": {0}, "blocks": {1}, "buf": {0}, "cutAt": {2}, "data": {89,251}, "frag": {1}, "n": {2}, "ping": {0}, "second": {1,107}, "secondKind": {2}, "step": {0}, }, params: map[string]int{"client": 1, "deflate": 1, "maxN": 2, }, repeat: 1, wantID: "\x00none", timeout: 20},
		{name: "wit24", fn: verifC03_deflate, vals: map[string][]uint64{"bfinal": {0}, "buf": {0}, "frag": {0}, "key": {120,0,3,178,242,90,255,0}, "n": {0}, "second": {2,95}, "secondKind": {0}, "step": {0}, }, params: map[string]int{"client": 0, "deflate": 2, "maxN": 2, }, repeat: 1, wantID: "\x00none", timeout: 20},
		{name: "wit25", fn: verifC03_deflate, vals: map[string][]uint64{"bfinal": {1}, "buf": {0}, "cutAt": {1}, "data": {89}, "frag": {1}, "key": {0,18,1,1,107,77,1,205,249,230,30,0}, "n": {1}, "ping": {0}, "rfcExtraOctet": {0}, "second": {0,254}, "secondKind": {1}, "step": {0}, }, params: map[string]int{"client": 0, "deflate": 2, "maxN": 2, }, repeat: 1, wantID: "\x00none", timeout: 20},
		{name: "wit26", fn: verifC03_deflate, vals: map[string][]uint64{"b1": {0}, "bfinal": {1}, "blocks": {1}, "buf": {1}, "data": {2,3}, "frag": {0}, "key": {255,255,1,255,176,0,91,198}, "n": {2}, "rfcExtraOctet": {0}, "second": {254,254}, "secondKind": {0}, "step": {1}, }, params: map[string]int{"client": 0, "deflate": 2, "maxN": 2, }, repeat: 1, wantID: "\x00none", timeout: 20},
		{name: "wit27", fn: verifC03_deflate, vals: map[string][]uint64{"bfinal": {0}, "blocks": {0}, "buf": {1}, "cutAt": {6}, "data": {2,2}, "frag": {1}, "key": {3,2,255,3,153,253,12,157,254,1,58,7}, "n": {2}, "ping": {0}, "second": {0,3}, "secondKind": {2}, "step": {0}, }, params: map[string]int{"client": 0, "deflate": 2, "maxN": 2, }, repeat: 1, wantID: "\x00none", timeout: 20},
		{name: "wit28", fn: verifC03_deflate, vals: map[string][]uint64{"b1": {0}, "bfinal": {0}, "blocks": {1}, "buf": {1}, "cutAt": {13}, "data": {145,2}, "frag": {1}, "key": {254,21,155,255,253,253,14,1,253,255,2,87}, "n": {2}, "ping": {0}, "second": {0,6}, "secondKind": {1}, "step": {1}, }, params: map[string]int{"client": 0, "deflate": 2, "maxN": 2, }, repeat: 1, wantID: "\x00none", timeout: 20},
		{name: "wit29", fn: verifC03_deflate, vals: map[string][]uint64{"bfinal": {0}, "buf": {0}, "frag": {0}, "n": {0}, "second": {120,0}, "secondKind": {0}, "step": {0}, }, params: map[string]int{"client": 1, "deflate": 4, "maxN": 2, }, repeat: 1, wantID: "\x00none", timeout: 20},
		{name: "wit30", fn: verifC03_deflate, vals: map[string][]uint64{"bfinal": {0}, "blocks": {0}, "buf": {0}, "cutAt": {3}, "data": {89,251}, "frag": {1}, "n": {2}, "ping": {1}, "pingp": {1}, "rand": {233,0,254,0}, "second": {1,107}, "secondKind": {1}, "step": {1}, }, params: map[string]int{"client": 1, "deflate": 4, "maxN": 2, }, repeat: 1, wantID: "\x00none", timeout: 20},
		{name: "wit31", fn: verifC03_deflate, vals: map[string][]uint64{"b1": {0}, "bfinal": {1}, "blocks": {1}, "buf": {1}, "cutAt": {8}, "data": {2,2}, "frag": {1}, "n": {2}, "ping": {0}, "rfcExtraOctet": {1}, "second": {3,153}, "secondKind": {2}, "step": {1}, }, params: map[string]int{"client": 1, "deflate": 4, "maxN": 2, }, repeat: 1, wantID: "\x00none", timeout: 20},
		{name: "wit32", fn: verifC03_deflate, vals: map[string][]uint64{"bfinal": {0}, "buf": {1}, "cutAt": {5}, "data": {254}, "frag": {1}, "n": {1}, "ping": {0}, "second": {64,94}, "secondKind": {2}, "step": {1}, }, params: map[string]int{"client": 1, "deflate": 4, "maxN": 2, }, repeat: 1, wantID: "\x00none", timeout: 20},
		{name: "wit33", fn: verifC03_deflate, vals: map[string][]uint64{"bfinal": {1}, "buf": {0}, "cutAt": {4}, "data": {145}, "frag": {1}, "n": {1}, "ping": {1}, "pingp": {3}, "rand": {253,14,1,166}, "rfcExtraOctet": {1}, "second": {254,21}, "secondKind": {0}, "step": {0}, }, params: map[string]int{"client": 1, "deflate": 4, "maxN": 2, }, repeat: 1, wantID: "\x00none", timeout: 20},
		{name: "wit34", fn: verifC03_deflate, vals: map[string][]uint64{"bfinal": {0}, "buf": {0}, "frag": {0}, "key": {120,0,3,178,242,90,255,0}, "n": {0}, "second": {2,95}, "secondKind": {0}, "step": {0}, }, params: map[string]int{"client": 0, "deflate": 3, "maxN": 2, }, repeat: 1, wantID: "\x00none", timeout: 20},
		{name: "wit35", fn: verifC03_deflate, vals: map[string][]uint64{"b1": {0}, "bfinal": {0}, "blocks": {1}, "buf": {1}, "cutAt": {11}, "data": {89,251}, "frag": {1}, "key": {1,1,107,77,1,205,233,0,30,0,3,26}, "n": {2}, "ping": {0}, "second": {0,249}, "secondKind": {0}, "step": {0}, }, params: map[string]int{"client": 0, "deflate": 3, "maxN": 2, }, repeat: 1, wantID: "\x00none", timeout: 20},
		{name: "wit36", fn: verifC03_deflate, vals: map[string][]uint64{"b1": {0}, "bfinal": {1}, "blocks": {1}, "buf": {0}, "cutAt": {6}, "data": {2,3}, "frag": {1}, "key": {255,1,255,254,254,3,176,0,254,242,1,0,0,0,0,0}, "n": {2}, "ping": {1}, "pingp": {198}, "rfcExtraOctet": {0}, "second": {239,0}, "secondKind": {0}, "step": {1}, }, params: map[string]int{"client": 0, "deflate": 3, "maxN": 2, }, repeat: 1, wantID: "\x00none", timeout: 20},
		{name: "wit37", fn: verifC03_deflate, vals: map[string][]uint64{"bfinal": {1}, "blocks": {0}, "buf": {1}, "cutAt": {6}, "data": {254,102}, "frag": {1}, "key": {255,37,78,131,253,252,1,254,41,3,255,255,0,0,0,0}, "n": {2}, "ping": {1}, "pingp": {106}, "rfcExtraOctet": {0}, "second": {39,253}, "secondKind": {2}, "step": {1}, }, params: map[string]int{"client": 0, "deflate": 3, "maxN": 2, }, repeat: 1, wantID: "\x00none", timeout: 20},

	}
	only := os.Getenv("VERIF_CASE")
	for _, c := range cases {
		if only != "" && c.name != only {
			continue
		}
		var last string
		for it := 0; it < c.repeat; it++ {
			vParams = c.params
			vReset(c.vals)
			done := make(chan string, 1)
			go func() {
				defer func() {
					if r := recover(); r != nil {
						if _, ok := r.(vAssumeViolated); ok {
							done <- "assume"
							return
						}
						done <- fmt.Sprintf("panic: %v", r)
						return
					}
					done <- ""
				}()
				c.fn()
			}()
			pan, hang := "", false
			select {
			case pan = <-done:
			case <-time.After(time.Duration(c.timeout) * time.Second):
				hang = true
			}
			var reached []string
			for k := range vReachedIDs {
				reached = append(reached, k)
			}
			sort.Strings(reached)
			out := map[string]any{"name": c.name, "failures": vFailures, "panic": pan, "hang": hang, "short": vReplayShort,
				"observed": vObserved, "reached": reached, "iter": it}
			b, _ := json.Marshal(out)
			last = string(b)
			hit := hang || (pan != "" && pan != "assume")
			for _, f := range vFailures {
				if c.wantID == "" || f == c.wantID {
					hit = true
				}
			}
			if hit || hang {
				break
			}
		}
		fmt.Println("VERIF-CASE " + last)
	}
}
