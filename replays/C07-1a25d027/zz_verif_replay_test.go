package websocket

import (
	"encoding/json"
	"fmt"
	"os"
	"sort"
	"testing"
	"time"
)

type vReplayCaseT struct {
	name    string
	fn      func()
	vals    map[string][]uint64
	params  map[string]int
	repeat  int
	wantID  string
	timeout int
}

func TestVerifReplay(t *testing.T) {
	cases := []vReplayCaseT{
		{name: "vio0", fn: verifC07_own, vals: map[string][]uint64{"a": {0,0,0}, "a2": {0}, "midA": {1}, "op": {0,0,0}, "probeB": {0}, "rand": {0,0,0,0}, }, params: map[string]int{"client": 1, "deflate": 1, "ops": 3, }, repeat: 1, wantID: "C07.own.pool-discipline", timeout: 20},
		{name: "wit0", fn: verifC07_own, vals: map[string][]uint64{"a": {254,175,120}, "a2": {0}, "midA": {0}, "op": {0,0,0}, "probeB": {0}, }, params: map[string]int{"client": 1, "deflate": 1, "ops": 3, }, repeat: 1, wantID: "\x00none", timeout: 20},
		{name: "wit1", fn: verifC07_own, vals: map[string][]uint64{"a": {255,255,253}, "a2": {215}, "b": {1,253,205}, "b2": {25}, "midA": {2}, "op": {0,0,6}, "probeB": {0}, "rand": {3,253,1,197}, }, params: map[string]int{"client": 1, "deflate": 1, "ops": 3, }, repeat: 1, wantID: "\x00none", timeout: 20},
		{name: "wit2", fn: verifC07_own, vals: map[string][]uint64{"a": {19,255,121}, "a2": {251}, "midA": {2}, "op": {2,4,4}, "probeB": {1}, "rand": {3,160,2,161}, }, params: map[string]int{"client": 1, "deflate": 1, "ops": 3, }, repeat: 1, wantID: "\x00none", timeout: 20},
		{name: "wit3", fn: verifC07_own, vals: map[string][]uint64{"a": {254,102,119}, "a2": {2}, "midA": {0}, "op": {2,2,4}, "probeB": {1}, "rand": {37,78,131,253}, }, params: map[string]int{"client": 1, "deflate": 1, "ops": 3, }, repeat: 1, wantID: "\x00none", timeout: 20},
		{name: "wit4", fn: verifC07_own, vals: map[string][]uint64{"a": {172,48,118}, "a2": {254}, "b": {229,253,74}, "b2": {243}, "midA": {0}, "op": {5,6,0}, "probeB": {0}, }, params: map[string]int{"client": 1, "deflate": 1, "ops": 3, }, repeat: 1, wantID: "\x00none", timeout: 20},
		{name: "wit5", fn: verifC07_own, vals: map[string][]uint64{"a": {254,175,120}, "a2": {95}, "key": {0,3,178,2,204,242,90,255}, "midA": {0}, "op": {0,0,0}, "probeB": {0}, }, params: map[string]int{"client": 0, "deflate": 1, "ops": 3, }, repeat: 1, wantID: "\x00none", timeout: 20},
		{name: "wit6", fn: verifC07_own, vals: map[string][]uint64{"a": {255,255,253}, "a2": {25}, "b": {0,0,0}, "b2": {254}, "key": {215,34,253,3,253,1,197,66,110,1,253,205,255,1,110,0,0,0,248,3,25,203,0,253}, "midA": {2}, "op": {0,0,6}, "probeB": {0}, }, params: map[string]int{"client": 0, "deflate": 1, "ops": 3, }, repeat: 1, wantID: "\x00none", timeout: 20},
		{name: "wit7", fn: verifC07_own, vals: map[string][]uint64{"a": {19,255,121}, "a2": {9}, "key": {251,121,1,236,3,160,2,161,255,252,214,2,3,0,71,108}, "midA": {2}, "op": {2,3,1}, "probeB": {1}, }, params: map[string]int{"client": 0, "deflate": 1, "ops": 3, }, repeat: 1, wantID: "\x00none", timeout: 20},
		{name: "wit8", fn: verifC07_own, vals: map[string][]uint64{"a": {254,102,119}, "a2": {255}, "b2": {255}, "key": {2,224,64,94,37,78,131,253,106,41,3,255,39,253,224,44}, "midA": {0}, "op": {0,4,5}, "probeB": {1}, }, params: map[string]int{"client": 0, "deflate": 1, "ops": 3, }, repeat: 1, wantID: "\x00none", timeout: 20},
		{name: "wit9", fn: verifC07_own, vals: map[string][]uint64{"a": {172,48,118}, "a2": {253}, "b2": {57}, "key": {254,70,1,229,74,243,253,0,1,145,197,178,210,1,127,253}, "midA": {0}, "op": {6,6,4}, "probeB": {1}, }, params: map[string]int{"client": 0, "deflate": 1, "ops": 3, }, repeat: 1, wantID: "\x00none", timeout: 20},
		{name: "wit10", fn: verifC07_own, vals: map[string][]uint64{"a": {254,175,120}, "a2": {0}, "midA": {0}, "op": {0,0,0}, "probeB": {0}, }, params: map[string]int{"client": 1, "deflate": 2, "ops": 3, }, repeat: 1, wantID: "\x00none", timeout: 20},
		{name: "wit11", fn: verifC07_own, vals: map[string][]uint64{"a": {3,2,240}, "a2": {130}, "b": {255,0,253}, "b2": {0}, "midA": {2}, "op": {5,2,3}, "probeB": {0}, }, params: map[string]int{"client": 1, "deflate": 2, "ops": 3, }, repeat: 1, wantID: "\x00none", timeout: 20},
		{name: "wit12", fn: verifC07_own, vals: map[string][]uint64{"a": {190,254,1}, "a2": {3}, "midA": {2}, "op": {4,0,3}, "probeB": {1}, "rand": {2,2,3,254}, }, params: map[string]int{"client": 1, "deflate": 2, "ops": 3, }, repeat: 1, wantID: "\x00none", timeout: 20},
		{name: "wit13", fn: verifC07_own, vals: map[string][]uint64{"a": {255,255,253}, "a2": {215}, "midA": {0}, "op": {3,2,2}, "probeB": {1}, }, params: map[string]int{"client": 1, "deflate": 2, "ops": 3, }, repeat: 1, wantID: "\x00none", timeout: 20},
		{name: "wit14", fn: verifC07_own, vals: map[string][]uint64{"a": {172,48,118}, "a2": {254}, "midA": {0}, "op": {4,1,3}, "probeB": {0}, "rand": {229,253,74,243}, }, params: map[string]int{"client": 1, "deflate": 2, "ops": 3, }, repeat: 1, wantID: "\x00none", timeout: 20},
		{name: "wit15", fn: verifC07_own, vals: map[string][]uint64{"a": {254,175,120}, "a2": {95}, "key": {0,3,178,2,204,242,90,255}, "midA": {0}, "op": {0,0,0}, "probeB": {0}, }, params: map[string]int{"client": 0, "deflate": 4, "ops": 3, }, repeat: 1, wantID: "\x00none", timeout: 20},
		{name: "wit16", fn: verifC07_own, vals: map[string][]uint64{"a": {190,254,1}, "a2": {113}, "key": {3,188,253,2,2,3,254,104,2,1,154,255,255,2,2,91}, "midA": {1}, "op": {2,3,1}, "probeB": {1}, }, params: map[string]int{"client": 0, "deflate": 4, "ops": 3, }, repeat: 1, wantID: "\x00none", timeout: 20},
		{name: "wit17", fn: verifC07_own, vals: map[string][]uint64{"a": {255,255,253}, "a2": {25}, "b": {3,253,38}, "b2": {3}, "key": {215,34,253,3,253,1,197,66,110,1,253,205,255,1,110,0,254,191,253,248,254,25,203,0}, "midA": {1}, "op": {4,6,1}, "probeB": {0}, }, params: map[string]int{"client": 0, "deflate": 4, "ops": 3, }, repeat: 1, wantID: "\x00none", timeout: 20},
		{name: "wit18", fn: verifC07_own, vals: map[string][]uint64{"a": {19,255,121}, "a2": {9}, "key": {251,121,1,236,3,160,2,161,255,252,214,2,3,0,71,108}, "midA": {2}, "op": {4,1,2}, "probeB": {1}, }, params: map[string]int{"client": 0, "deflate": 4, "ops": 3, }, repeat: 1, wantID: "\x00none", timeout: 20},
		{name: "wit19", fn: verifC07_own, vals: map[string][]uint64{"a": {254,102,119}, "a2": {255}, "b2": {255}, "key": {2,224,64,94,37,78,131,253,161,106,41,3,255,39,253,0}, "midA": {0}, "op": {2,6,6}, "probeB": {1}, }, params: map[string]int{"client": 0, "deflate": 4, "ops": 3, }, repeat: 1, wantID: "\x00none", timeout: 20},
		{name: "wit20", fn: verifC07_own, vals: map[string][]uint64{"a": {172,48,118}, "a2": {253}, "b": {1,145,197}, "b2": {127}, "key": {254,70,1,229,74,243,253,0,178,57,210,1,253,0,0,0}, "midA": {0}, "op": {6,5,4}, "probeB": {0}, }, params: map[string]int{"client": 0, "deflate": 4, "ops": 3, }, repeat: 1, wantID: "\x00none", timeout: 20},

	}
	only := os.Getenv("VERIF_CASE")
	for _, c := range cases {
		if only != "" && c.name != only {
			continue
		}
		var last string
		for it := 0; it < c.repeat; it++ {
			vParams = c.params
			vReset(c.vals)
			done := make(chan string, 1)
			go func() {
				defer func() {
					if r := recover(); r != nil {
						if _, ok := r.(vAssumeViolated); ok {
							done <- "assume"
							return
						}
						done <- fmt.Sprintf("panic: %v", r)
						return
					}
					done <- ""
				}()
				c.fn()
			}()
			pan, hang := "", false
			select {
			case pan = <-done:
			case <-time.After(time.Duration(c.timeout) * time.Second):
				hang = true
			}
			var reached []string
			for k := range vReachedIDs {
				reached = append(reached, k)
			}
			sort.Strings(reached)
			out := map[string]any{"name": c.name, "failures": vFailures, "panic": pan, "hang": hang, "short": vReplayShort,
				"observed": vObserved, "reached": reached, "iter": it}
			b, _ := json.Marshal(out)
			last = string(b)
			hit := hang || (pan != "" && pan != "assume")
			for _, f := range vFailures {
				if c.wantID == "" || f == c.wantID {
					hit = true
				}
			}
			if hit || hang {
				break
			}
		}
		fmt.Println("VERIF-CASE " + last)
	}
}
