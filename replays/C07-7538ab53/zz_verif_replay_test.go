package websocket

import (
	"encoding/json"
	"fmt"
	"os"
	"sort"
	"testing"
	"time"
)

type vReplayCaseT struct {
	name    string
	fn      func()
	vals    map[string][]uint64
	params  map[string]int
	repeat  int
	wantID  string
	timeout int
}

func TestVerifReplay(t *testing.T) {
	cases := []vReplayCaseT{
		{name: "vio0", fn: verifC07_own, vals: map[string][]uint64{"a": {0,0,0}, "a2": {0}, "midA": {1}, "op": {0,0,0}, "probeB": {0}, "rand": {0,0,0,0}, }, params: map[string]int{"client": 1, "deflate": 1, "ops": 3, }, repeat: 1, wantID: "\x00none", timeout: 20},
		{name: "wit0", fn: verifC07_own, vals: map[string][]uint64{"a": {254,175,120}, "a2": {0}, "midA": {0}, "op": {0,0,0}, "probeB": {0}, }, params: map[string]int{"client": 1, "deflate": 1, "ops": 3, }, repeat: 1, wantID: "\x00none", timeout: 20},
		{name: "wit1", fn: verifC07_own, vals: map[string][]uint64{"a": {3,2,240}, "a2": {130}, "b2": {255}, "midA": {0}, "op": {6,4,0}, "probeB": {1}, "rand": {253,0,3,58}, }, params: map[string]int{"client": 1, "deflate": 1, "ops": 3, }, repeat: 1, wantID: "\x00none", timeout: 20},
		{name: "wit2", fn: verifC07_own, vals: map[string][]uint64{"a": {190,254,1}, "a2": {3}, "b": {2,2,3}, "b2": {254}, "midA": {0}, "op": {6,0,5}, "probeB": {0}, }, params: map[string]int{"client": 1, "deflate": 1, "ops": 3, }, repeat: 1, wantID: "\x00none", timeout: 20},
		{name: "wit3", fn: verifC07_own, vals: map[string][]uint64{"a": {255,255,253}, "a2": {215}, "b": {1,197,66}, "b2": {110}, "midA": {1}, "op": {3,1,5}, "probeB": {0}, }, params: map[string]int{"client": 1, "deflate": 1, "ops": 3, }, repeat: 1, wantID: "\x00none", timeout: 20},
		{name: "wit4", fn: verifC07_own, vals: map[string][]uint64{"a": {254,102,119}, "a2": {2}, "b": {94,255,37}, "b2": {78}, "midA": {2}, "op": {5,6,1}, "probeB": {0}, "rand": {252,1,254,161}, }, params: map[string]int{"client": 1, "deflate": 1, "ops": 3, }, repeat: 1, wantID: "\x00none", timeout: 20},
		{name: "wit5", fn: verifC07_own, vals: map[string][]uint64{"a": {172,48,118}, "a2": {254}, "midA": {2}, "op": {4,1,3}, "probeB": {1}, "rand": {229,253,74,243}, }, params: map[string]int{"client": 1, "deflate": 1, "ops": 3, }, repeat: 1, wantID: "\x00none", timeout: 20},
		{name: "wit6", fn: verifC07_own, vals: map[string][]uint64{"a": {254,175,120}, "a2": {95}, "key": {0,3,178,2,204,242,90,255}, "midA": {0}, "op": {0,0,0}, "probeB": {0}, }, params: map[string]int{"client": 0, "deflate": 1, "ops": 3, }, repeat: 1, wantID: "\x00none", timeout: 20},
		{name: "wit7", fn: verifC07_own, vals: map[string][]uint64{"a": {3,2,240}, "a2": {0}, "b": {3,129,198}, "b2": {255}, "key": {130,102,1,255,253,0,3,58,149,124,120,65,202,0,0,0}, "midA": {0}, "op": {6,2,5}, "probeB": {0}, }, params: map[string]int{"client": 0, "deflate": 1, "ops": 3, }, repeat: 1, wantID: "\x00none", timeout: 20},
		{name: "wit8", fn: verifC07_own, vals: map[string][]uint64{"a": {190,254,1}, "a2": {113}, "key": {3,188,253,2,2,3,254,104,2,1,154,255,255,2,2,91}, "midA": {1}, "op": {3,4,3}, "probeB": {0}, }, params: map[string]int{"client": 0, "deflate": 1, "ops": 3, }, repeat: 1, wantID: "\x00none", timeout: 20},
		{name: "wit9", fn: verifC07_own, vals: map[string][]uint64{"a": {19,255,121}, "a2": {3}, "b": {9,3,0}, "b2": {254}, "key": {251,121,1,236,160,2,161,255,71,108,41,254,0,0,0,0}, "midA": {0}, "op": {3,6,2}, "probeB": {0}, }, params: map[string]int{"client": 0, "deflate": 1, "ops": 3, }, repeat: 1, wantID: "\x00none", timeout: 20},
		{name: "wit10", fn: verifC07_own, vals: map[string][]uint64{"a": {254,102,119}, "a2": {255}, "key": {2,224,64,94,37,78,131,253}, "midA": {0}, "op": {3,1,0}, "probeB": {1}, }, params: map[string]int{"client": 0, "deflate": 1, "ops": 3, }, repeat: 1, wantID: "\x00none", timeout: 20},
		{name: "wit11", fn: verifC07_own, vals: map[string][]uint64{"a": {172,48,118}, "a2": {253}, "b2": {1}, "key": {254,70,1,229,74,243,253,0,197,178,57,210,127,253,31,2}, "midA": {0}, "op": {4,4,5}, "probeB": {1}, }, params: map[string]int{"client": 0, "deflate": 1, "ops": 3, }, repeat: 1, wantID: "\x00none", timeout: 20},
		{name: "wit12", fn: verifC07_own, vals: map[string][]uint64{"a": {254,175,120}, "a2": {0}, "midA": {0}, "op": {0,0,0}, "probeB": {0}, }, params: map[string]int{"client": 1, "deflate": 2, "ops": 3, }, repeat: 1, wantID: "\x00none", timeout: 20},
		{name: "wit13", fn: verifC07_own, vals: map[string][]uint64{"a": {3,2,240}, "a2": {130}, "b": {58,61,78}, "b2": {3}, "midA": {0}, "op": {4,5,0}, "probeB": {0}, "rand": {255,0,253,0}, }, params: map[string]int{"client": 1, "deflate": 2, "ops": 3, }, repeat: 1, wantID: "\x00none", timeout: 20},
		{name: "wit14", fn: verifC07_own, vals: map[string][]uint64{"a": {190,254,1}, "a2": {3}, "midA": {2}, "op": {1,2,1}, "probeB": {1}, "rand": {2,2,3,254}, }, params: map[string]int{"client": 1, "deflate": 2, "ops": 3, }, repeat: 1, wantID: "\x00none", timeout: 20},
		{name: "wit15", fn: verifC07_own, vals: map[string][]uint64{"a": {19,255,121}, "a2": {251}, "midA": {0}, "op": {2,2,4}, "probeB": {1}, "rand": {160,2,161,255}, }, params: map[string]int{"client": 1, "deflate": 2, "ops": 3, }, repeat: 1, wantID: "\x00none", timeout: 20},
		{name: "wit16", fn: verifC07_own, vals: map[string][]uint64{"a": {254,102,119}, "a2": {2}, "b2": {252}, "midA": {1}, "op": {4,0,5}, "probeB": {1}, "rand": {94,255,37,78}, }, params: map[string]int{"client": 1, "deflate": 2, "ops": 3, }, repeat: 1, wantID: "\x00none", timeout: 20},
		{name: "wit17", fn: verifC07_own, vals: map[string][]uint64{"a": {172,48,118}, "a2": {254}, "b2": {0}, "midA": {0}, "op": {4,6,2}, "probeB": {1}, "rand": {229,253,74,243}, }, params: map[string]int{"client": 1, "deflate": 2, "ops": 3, }, repeat: 1, wantID: "\x00none", timeout: 20},
		{name: "wit18", fn: verifC07_own, vals: map[string][]uint64{"a": {254,175,120}, "a2": {95}, "key": {0,3,178,2,204,242,90,255}, "midA": {0}, "op": {0,0,0}, "probeB": {0}, }, params: map[string]int{"client": 0, "deflate": 4, "ops": 3, }, repeat: 1, wantID: "\x00none", timeout: 20},
		{name: "wit19", fn: verifC07_own, vals: map[string][]uint64{"a": {3,2,240}, "a2": {129}, "key": {130,102,1,255,0,253,0,3,58,61,78,3,198,149,124,120}, "midA": {2}, "op": {0,0,2}, "probeB": {0}, }, params: map[string]int{"client": 0, "deflate": 4, "ops": 3, }, repeat: 1, wantID: "\x00none", timeout: 20},
		{name: "wit20", fn: verifC07_own, vals: map[string][]uint64{"a": {19,255,121}, "a2": {9}, "b2": {52}, "key": {251,121,1,236,3,160,2,161,255,252,214,2,3,0,71,108,253,46,0,187,25,0,0,0}, "midA": {2}, "op": {1,6,5}, "probeB": {1}, }, params: map[string]int{"client": 0, "deflate": 4, "ops": 3, }, repeat: 1, wantID: "\x00none", timeout: 20},
		{name: "wit21", fn: verifC07_own, vals: map[string][]uint64{"a": {254,102,119}, "a2": {255}, "b2": {255}, "key": {2,224,64,94,37,78,131,253,106,41,3,255,39,253,224,44}, "midA": {0}, "op": {1,3,6}, "probeB": {1}, }, params: map[string]int{"client": 0, "deflate": 4, "ops": 3, }, repeat: 1, wantID: "\x00none", timeout: 20},
		{name: "wit22", fn: verifC07_own, vals: map[string][]uint64{"a": {172,48,118}, "a2": {253}, "key": {254,70,1,229,74,243,253,0}, "midA": {0}, "op": {4,2,2}, "probeB": {1}, }, params: map[string]int{"client": 0, "deflate": 4, "ops": 3, }, repeat: 1, wantID: "\x00none", timeout: 20},

	}
	only := os.Getenv("VERIF_CASE")
	for _, c := range cases {
		if only != "" && c.name != only {
			continue
		}
		var last string
		for it := 0; it < c.repeat; it++ {
			vParams = c.params
			vReset(c.vals)
			done := make(chan string, 1)
			go func() {
				defer func() {
					if r := recover(); r != nil {
						if _, ok := r.(vAssumeViolated); ok {
							done <- "assume"
							return
						}
						done <- fmt.Sprintf("panic: %v", r)
						return
					}
					done <- ""
				}()
				c.fn()
			}()
			pan, hang := "", false
			select {
			case pan = <-done:
			case <-time.After(time.Duration(c.timeout) * time.Second):
				hang = true
			}
			var reached []string
			for k := range vReachedIDs {
				reached = append(reached, k)
			}
			sort.Strings(reached)
			out := map[string]any{"name": c.name, "failures": vFailures, "panic": pan, "hang": hang, "short": vReplayShort,
				"observed": vObserved, "reached": reached, "iter": it}
			b, _ := json.Marshal(out)
			last = string(b)
			hit := hang || (pan != "" && pan != "assume")
			for _, f := range vFailures {
				if c.wantID == "" || f == c.wantID {
					hit = true
				}
			}
			if hit || hang {
				break
			}
		}
		fmt.Println("VERIF-CASE " + last)
	}
}
