package websocket

import (
	"encoding/json"
	"fmt"
	"sort"
	"testing"
	"time"
)

type vReplayCaseT struct {
	name    string
	fn      func()
	vals    map[string][]uint64
	params  map[string]int
	repeat  int
	wantID  string
	timeout int
}

func TestVerifReplay(t *testing.T) {
	cases := []vReplayCaseT{
		{name: "vio0", fn: verifC03_struct, vals: map[string][]uint64{"fin": {1,0}, "key": {0,0,0,0,0,0,0,0}, "len": {0,0}, "masked": {1,1}, "opcode": {9,0}, "rand": {0,0,0,0,0,0,0,0}, "rsv1": {0,1}, "rsv2": {0,0}, "rsv3": {0,0}, }, params: map[string]int{"client": 1, "frames": 2, "lens": 3, }, repeat: 1, wantID: "C03.struct.pongs", timeout: 20},
		{name: "vio1", fn: verifC03_struct, vals: map[string][]uint64{"fin": {1,0}, "key": {0,0,0,0,0,0,0,0}, "len": {2,0}, "masked": {1,1}, "opcode": {1,0}, "payload": {0,0}, "rand": {0,0,0,0}, "rsv1": {0,1}, "rsv2": {0,0}, "rsv3": {0,0}, }, params: map[string]int{"client": 1, "frames": 2, "lens": 3, }, repeat: 1, wantID: "C03.struct.messages", timeout: 20},
		{name: "vio2", fn: verifC03_struct, vals: map[string][]uint64{"fin": {0,0}, "key": {0,0,0,0,0,0,0,0}, "len": {2,0}, "masked": {1,1}, "opcode": {1,0}, "payload": {0,0}, "rand": {0,0,0,0}, "rsv1": {0,1}, "rsv2": {0,0}, "rsv3": {0,0}, }, params: map[string]int{"client": 1, "frames": 2, "lens": 3, }, repeat: 1, wantID: "C03.struct.partial-prefix", timeout: 20},
		{name: "wit0", fn: verifC03_struct, vals: map[string][]uint64{"fin": {1,1}, "key": {178,2,95,204,162,2,255,64}, "len": {0,0}, "masked": {1,1}, "opcode": {0,253}, "rand": {30,0,147,16}, "rsv1": {1,1}, "rsv2": {1,0}, "rsv3": {1,1}, }, params: map[string]int{"client": 1, "frames": 2, "lens": 3, }, repeat: 1, wantID: "\x00none", timeout: 20},
		{name: "wit1", fn: verifC03_struct, vals: map[string][]uint64{"fin": {1,1}, "key": {1,236,3,160,71,108,41,254}, "len": {2,1}, "masked": {0,1}, "opcode": {10,3}, "payload": {161,255,253}, "rand": {46,0,187,52}, "rsv1": {0,1}, "rsv2": {0,0}, "rsv3": {0,1}, }, params: map[string]int{"client": 1, "frames": 2, "lens": 3, }, repeat: 1, wantID: "\x00none", timeout: 20},
		{name: "wit2", fn: verifC03_struct, vals: map[string][]uint64{"fin": {1,1}, "key": {64,94,255,37,3,255,255,39}, "len": {2,0}, "masked": {0,1}, "opcode": {9,106}, "payload": {131,253}, "rand": {224,44,254,0,253,248,0,5}, "rsv1": {0,0}, "rsv2": {0,0}, "rsv3": {0,1}, }, params: map[string]int{"client": 1, "frames": 2, "lens": 3, }, repeat: 1, wantID: "\x00none", timeout: 20},
		{name: "wit3", fn: verifC03_struct, vals: map[string][]uint64{"fin": {1,1}, "key": {1,229,253,74,57,210,1,127}, "len": {2,2}, "masked": {0,1}, "opcode": {2,8}, "payload": {253,0,3,237}, "rand": {0,0,0,0}, "rsv1": {0,0}, "rsv2": {0,0}, "rsv3": {0,0}, }, params: map[string]int{"client": 1, "frames": 2, "lens": 3, }, repeat: 1, wantID: "\x00none", timeout: 20},
		{name: "wit4", fn: verifC03_struct, vals: map[string][]uint64{"fin": {0,0}, "key": {0,99,218,79,83,253,2,215}, "len": {2,2}, "masked": {0,1}, "opcode": {1,10}, "payload": {255,213,254,162}, "rand": {228,47,2,232}, "rsv1": {0,0}, "rsv2": {0,0}, "rsv3": {0,0}, }, params: map[string]int{"client": 1, "frames": 2, "lens": 3, }, repeat: 1, wantID: "\x00none", timeout: 20},
		{name: "wit5", fn: verifC03_struct, vals: map[string][]uint64{"fin": {1,0}, "key": {18,210,62,180,254,99,52,2}, "len": {2,2}, "masked": {0,0}, "opcode": {9,10}, "payload": {1,3,255,3}, "rand": {102,195,0,0,254,242,1,1}, "rsv1": {0,0}, "rsv2": {0,0}, "rsv3": {0,0}, }, params: map[string]int{"client": 1, "frames": 2, "lens": 3, }, repeat: 1, wantID: "\x00none", timeout: 20},
		{name: "wit6", fn: verifC03_struct, vals: map[string][]uint64{"fin": {1,1}, "key": {178,2,95,204,162,2,255,64}, "len": {0,0}, "masked": {1,1}, "opcode": {0,253}, "rsv1": {1,1}, "rsv2": {1,0}, "rsv3": {1,1}, }, params: map[string]int{"client": 0, "frames": 2, "lens": 3, }, repeat: 1, wantID: "\x00none", timeout: 20},
		{name: "wit7", fn: verifC03_struct, vals: map[string][]uint64{"fin": {1,1}, "key": {1,255,0,253,124,120,65,255}, "len": {2,0}, "masked": {1,1}, "opcode": {9,198}, "payload": {3,58}, "rsv1": {0,0}, "rsv2": {0,0}, "rsv3": {0,0}, }, params: map[string]int{"client": 0, "frames": 2, "lens": 3, }, repeat: 1, wantID: "\x00none", timeout: 20},
		{name: "wit8", fn: verifC03_struct, vals: map[string][]uint64{"fin": {1,0}, "key": {253,2,2,3,2,91,1,32}, "len": {2,0}, "masked": {1,1}, "opcode": {10,9}, "payload": {104,2}, "rsv1": {0,0}, "rsv2": {0,0}, "rsv3": {0,0}, }, params: map[string]int{"client": 0, "frames": 2, "lens": 3, }, repeat: 1, wantID: "\x00none", timeout: 20},
		{name: "wit9", fn: verifC03_struct, vals: map[string][]uint64{"fin": {1,1}, "key": {253,3,253,1,110,0,0,120}, "len": {2,1}, "masked": {1,1}, "opcode": {10,255}, "payload": {66,110,3}, "rsv1": {0,0}, "rsv2": {0,1}, "rsv3": {0,1}, }, params: map[string]int{"client": 0, "frames": 2, "lens": 3, }, repeat: 1, wantID: "\x00none", timeout: 20},
		{name: "wit10", fn: verifC03_struct, vals: map[string][]uint64{"fin": {1,1}, "key": {1,236,3,160,3,0,71,108}, "len": {0,1}, "masked": {1,0}, "opcode": {9,2}, "payload": {254}, "rsv1": {0,0}, "rsv2": {0,0}, "rsv3": {0,1}, }, params: map[string]int{"client": 0, "frames": 2, "lens": 3, }, repeat: 1, wantID: "\x00none", timeout: 20},

	}
	for _, c := range cases {
		var last string
		for it := 0; it < c.repeat; it++ {
			vParams = c.params
			vReset(c.vals)
			done := make(chan string, 1)
			go func() {
				defer func() {
					if r := recover(); r != nil {
						if _, ok := r.(vAssumeViolated); ok {
							done <- "assume"
							return
						}
						done <- fmt.Sprintf("panic: %v", r)
						return
					}
					done <- ""
				}()
				c.fn()
			}()
			pan, hang := "", false
			select {
			case pan = <-done:
			case <-time.After(time.Duration(c.timeout) * time.Second):
				hang = true
			}
			var reached []string
			for k := range vReachedIDs {
				reached = append(reached, k)
			}
			sort.Strings(reached)
			out := map[string]any{"name": c.name, "failures": vFailures, "panic": pan, "hang": hang, "short": vReplayShort,
				"observed": vObserved, "reached": reached, "iter": it}
			b, _ := json.Marshal(out)
			last = string(b)
			hit := hang || (pan != "" && pan != "assume")
			for _, f := range vFailures {
				if c.wantID == "" || f == c.wantID {
					hit = true
				}
			}
			if hit || hang {
				break
			}
		}
		fmt.Println("VERIF-CASE " + last)
	}
}
