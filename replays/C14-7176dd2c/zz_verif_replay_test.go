package websocket

import (
	"encoding/json"
	"fmt"
	"os"
	"sort"
	"testing"
	"time"
)

type vReplayCaseT struct {
	name    string
	fn      func()
	vals    map[string][]uint64
	strs    map[string][]string
	params  map[string]int
	repeat  int
	wantID  string
	timeout int
}

func TestVerifReplay(t *testing.T) {
	cases := []vReplayCaseT{
		{name: "vio0", fn: verifC14_server, vals: map[string][]uint64{"mode": {1}, }, strs: map[string][]string{"ext": {"permessage-deflate;client_no_context_takeover;client_no_context_takeover"}, }, params: map[string]int{"split.comma": 0, "split.semi": 2, }, repeat: 1, wantID: "C14.server.declines-duplicate-parameter", timeout: 20},
		{name: "vio1", fn: verifC14_server, vals: map[string][]uint64{"mode": {1}, }, strs: map[string][]string{"ext": {"permessage-deflate;client_max_window_bits="}, }, params: map[string]int{"split.comma": 0, "split.semi": 2, }, repeat: 1, wantID: "C14.server.declines-malformed-client-window-bits", timeout: 20},
		{name: "vio2", fn: verifC14_client, vals: map[string][]uint64{"hasHeader": {1}, "mode": {1}, }, strs: map[string][]string{"ext": {"permessage-deflate;server_max_window_bits="}, }, params: map[string]int{"split.comma": 1, "split.semi": 2, }, repeat: 1, wantID: "C14.client.accepts-only-honourable-response", timeout: 20},
		{name: "wit0", fn: verifC14_server, vals: map[string][]uint64{"mode": {0}, }, strs: map[string][]string{"ext": {""}, }, params: map[string]int{"split.comma": 0, "split.semi": 2, }, repeat: 1, wantID: "\x00none", timeout: 20},
		{name: "wit1", fn: verifC14_server, vals: map[string][]uint64{"mode": {1}, }, strs: map[string][]string{"ext": {"permessage-deflate;server_no_context_takeover;client_no_context_takeover"}, }, params: map[string]int{"split.comma": 0, "split.semi": 2, }, repeat: 1, wantID: "\x00none", timeout: 20},
		{name: "wit2", fn: verifC14_server, vals: map[string][]uint64{"mode": {2}, }, strs: map[string][]string{"ext": {"permessage-deflate;client_no_context_takeover;client_max_window_bits"}, }, params: map[string]int{"split.comma": 0, "split.semi": 2, }, repeat: 1, wantID: "\x00none", timeout: 20},
		{name: "wit3", fn: verifC14_server, vals: map[string][]uint64{"mode": {1}, }, strs: map[string][]string{"ext": {"permessage-deflate;server_max_window_bits=15;client_max_window_bits"}, }, params: map[string]int{"split.comma": 0, "split.semi": 2, }, repeat: 1, wantID: "\x00none", timeout: 20},
		{name: "wit4", fn: verifC14_server, vals: map[string][]uint64{"mode": {2}, }, strs: map[string][]string{"ext": {"permessage-deflate;server_max_window_bits=15;"}, }, params: map[string]int{"split.comma": 0, "split.semi": 2, }, repeat: 1, wantID: "\x00none", timeout: 20},
		{name: "wit5", fn: verifC14_server, vals: map[string][]uint64{"mode": {0}, }, strs: map[string][]string{"ext": {""}, }, params: map[string]int{"split.comma": 1, "split.semi": 1, }, repeat: 1, wantID: "\x00none", timeout: 20},
		{name: "wit6", fn: verifC14_server, vals: map[string][]uint64{"mode": {2}, }, strs: map[string][]string{"ext": {"permessage-deflate;client_max_window_bits"}, }, params: map[string]int{"split.comma": 1, "split.semi": 1, }, repeat: 1, wantID: "\x00none", timeout: 20},
		{name: "wit7", fn: verifC14_server, vals: map[string][]uint64{"mode": {1}, }, strs: map[string][]string{"ext": {"permessage-deflate;server_no_context_takeover,"}, }, params: map[string]int{"split.comma": 1, "split.semi": 1, }, repeat: 1, wantID: "\x00none", timeout: 20},
		{name: "wit8", fn: verifC14_server, vals: map[string][]uint64{"mode": {1}, }, strs: map[string][]string{"ext": {"\x00ppppppppppppppppp,permessage-deflate"}, }, params: map[string]int{"split.comma": 1, "split.semi": 1, }, repeat: 1, wantID: "\x00none", timeout: 20},
		{name: "wit9", fn: verifC14_server, vals: map[string][]uint64{"mode": {1}, }, strs: map[string][]string{"ext": {"\x00ppppppppppppppppp,permessage-deflate;client_no_context_takeover"}, }, params: map[string]int{"split.comma": 1, "split.semi": 1, }, repeat: 1, wantID: "\x00none", timeout: 20},
		{name: "wit10", fn: verifC14_client, vals: map[string][]uint64{"hasHeader": {0}, "mode": {0}, }, strs: map[string][]string{}, params: map[string]int{"split.comma": 1, "split.semi": 2, }, repeat: 1, wantID: "\x00none", timeout: 20},
		{name: "wit11", fn: verifC14_client, vals: map[string][]uint64{"hasHeader": {1}, "mode": {0}, }, strs: map[string][]string{"ext": {",permessage-deflate;;"}, }, params: map[string]int{"split.comma": 1, "split.semi": 2, }, repeat: 1, wantID: "\x00none", timeout: 20},
		{name: "wit12", fn: verifC14_client, vals: map[string][]uint64{"hasHeader": {1}, "mode": {1}, }, strs: map[string][]string{"ext": {"permessage-deflate;server_max_window_bits=15;client_no_context_takeover"}, }, params: map[string]int{"split.comma": 1, "split.semi": 2, }, repeat: 1, wantID: "\x00none", timeout: 20},
		{name: "wit13", fn: verifC14_client, vals: map[string][]uint64{"hasHeader": {1}, "mode": {2}, }, strs: map[string][]string{"ext": {"permessage-deflate;server_max_window_bits=15;client_no_context_takeover,"}, }, params: map[string]int{"split.comma": 1, "split.semi": 2, }, repeat: 1, wantID: "\x00none", timeout: 20},
		{name: "wit14", fn: verifC14_client, vals: map[string][]uint64{"hasHeader": {1}, "mode": {1}, }, strs: map[string][]string{"ext": {"permessage-deflate;server_no_context_takeover;server_no_context_takeover,"}, }, params: map[string]int{"split.comma": 1, "split.semi": 2, }, repeat: 1, wantID: "\x00none", timeout: 20},
		{name: "wit15", fn: verifC14_client, vals: map[string][]uint64{"hasHeader": {1}, "mode": {1}, }, strs: map[string][]string{"ext": {"\x00ppppppppppppppppp,;;"}, }, params: map[string]int{"split.comma": 1, "split.semi": 2, }, repeat: 1, wantID: "\x00none", timeout: 20},
		{name: "wit16", fn: verifC14_agree, vals: map[string][]uint64{"clientMode": {0}, "serverMode": {0}, }, strs: map[string][]string{}, params: map[string]int{}, repeat: 1, wantID: "\x00none", timeout: 20},
		{name: "wit17", fn: verifC14_agree, vals: map[string][]uint64{"clientMode": {0}, "serverMode": {1}, }, strs: map[string][]string{}, params: map[string]int{}, repeat: 1, wantID: "\x00none", timeout: 20},
		{name: "wit18", fn: verifC14_agree, vals: map[string][]uint64{"clientMode": {0}, "serverMode": {2}, }, strs: map[string][]string{}, params: map[string]int{}, repeat: 1, wantID: "\x00none", timeout: 20},
		{name: "wit19", fn: verifC14_agree, vals: map[string][]uint64{"clientMode": {1}, "serverMode": {0}, }, strs: map[string][]string{}, params: map[string]int{}, repeat: 1, wantID: "\x00none", timeout: 20},
		{name: "wit20", fn: verifC14_agree, vals: map[string][]uint64{"clientMode": {2}, "serverMode": {0}, }, strs: map[string][]string{}, params: map[string]int{}, repeat: 1, wantID: "\x00none", timeout: 20},
		{name: "wit21", fn: verifC14_agree, vals: map[string][]uint64{"clientMode": {2}, "serverMode": {1}, }, strs: map[string][]string{}, params: map[string]int{}, repeat: 1, wantID: "\x00none", timeout: 20},
		{name: "wit22", fn: verifC14_dir, vals: map[string][]uint64{"cnct": {0}, "snct": {0}, }, strs: map[string][]string{}, params: map[string]int{}, repeat: 1, wantID: "\x00none", timeout: 20},
		{name: "wit23", fn: verifC14_dir, vals: map[string][]uint64{"cnct": {1}, "snct": {0}, }, strs: map[string][]string{}, params: map[string]int{}, repeat: 1, wantID: "\x00none", timeout: 20},
		{name: "wit24", fn: verifC14_dir, vals: map[string][]uint64{"cnct": {0}, "snct": {1}, }, strs: map[string][]string{}, params: map[string]int{}, repeat: 1, wantID: "\x00none", timeout: 20},
		{name: "wit25", fn: verifC14_dir, vals: map[string][]uint64{"cnct": {1}, "snct": {1}, }, strs: map[string][]string{}, params: map[string]int{}, repeat: 1, wantID: "\x00none", timeout: 20},

	}
	only := os.Getenv("VERIF_CASE")
	for _, c := range cases {
		if only != "" && c.name != only {
			continue
		}
		var last string
		for it := 0; it < c.repeat; it++ {
			vParams = c.params
			vReset(c.vals)
			vResetStrs(c.strs)
			done := make(chan string, 1)
			go func() {
				defer func() {
					if r := recover(); r != nil {
						if _, ok := r.(vAssumeViolated); ok {
							done <- "assume"
							return
						}
						done <- fmt.Sprintf("panic: %v", r)
						return
					}
					done <- ""
				}()
				c.fn()
			}()
			pan, hang := "", false
			select {
			case pan = <-done:
			case <-time.After(time.Duration(c.timeout) * time.Second):
				hang = true
			}
			var reached []string
			for k := range vReachedIDs {
				reached = append(reached, k)
			}
			sort.Strings(reached)
			out := map[string]any{"name": c.name, "failures": vFailures, "panic": pan, "hang": hang, "short": vReplayShort,
				"observed": vObserved, "reached": reached, "iter": it}
			b, _ := json.Marshal(out)
			last = string(b)
			hit := hang || (pan != "" && pan != "assume")
			for _, f := range vFailures {
				if c.wantID == "" || f == c.wantID {
					hit = true
				}
			}
			if hit || hang {
				break
			}
		}
		fmt.Println("VERIF-CASE " + last)
	}
}
