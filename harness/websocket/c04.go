package websocket

import (
	"errors"
	"io"
)

// First conn-level shakedown harness: one unfragmented message read through a real Conn.
func verifSmoke_read() {
	client := vBool("client")
	vInstallRand()
	payload := vBytes("payload", 2)
	var wire []byte
	if client {
		wire = append([]byte{0x82, 0x02}, payload...)
	} else {
		key := vBytes("key", 4)
		wire = append([]byte{0x82, 0x82}, key...)
		wire = append(wire, payload[0]^key[0], payload[1]^key[1])
	}
	t := vNewTransport(wire)
	c := vNewConn(t, client, nil, 16, 16)
	typ, b, err := c.Read(vBG)
	vReach("smoke.read")
	vAssert(err == nil, "smoke.noerr")
	vAssert(typ == MessageBinary, "smoke.type")
	vAssert(vEqBytes(b, payload), "smoke.payload")
	vAssert(c.CloseNow() == nil, "smoke.closenow")
	vObserve("smoke", b, int(typ))
}

type vGenMsg struct {
	typ     MessageType
	payload []byte
	frames  []int // indices into the frame list
}

var vFragLens = []int{0, 2, 1, 3}
var vFragLensBig = []int{0, 126}
var vFragLensMid = []int{0, 20} // longer than the 16-byte read buffer of the harness connections

// vGenStream builds a valid stream: nMsgs data messages, each in 1..maxFrag fragments whose lengths come from
// vFragLens[:nLens], payloads symbolic, optionally a Ping between two fragments. Frames are masked iff sent to a server.
func vGenStream(toClient bool, nMsgs, maxFrag, nLens int, pings bool) (frames []vFrame, msgs []vGenMsg) {
	lens := vFragLens
	if vParam("big", 0) == 1 {
		lens = vFragLensBig // fragments whose length needs the 16-bit length field
		nLens = 2
	}
	if vParam("mid", 0) == 1 {
		lens = vFragLensMid
		nLens = 2
	}
	if vParam("deflate", 0) != 0 {
		return vGenCompressedStream(toClient, nMsgs)
	}
	for m := 0; m < nMsgs; m++ {
		gm := vGenMsg{typ: MessageType(1 + (m+1)%2)}
		nf := 1 + vChoose("frags", maxFrag)
		for i := 0; i < nf; i++ {
			f := vFrame{fin: i == nf-1, masked: !toClient}
			if i == 0 {
				f.opcode = uint8(gm.typ)
			}
			if f.masked {
				copy(f.key[:], vBytes("key", 4))
			}
			f.payload = vBytes("payload", lens[vChoose("len", nLens)])
			gm.payload = append(gm.payload, f.payload...)
			if pings && i > 0 && vChoose("ping", 2) == 1 {
				p := vFrame{fin: true, opcode: 9, masked: !toClient, payload: vBytes("pingp", 1)}
				if p.masked {
					copy(p.key[:], vBytes("key", 4))
				}
				frames = append(frames, p)
			}
			gm.frames = append(gm.frames, len(frames))
			frames = append(frames, f)
		}
		msgs = append(msgs, gm)
	}
	return
}

// vGenCompressedStream: messages compressed as DEFLATE stored blocks (sync-flush ending), split into one or two frames.
func vGenCompressedStream(toClient bool, nMsgs int) (frames []vFrame, msgs []vGenMsg) {
	for m := 0; m < nMsgs; m++ {
		gm := vGenMsg{typ: MessageType(1 + (m+1)%2)}
		data := vBytes("payload", 1+vChoose("len", 2))
		gm.payload = data
		comp := vStored(data, []int{len(data)}, false)
		if vParam("bfinal", 1) == 1 && vChoose("bfinal", 2) == 1 {
			// the DEFLATE stream ends with a final block, followed by the RFC 7692 7.2.3.4 octet: the message goes on
			// on the wire after its data is complete, and is complete only with the end of its final frame
			comp = append(vStored(data, []int{len(data)}, true), 0x00)
		}
		var cuts []int
		if vChoose("frags", 2) == 1 {
			cuts = []int{vChoose("fragAt", len(comp)+1)}
		}
		for _, f := range vDataFrames(comp, cuts, uint8(gm.typ), true, toClient) {
			gm.frames = append(gm.frames, len(frames))
			frames = append(frames, f)
		}
		msgs = append(msgs, gm)
	}
	return
}

func vEndName(m int) string {
	switch m {
	case vEndEOF:
		return "eof"
	case vEndUnexp:
		return "unexpected-eof"
	case vEndForeign:
		return "foreign-error"
	}
	return "block"
}

// C04.cut: a valid stream is cut at every byte offset; the transport then ends with EOF / ErrUnexpectedEOF / another error.
// Messages complete in the prefix are delivered intact; the first incomplete one never ends cleanly and what was handed
// out of it is a prefix of its payload.
func verifC04_cut() {
	client := vParam("client", 1) == 1
	nMsgs := vParam("msgs", 1)
	vInstallRand()
	frames, msgs := vGenStream(client, nMsgs, vParam("frags", 2), vParam("lens", 2), vParam("pings", 0) == 1)
	// byte ranges of the frames
	var wire []byte
	starts := make([]int, len(frames))
	hdrEnds := make([]int, len(frames))
	ends := make([]int, len(frames))
	for i, f := range frames {
		starts[i] = len(wire)
		enc := vEncodeFrame(f)
		hdrEnds[i] = len(wire) + len(enc) - len(f.payload)
		wire = append(wire, enc...)
		ends[i] = len(wire)
	}
	cut := vChoose("cut", len(wire)+1)
	t := vNewTransport(wire[:cut])
	t.endMode = vChoose("end", 3)
	t.step = vParam("step", 0)
	if vParam("together", 0) == 1 {
		t.endTogether = vChoose("endTogether", 2) == 1
	}
	if vParam("hdrFirst", 0) == 1 && hdrEnds[0] <= cut {
		// the first frame's header arrives in a segment of its own: the connection's read buffer is empty when the
		// payload is asked for
		t.first = hdrEnds[0]
	}
	c := vNewConn(t, client, vCopts(vParam("deflate", 0)), 16, 64)
	var bufSize int
	if vParam("bigbuf", 0) == 1 {
		// a caller buffer at least as large as the connection's read buffer: payload reads bypass the read buffer
		bufSize = 16 + vChoose("buf", 2)*48
	} else {
		bufSize = 1 + vChoose("buf", vParam("bufs", 2))*3
	}
	g := vReadLoop(c, bufSize, nMsgs+1)

	// reference: which messages are complete in the prefix
	complete := 0
	for _, m := range msgs {
		if ends[m.frames[len(m.frames)-1]] <= cut {
			complete++
		}
	}
	vReach("C04.cut.compared")
	if client {
		vClassify("role", "client")
	} else {
		vClassify("role", "server")
	}
	vClassify("end", vEndName(t.endMode))
	if complete < len(msgs) {
		vReach("C04.cut.incomplete")
		// classify where the cut falls relative to the frames of the incomplete message
		m := msgs[complete]
		where := "before-message"
		for _, fi := range m.frames {
			f := frames[fi]
			fin := "nonfinal"
			if f.fin {
				fin = "final"
			}
			switch {
			case cut == starts[fi] && fi != m.frames[0]:
				where = "between-fragments"
			case cut > starts[fi] && cut < hdrEnds[fi]:
				where = "inside-header-" + fin
			case cut == hdrEnds[fi] && len(f.payload) > 0:
				where = "payload-start-" + fin
			case cut > hdrEnds[fi] && cut < ends[fi]:
				where = "inside-payload-" + fin
			}
		}
		if cut == starts[m.frames[0]] {
			where = "message-boundary"
		}
		vClassify("cut", where)
	} else {
		vClassify("cut", "none")
	}
	vAssert(g.err != nil, "C04.cut.ends-with-error")
	// (a) + (b): exactly the complete messages are delivered, intact, in order
	ok := len(g.msgs) == complete
	if len(g.msgs) > complete {
		vAssert(false, "C04.cut.clean-end-of-truncated-message")
	}
	if len(g.msgs) < complete {
		vAssert(false, "C04.cut.complete-message-lost")
	}
	if ok {
		for i := range g.msgs {
			ok = vAnd(ok, vAnd(g.types[i] == msgs[i].typ, vEqBytes(g.msgs[i], msgs[i].payload)))
		}
		vAssert(ok, "C04.cut.delivered-intact")
	}
	// (c) bytes handed out of the incomplete message are a prefix of it
	if complete < len(msgs) && len(g.msgs) == complete {
		vAssert(vIsPrefix(g.tail, msgs[complete].payload), "C04.cut.prefix")
	}
	if t.endMode == vEndForeign && complete < len(msgs) {
		vAssert(errors.Is(g.err, vErrForeign), "C04.cut.error-passed-through")
	}
	c.CloseNow()
	vObserve("cut", wire, cut, t.endMode, len(g.msgs), g.tail)
}

// C04.netconn: the same cut streams read through the net.Conn adapter: io.EOF (the adapter's clean end) is reported only
// after a Close frame with status 1000/1001 was received completely, never because the transport ended; what Read
// handed out is a prefix of the concatenated payloads, and everything completed before the cut is in it.
func verifC04_netconn() {
	client := vParam("client", 1) == 1
	vInstallRand()
	frames, msgs := vGenStream(client, vParam("msgs", 2), vParam("frags", 2), vParam("lens", 2), false)
	for i := range frames {
		if frames[i].opcode == 1 {
			frames[i].opcode = 2 // the adapter is opened for binary messages
		}
	}
	withClose := vChoose("close", 2) == 1
	if withClose {
		cl := vFrame{fin: true, opcode: 8, masked: !client, payload: []byte{0x03, 0xe8, 'o', 'k'}}
		if cl.masked {
			copy(cl.key[:], vBytes("key", 4))
		}
		frames = append(frames, cl)
	}
	var wire []byte
	ends := make([]int, len(frames))
	for i, f := range frames {
		wire = append(wire, vEncodeFrame(f)...)
		ends[i] = len(wire)
	}
	cut := vChoose("cut", len(wire)+1)
	t := vNewTransport(wire[:cut])
	t.endMode = vChoose("end", 3)
	c := vNewConn(t, client, nil, 16, 64)
	nc := NetConn(vBG, c, MessageBinary)
	var got []byte
	var rerr error
	bufSize := 1 + vChoose("buf", 2)*3
	for i := 0; i < 40; i++ {
		p := make([]byte, bufSize)
		n, err := nc.Read(p)
		got = append(got, p[:n]...)
		if err != nil {
			rerr = err
			break
		}
	}
	vReach("C04.netconn.compared")
	vClassify("end", vEndName(t.endMode))
	vAssert(rerr != nil, "C04.netconn.ends")
	var all, completed []byte
	for _, m := range msgs {
		all = append(all, m.payload...)
		if ends[m.frames[len(m.frames)-1]] <= cut {
			completed = append(completed, m.payload...)
		}
	}
	closeComplete := withClose && cut == len(wire)
	if closeComplete {
		vReach("C04.netconn.clean-close")
		vAssert(rerr == io.EOF, "C04.netconn.eof-after-normal-close")
		vAssert(vEqBytes(got, all), "C04.netconn.everything-before-eof")
	} else {
		vReach("C04.netconn.truncated")
		vAssert(rerr != io.EOF, "C04.netconn.eof-without-close")
		vAssert(vIsPrefix(got, all), "C04.netconn.prefix")
		vAssert(len(got) >= len(completed), "C04.netconn.completed-delivered")
	}
	c.CloseNow()
	vObserve("c04netconn", wire[:cut], got, rerr == io.EOF)
}
