package websocket

import (
	"math/bits"
	"runtime/debug"
	"syscall"
)

// vNativeAsmFault (native replay only): the same call once more with the buffer inside a private mapping whose
// neighbouring pages are inaccessible, so that an access outside [b, b+L) - also a mere read, which guard bytes cannot
// see - faults. Possible where the requested alignment lets an edge of the buffer coincide with a page edge: the end
// when (A+L)%64 == 0, the start when A == 0. Returns 1 if the routine faulted, 0 if not, -1 if no edge could be placed.
func vNativeAsmFault(data []byte, A int, key uint32) (res int) {
	L := len(data)
	if L == 0 {
		return -1
	}
	const page = 4096
	inner := (L + page - 1) / page * page
	m, err := syscall.Mmap(-1, 0, inner+2*page, syscall.PROT_READ|syscall.PROT_WRITE, syscall.MAP_ANON|syscall.MAP_PRIVATE)
	if err != nil {
		return -1
	}
	defer syscall.Munmap(m)
	if syscall.Mprotect(m[:page], syscall.PROT_NONE) != nil || syscall.Mprotect(m[page+inner:], syscall.PROT_NONE) != nil {
		return -1
	}
	res = -1
	try := func(off int) {
		copy(m[off:off+L], data)
		old := debug.SetPanicOnFault(true)
		defer debug.SetPanicOnFault(old)
		defer func() {
			if recover() != nil {
				res = 1
			}
		}()
		maskAsm(&m[off], L, key)
		if res < 0 {
			res = 0
		}
	}
	if (A+L)%64 == 0 {
		try(page + inner - L) // the end of the buffer is the end of the accessible region
	}
	if A == 0 && res != 1 {
		try(page) // the start of the buffer is the start of the accessible region
	}
	return res
}

// C17.go: maskGo is the byte-wise XOR with the rotating key, returns the rotated key,
// and writes nothing outside b (guard cells inside the capacity of the slice).
func verifC17_go() {
	maxL := vParam("maxL", 40)
	minL := vParam("minL", 0)
	L := minL + vChoose("L", maxL-minL+1)
	key := vU32("key")
	data := vBytes("b", L)
	guard := vBytes("guard", 16)
	buf := make([]byte, L+16)
	copy(buf[:8], guard[:8])
	copy(buf[8:8+L], data)
	copy(buf[8+L:], guard[8:])
	vReach("C17.go.call")
	r := maskGo(buf[8:8+L], key)
	ok := true
	for i := 0; i < L; i++ {
		ok = vAnd(ok, buf[8+i] == data[i]^byte(key>>(8*uint(i%4))))
	}
	vAssert(ok, "C17.go.bytes")
	vAssert(r == bits.RotateLeft32(key, -8*(L%4)), "C17.go.key")
	vAssert(vAnd(vEqBytes(buf[:8], guard[:8]), vEqBytes(buf[8+L:], guard[8:])), "C17.go.guard")
	vObserve("masked", buf[8:8+L], r)
}

// C17.compose: masking a buffer piece-wise with the carried key equals masking it whole,
// for symbolic split points (two cuts => up to three pieces).
func verifC17_compose() {
	maxL := vParam("maxL", 24)
	L := vChoose("L", maxL+1)
	key := vU32("key")
	data := vBytes("b", L)
	c1 := vChoose("cut1", L+1)
	c2 := c1 + vChoose("cut2", L-c1+1)
	whole := append([]byte{}, data...)
	rw := mask(whole, key)
	parts := append([]byte{}, data...)
	k := mask(parts[:c1], key)
	k = mask(parts[c1:c2], k)
	k = mask(parts[c2:], k)
	vReach("C17.compose.done")
	vAssert(vEqBytes(whole, parts), "C17.compose.bytes")
	vAssert(rw == k, "C17.compose.key")
	ref := true
	for i := 0; i < L; i++ {
		ref = vAnd(ref, parts[i] == data[i]^byte(key>>(8*uint(i%4))))
	}
	vAssert(ref, "C17.sel.bytes")
	vAssert(k == bits.RotateLeft32(key, -8*(L%4)), "C17.sel.key")
	vObserve("composed", parts, k)
}

// C17.asm: the assembly routine of mask_amd64.s, interpreted instruction by instruction, for buffer length L placed at
// start alignment A (mod 64): the same two equalities as C17.go, bit for bit, and no access outside [b, b+L).
func verifC17_asm() {
	minL := vParam("minL", 0)
	maxL := vParam("maxL", 80)
	L := minL + vChoose("L", maxL-minL+1)
	nAlign := vParam("aligns", 64)
	A := vChoose("align", nAlign)
	if vParam("alignset", 0) == 1 {
		A = []int{0, 1, 7, 8, 15, 16, 31, 32, 33, 63}[A%10]
	}
	key := vU32("key")
	data := vBytes("b", L)
	guard := vBytes("guard", 32)
	vGhostTrackAllocs()
	// buf is allocated 64-byte aligned in the model; the region starts at offset 64+A, with guard bytes on both sides
	buf := make([]byte, 64+A+L+64)
	natural := vAlign64(buf)
	off := natural + 64 + A - 64
	if off < 16 {
		off += 64
	}
	copy(buf[off-16:off], guard[:16])
	copy(buf[off:off+L], data)
	copy(buf[off+L:off+L+16], guard[16:])
	vReach("C17.asm.call")
	var r uint32
	if L > 0 {
		r = maskAsm(&buf[off], L, key)
	} else {
		r = maskAsm(nil, 0, key)
	}
	ok := true
	for i := 0; i < L; i++ {
		ok = vAnd(ok, buf[off+i] == data[i]^byte(key>>(8*uint(i%4))))
	}
	vAssert(ok, "C17.asm.bytes")
	vAssert(r == bits.RotateLeft32(key, -8*(L%4)), "C17.asm.key")
	vAssert(vAnd(vEqBytes(buf[off-16:off], guard[:16]), vEqBytes(buf[off+L:off+L+16], guard[16:])), "C17.asm.guard")
	edge := "none"
	if L > 0 && (A+L)%64 == 0 {
		edge = "end-on-a-64-byte-boundary"
	} else if L > 0 && A == 0 {
		edge = "start-on-a-64-byte-boundary"
	}
	oob := vGhostAsmOOB()
	if !vEngine() {
		// natively there is no interpreter to count accesses: run the routine against inaccessible neighbour pages
		oob = 0
		if vNativeAsmFault(data, A, key) == 1 {
			oob = 1
		}
	}
	if oob != 0 {
		// (classes of a bounds violation: the native confirmation needs a buffer edge that can sit on a page edge)
		vClassify("edge", edge)
	}
	vAssert(oob == 0, "C17.asm.bounds")
	vObserve("asm", L, A, buf[off:off+L], r)
}
