package websocket

import "math/bits"

// C17.go: maskGo is the byte-wise XOR with the rotating key, returns the rotated key,
// and writes nothing outside b (guard cells inside the capacity of the slice).
func verifC17_go() {
	maxL := vParam("maxL", 40)
	minL := vParam("minL", 0)
	L := minL + vChoose("L", maxL-minL+1)
	key := vU32("key")
	data := vBytes("b", L)
	guard := vBytes("guard", 16)
	buf := make([]byte, L+16)
	copy(buf[:8], guard[:8])
	copy(buf[8:8+L], data)
	copy(buf[8+L:], guard[8:])
	vReach("C17.go.call")
	r := maskGo(buf[8:8+L], key)
	ok := true
	for i := 0; i < L; i++ {
		ok = vAnd(ok, buf[8+i] == data[i]^byte(key>>(8*uint(i%4))))
	}
	vAssert(ok, "C17.go.bytes")
	vAssert(r == bits.RotateLeft32(key, -8*(L%4)), "C17.go.key")
	vAssert(vAnd(vEqBytes(buf[:8], guard[:8]), vEqBytes(buf[8+L:], guard[8:])), "C17.go.guard")
	vObserve("masked", buf[8:8+L], r)
}

// C17.compose: masking a buffer piece-wise with the carried key equals masking it whole,
// for symbolic split points (two cuts => up to three pieces).
func verifC17_compose() {
	maxL := vParam("maxL", 24)
	L := vChoose("L", maxL+1)
	key := vU32("key")
	data := vBytes("b", L)
	c1 := vChoose("cut1", L+1)
	c2 := c1 + vChoose("cut2", L-c1+1)
	whole := append([]byte{}, data...)
	rw := mask(whole, key)
	parts := append([]byte{}, data...)
	k := mask(parts[:c1], key)
	k = mask(parts[c1:c2], k)
	k = mask(parts[c2:], k)
	vReach("C17.compose.done")
	vAssert(vEqBytes(whole, parts), "C17.compose.bytes")
	vAssert(rw == k, "C17.compose.key")
	ref := true
	for i := 0; i < L; i++ {
		ref = vAnd(ref, parts[i] == data[i]^byte(key>>(8*uint(i%4))))
	}
	vAssert(ref, "C17.sel.bytes")
	vAssert(k == bits.RotateLeft32(key, -8*(L%4)), "C17.sel.key")
	vObserve("composed", parts, k)
}

// C17.asm: the assembly routine of mask_amd64.s, interpreted instruction by instruction, for buffer length L placed at
// start alignment A (mod 64): the same two equalities as C17.go, bit for bit, and no access outside [b, b+L).
func verifC17_asm() {
	minL := vParam("minL", 0)
	maxL := vParam("maxL", 80)
	L := minL + vChoose("L", maxL-minL+1)
	nAlign := vParam("aligns", 64)
	A := vChoose("align", nAlign)
	if vParam("alignset", 0) == 1 {
		A = []int{0, 1, 7, 8, 15, 16, 31, 32, 33, 63}[A%10]
	}
	key := vU32("key")
	data := vBytes("b", L)
	guard := vBytes("guard", 32)
	vGhostTrackAllocs()
	// buf is allocated 64-byte aligned in the model; the region starts at offset 64+A, with guard bytes on both sides
	buf := make([]byte, 64+A+L+64)
	natural := vAlign64(buf)
	off := natural + 64 + A - 64
	if off < 16 {
		off += 64
	}
	copy(buf[off-16:off], guard[:16])
	copy(buf[off:off+L], data)
	copy(buf[off+L:off+L+16], guard[16:])
	vReach("C17.asm.call")
	var r uint32
	if L > 0 {
		r = maskAsm(&buf[off], L, key)
	} else {
		r = maskAsm(nil, 0, key)
	}
	ok := true
	for i := 0; i < L; i++ {
		ok = vAnd(ok, buf[off+i] == data[i]^byte(key>>(8*uint(i%4))))
	}
	vAssert(ok, "C17.asm.bytes")
	vAssert(r == bits.RotateLeft32(key, -8*(L%4)), "C17.asm.key")
	vAssert(vAnd(vEqBytes(buf[off-16:off], guard[:16]), vEqBytes(buf[off+L:off+L+16], guard[16:])), "C17.asm.guard")
	vAssert(vGhostAsmOOB() == 0, "C17.asm.bounds")
	vObserve("asm", L, A, buf[off:off+L], r)
}
