package websocket

import "math/bits"

// C17.go: maskGo is the byte-wise XOR with the rotating key, returns the rotated key,
// and writes nothing outside b (guard cells inside the capacity of the slice).
func verifC17_go() {
	maxL := vParam("maxL", 40)
	minL := vParam("minL", 0)
	L := vConcrete(vInt("L", minL, maxL))
	key := vU32("key")
	data := vBytes("b", L)
	guard := vBytes("guard", 16)
	buf := make([]byte, L+16)
	copy(buf[:8], guard[:8])
	copy(buf[8:8+L], data)
	copy(buf[8+L:], guard[8:])
	vReach("C17.go.call")
	r := maskGo(buf[8:8+L], key)
	ok := true
	for i := 0; i < L; i++ {
		ok = vAnd(ok, buf[8+i] == data[i]^byte(key>>(8*uint(i%4))))
	}
	vAssert(ok, "C17.go.bytes")
	vAssert(r == bits.RotateLeft32(key, -8*(L%4)), "C17.go.key")
	vAssert(vAnd(vEqBytes(buf[:8], guard[:8]), vEqBytes(buf[8+L:], guard[8:])), "C17.go.guard")
	vObserve("masked", buf[8:8+L], r)
}
