package websocket

// Exported doors for the harnesses that live in package wsjson (they cannot reach unexported identifiers).

func VerifBytes(tag string, n int) []byte  { return vBytes(tag, n) }
func VerifChoose(tag string, n int) int    { return vChoose(tag, n) }
func VerifParam(name string, def int) int  { return vParam(name, def) }
func VerifAssert(c bool, id string)        { vAssert(c, id) }
func VerifReach(id string)                 { vReach(id) }
func VerifClassify(k, v string)            { vClassify(k, v) }
func VerifObserve(tag string, vals ...any) { vObserve(tag, vals...) }
func VerifEqBytes(a, b []byte) bool        { return vEqBytes(a, b) }
func VerifAnd(a, b bool) bool              { return vAnd(a, b) }
func VerifReset(vals map[string][]uint64)  { vReset(vals) }
func VerifResetStrs(s map[string][]string) { vResetStrs(s) }
func VerifSetParams(p map[string]int)      { vParams = p }
func VerifFailures() []string              { return vFailures }
func VerifReached() map[string]bool        { return vReachedIDs }
func VerifObserved() []string              { return vObserved }
func VerifReplayShort() bool               { return vReplayShort }
func VerifIsAssumeViolated(r any) bool     { _, ok := r.(vAssumeViolated); return ok }
func VerifGhostPoolMonitor(on bool)        { vGhostPoolMonitor(on) }
func VerifGhostPoolViolations() int        { return vGhostPoolViolations() }
func VerifAssertGhost(c bool, id string)   { vAssertGhost(c, id) }
func VerifGhostPoolMode(mode int)          { vGhostPoolMode(mode) }
func VerifWireSummary(out []byte) []byte   { return vWireSummary(out) }

// VerifScriptedConn builds a Conn of the given role over a scripted transport fed with frames carrying the given
// payloads: each message is split into fragments at the given cut offsets. It returns the Conn and an accessor for the
// bytes the endpoint wrote.
type VerifMsg struct {
	Text    bool
	Payload []byte
	Cuts    []int
}

func VerifScriptedConn(client bool, msgs []VerifMsg, step int) (*Conn, func() []byte) {
	vInstallRand()
	var frames []vFrame
	for _, m := range msgs {
		op := uint8(2)
		if m.Text {
			op = 1
		}
		frames = append(frames, vDataFrames(m.Payload, m.Cuts, op, false, client)...)
	}
	t := vNewTransport(vEncodeFrames(frames))
	t.endMode = vEndBlock
	t.step = step
	c := vNewConn(t, client, nil, 32, 256)
	return c, func() []byte { return t.out }
}

// VerifDataMessages decodes the data messages an endpoint wrote (type, payload) with the independent decoder.
func VerifDataMessages(out []byte) (texts []bool, payloads [][]byte, ok bool) {
	frames, ok := vParseWritten(out)
	var cur []byte
	var text bool
	for _, f := range frames {
		switch {
		case f.opcode == 1 || f.opcode == 2:
			cur = append([]byte{}, f.payload...)
			text = f.opcode == 1
		case f.opcode == 0:
			cur = append(cur, f.payload...)
		default:
			continue
		}
		if f.fin {
			texts = append(texts, text)
			payloads = append(payloads, cur)
			cur = nil
		}
	}
	return
}

// VerifCloseCode returns the status code of the first Close frame written (0 if none) and the number of Close frames.
func VerifCloseCode(out []byte) (code int, n int) {
	first, nClose, _, _ := vCloseFrames(out)
	if nClose > 0 && len(first) >= 2 {
		code = int(first[0])<<8 | int(first[1])
	}
	return code, nClose
}

// VerifCutConn is VerifScriptedConn with the stream cut after cut bytes (cut < 0: whole stream); the transport then ends
// with EOF / ErrUnexpectedEOF / a foreign error (endMode 0/1/2). It returns the Conn and the length of the whole stream.
func VerifCutConn(client bool, msgs []VerifMsg, step, cut, endMode int) (*Conn, int) {
	vInstallRand()
	var frames []vFrame
	for _, m := range msgs {
		op := uint8(2)
		if m.Text {
			op = 1
		}
		frames = append(frames, vDataFrames(m.Payload, m.Cuts, op, false, client)...)
	}
	wire := vEncodeFrames(frames)
	total := len(wire)
	if cut >= 0 && cut < total {
		wire = wire[:cut]
	}
	t := vNewTransport(wire)
	t.endMode = endMode
	t.step = step
	return vNewConn(t, client, nil, 32, 256), total
}
