package websocket

import (
	"errors"
	"io"
)

var errEOFBare = io.EOF

// vStored encodes data as DEFLATE stored blocks (block sizes given), the last one with BFINAL=final.
// With final=false the stream is ended by a sync flush whose 00 00 ff ff tail is stripped (RFC 7692 7.2.1).
func vStored(data []byte, blocks []int, final bool) []byte {
	var out []byte
	pos := 0
	for i, n := range blocks {
		last := i == len(blocks)-1
		h := byte(0)
		if last && final {
			h = 1
		}
		out = append(out, h, byte(n), byte(n>>8), ^byte(n), ^byte(n>>8))
		out = append(out, data[pos:pos+n]...)
		pos += n
	}
	if !final {
		out = append(out, 0x00)
	}
	return out
}

// vSplitFrames cuts a message payload into data frames at the given offsets.
func vDataFrames(payload []byte, cuts []int, typ uint8, rsv1 bool, toClient bool) []vFrame {
	var frames []vFrame
	prev := 0
	for i := 0; i <= len(cuts); i++ {
		end := len(payload)
		if i < len(cuts) {
			end = cuts[i]
		}
		f := vFrame{fin: i == len(cuts), masked: !toClient, payload: payload[prev:end]}
		if i == 0 {
			f.opcode = typ
			f.rsv1 = rsv1
		}
		if f.masked {
			copy(f.key[:], vBytes("key", 4))
		}
		frames = append(frames, f)
		prev = end
	}
	return frames
}

// C08.e2e: read limit L (set by SetReadLimit, also the untouched default in the thorough tier), message of n bytes
// (after decompression), any fragmentation into <= 2 frames, uncompressed or stored-block compressed with BFINAL 0/1.
func verifC08_e2e() {
	client := vParam("client", 1) == 1
	vInstallRand()
	maxL := vParam("maxL", 3)
	useDefault := vParam("default", 0) == 1
	L, n := 0, 0
	if !useDefault {
		L = vChoose("L", maxL+2) - 1 // -1 = unlimited
		n = vChoose("n", maxL+3)
	}
	if useDefault {
		// the documented default: no SetReadLimit call at all; sizes around 32768
		L = 32768
		n = 32767 + vChoose("nAround", 4)
	}
	data := vBytes("data", n)
	compressed := vParam("deflate", 0) != 0
	final := false
	payload := data
	if compressed {
		final = vChoose("bfinal", 2) == 1
		nb := 1
		if n > 1 {
			nb += vChoose("blocks", 2)
		}
		var blocks []int
		if nb == 1 {
			blocks = []int{n}
		} else {
			b1 := 1 + vChoose("b1", n-1)
			blocks = []int{b1, n - b1}
		}
		payload = vStored(data, blocks, final)
	}
	var cuts []int
	if len(payload) > 0 && vChoose("frag", 2) == 1 {
		// (a BFINAL=1 stream ending exactly at the end of a non-final frame is C03.deflate's subject)
		if useDefault {
			// at real sizes the cut comes from a few representative places, not from every offset
			cuts = []int{[]int{1, len(payload) / 2, len(payload) - 1}[vChoose("cutAtIdx", 3)]}
		} else {
			cuts = []int{vChoose("cutAt", len(payload)+1)} // (up to and including an empty final fragment: what a streaming Writer emits)
		}
	}
	frames := vDataFrames(payload, cuts, 2, compressed, client)
	// a second, small message follows so that "delivered in full" includes leaving the stream usable
	second := []byte{}
	frames = append(frames, vDataFrames(second, nil, 1, false, client)...)
	t := vNewTransport(vEncodeFrames(frames))
	c := vNewConn(t, client, vCopts(vParam("deflate", 0)), 64, 256)
	if !useDefault {
		c.SetReadLimit(int64(L))
	}
	typ, r, err := c.Reader(vBG)
	vAssert(vAnd(err == nil, typ == MessageBinary), "C08.e2e.reader")
	if err != nil {
		return
	}
	bufSize := 1 + vChoose("buf", 2)*6
	if useDefault {
		bufSize = 4096
	}
	got, rerr := vReadAll(r, bufSize)
	vReach("C08.e2e.read")
	if client {
		vClassify("role", "client")
	} else {
		vClassify("role", "server")
	}
	if compressed {
		if final {
			vClassify("enc", "deflate-bfinal1")
		} else {
			vClassify("enc", "deflate-bfinal0")
		}
	} else {
		vClassify("enc", "plain")
	}
	_, nClose, _, _ := vCloseFrames(t.out)
	if L < 0 || n <= L {
		vReach("C08.e2e.within")
		vClassify("size", "within-limit")
		vAssert(rerr == nil, "C08.e2e.within-limit-delivered")
		vAssert(vEqBytes(got, data), "C08.e2e.within-limit-intact")
		vAssert(nClose == 0, "C08.e2e.within-limit-no-close")
		// the connection is still usable
		t2, b2, err2 := c.Read(vBG)
		vAssert(vAnd(err2 == nil, vAnd(t2 == MessageText, vEqBytes(b2, second))), "C08.e2e.next-message")
	} else {
		vReach("C08.e2e.over")
		if n == L+1 {
			vClassify("size", "limit+1")
		} else {
			vClassify("size", "over-limit")
		}
		vAssert(rerr != nil, "C08.e2e.over-limit-never-complete")
		vAssert(len(got) <= L+1, "C08.e2e.over-limit-bytes-handed-out")
		vAssert(vIsPrefix(got, data), "C08.e2e.over-limit-prefix")
		first, _, _, _ := vCloseFrames(t.out)
		ok := nClose == 1 && len(first) >= 2
		if ok {
			vAssert(int(first[0])<<8|int(first[1]) == 1009, "C08.e2e.close-1009")
		} else {
			vAssert(false, "C08.e2e.close-1009")
		}
		if rerr != nil {
			vAssert(vNot(errors.Is(rerr, vErrForeign)), "C08.e2e.error-kind")
		}
	}
	c.CloseNow()
	vObserve("limit", L, n, got, rerr == nil, vWireSummary(t.out))
}

type vContractReader struct {
	lastN   int
	lastErr error
	maxAsk  int
}

// Read obeys only the io.Reader contract: any 0 <= n <= len(p), with nil, io.EOF (also together with n > 0) or another error.
func (r *vContractReader) Read(p []byte) (int, error) {
	if len(p) > r.maxAsk {
		r.maxAsk = len(p)
	}
	n := vChoose("crN", len(p)+1)
	copy(p, vBytes("crData", n))
	r.lastN = n
	switch vChoose("crErr", 3) {
	case 1:
		r.lastErr = errEOFBare
	case 2:
		r.lastErr = vErrForeign
	default:
		r.lastErr = nil
	}
	return n, r.lastErr
}

// C08.step: one step of limitReader.Read from an arbitrary state (remaining budget k of limit+1) over a reader that only
// obeys the io.Reader contract: never more than the remaining budget is handed out, the budget is decreased by exactly
// what was handed out, and exhausting it is reported at once together with a 1009 Close frame.
func verifC08_step() {
	client := vParam("client", 1) == 1
	vInstallRand()
	t := vNewTransport(nil)
	t.endMode = vEndBlock
	c := vNewConn(t, client, nil, 16, 256)
	L := vChoose("L", vParam("maxL", 4)+1)
	c.SetReadLimit(int64(L))
	lr := c.msgReader.limitReader
	cr := &vContractReader{}
	lr.reset(cr)
	// (representation invariant: the limit reader is only ever used inside a message, whose reader carries the context
	// the message was opened with)
	c.msgReader.ctx = vBG
	k := vChoose("remaining", L+2) // 0..L+1
	lr.n = int64(k)
	p := make([]byte, vChoose("plen", 5))
	n, err := lr.Read(p)
	vReach("C08.step.called")
	vAssert(vAnd(n >= 0, n <= k), "C08.step.never-more-than-budget")
	vAssert(cr.maxAsk <= k, "C08.step.asks-at-most-budget")
	vAssert(lr.n == int64(k-n), "C08.step.budget-accounting")
	_, nClose, _, _ := vCloseFrames(t.out)
	if lr.n == 0 {
		vReach("C08.step.exhausted")
		// limit+1 bytes are out: the message may never be reported complete; the failure may surface now or on the next read
		vAssert(err != errEOFBare, "C08.step.exhausted-never-reported-complete")
		if err == nil {
			n2, err2 := lr.Read(p)
			vAssert(vAnd(n2 == 0, vAnd(err2 != nil, err2 != errEOFBare)), "C08.step.exhausted-next-read-fails")
		}
		first, nClose2, _, _ := vCloseFrames(t.out)
		if nClose2 == 1 && len(first) >= 2 {
			vAssert(int(first[0])<<8|int(first[1]) == 1009, "C08.step.close-1009")
		} else {
			vAssert(false, "C08.step.close-1009")
		}
	} else {
		vAssert(nClose == 0, "C08.step.no-close-below-limit")
		vAssert(vAnd(n == cr.lastN, err == cr.lastErr), "C08.step.passthrough")
	}
	c.CloseNow()
	vObserve("step", L, k, n, err == nil)
}

// C08.alloc: a header declaring any length up to 2^63-1 with only a few payload bytes present: every allocation made by
// the library while reading is independent of the declared length, and no more bytes are delivered than arrived.
func verifC08_alloc() {
	client := vParam("client", 1) == 1
	vInstallRand()
	declared := vI64("declared")
	vAssume(declared >= int64(vParam("minDeclared", 1<<20)))
	present := vChoose("present", vParam("maxPresent", 5)+1)
	h := vRefHeader{fin: true, opcode: 2, masked: !client, length: uint64(declared)}
	if h.masked {
		copy(h.key[:], vBytes("key", 4))
	}
	wire := vRefEncodeHeader(h)
	data := vBytes("data", present)
	for i, b := range data {
		wire = append(wire, b^vIteU8(h.masked, h.key[i%4], 0))
	}
	tail := vParam("deflateTail", 0) == 1
	var first []byte
	if tail {
		// the frame with the huge declared length is the LAST frame of a compressed message whose DEFLATE stream has
		// already ended (a final block) in the frame before it: what is left of the message is only to be skipped
		first = vBytes("z", 2)
		f1 := vFrame{opcode: 2, rsv1: true, masked: !client, payload: vStored(first, []int{2}, true)}
		if f1.masked {
			copy(f1.key[:], vBytes("key", 4))
		}
		h.opcode = 0
		wire = append(vEncodeFrame(f1), vRefEncodeHeader(h)...)
		for i, b := range data {
			wire = append(wire, b^vIteU8(h.masked, h.key[i%4], 0))
		}
	}
	t := vNewTransport(wire)
	var copts *compressionOptions
	if tail {
		copts = vCopts(1)
	}
	c := vNewConn(t, client, copts, 64, 64)
	c.SetReadLimit(-1)
	vGhostAllocReset()
	vGhostAllocGuard("C08.alloc.bounded", vParam("allocBound", 65536))
	var got []byte
	var rerr error
	if vChoose("api", 2) == 0 {
		_, r, err := c.Reader(vBG)
		vAssert(err == nil, "C08.alloc.reader")
		if err != nil {
			return
		}
		got, rerr = vReadAll(r, 8)
	} else {
		_, got, rerr = c.Read(vBG)
		vReach("C08.alloc.conn-read")
	}
	vReach("C08.alloc.read")
	vAssert(rerr != nil, "C08.alloc.truncated-fails")
	if tail {
		vAssert(vIsPrefix(got, first), "C08.alloc.delivered-at-most-present")
	} else {
		vAssert(vAnd(len(got) <= present, vIsPrefix(got, data)), "C08.alloc.delivered-at-most-present")
	}
	vAssert(vGhostAllocMax() <= vParam("allocBound", 65536), "C08.alloc.bounded")
	c.CloseNow()
	vObserve("alloc", declared, got)
}

// C08.seq: the limit may change between messages, also from and to -1 (unlimited): each message is judged by the limit
// in force when it starts. Two messages, the limit set before each (or left alone before the second).
func verifC08_seq() {
	client := vParam("client", 1) == 1
	vInstallRand()
	limits := []int{-1, 1, 2, 3}
	L1 := limits[vChoose("L1", len(limits))]
	n1 := 1 + vChoose("n1", 3)
	change := vChoose("change", 2) == 1
	L2 := L1
	if change {
		L2 = limits[vChoose("L2", len(limits))]
	}
	n2 := 1 + vChoose("n2", 4)
	vAssume(L1 < 0 || n1 <= L1) // the first message is within its limit: the connection survives it
	d1, d2 := vBytes("d1", n1), vBytes("d2", n2)
	var frames []vFrame
	var cuts1 []int
	if n1 > 1 && vChoose("frag1", 2) == 1 {
		cuts1 = []int{1}
	}
	frames = append(frames, vDataFrames(d1, cuts1, 2, false, client)...)
	var cuts2 []int
	if n2 > 1 && vChoose("frag2", 2) == 1 {
		cuts2 = []int{1}
	}
	frames = append(frames, vDataFrames(d2, cuts2, 1, false, client)...)
	t := vNewTransport(vEncodeFrames(frames))
	c := vNewConn(t, client, nil, 64, 256)
	c.SetReadLimit(int64(L1))
	_, b1, err1 := c.Read(vBG)
	vAssert(vAnd(err1 == nil, vEqBytes(b1, d1)), "C08.seq.first-delivered")
	if change {
		c.SetReadLimit(int64(L2))
	}
	_, r, err := c.Reader(vBG)
	vAssert(err == nil, "C08.seq.second-reader")
	if err != nil {
		return
	}
	got, rerr := vReadAll(r, 1+vChoose("buf", 2)*6)
	vReach("C08.seq.read")
	if L1 < 0 {
		vClassify("first", "unlimited")
	} else {
		vClassify("first", "limited")
	}
	if L2 < 0 || n2 <= L2 {
		vReach("C08.seq.within")
		vAssert(vAnd(rerr == nil, vEqBytes(got, d2)), "C08.seq.within-limit-delivered")
	} else {
		vReach("C08.seq.over")
		vAssert(rerr != nil, "C08.seq.over-limit-never-complete")
		vAssert(vAnd(len(got) <= L2+1, vIsPrefix(got, d2)), "C08.seq.over-limit-bytes-handed-out")
		first, nClose, _, _ := vCloseFrames(t.out)
		if nClose == 1 && len(first) >= 2 {
			vAssert(int(first[0])<<8|int(first[1]) == 1009, "C08.seq.close-1009")
		} else {
			vAssert(false, "C08.seq.close-1009")
		}
	}
	c.CloseNow()
	vObserve("c08seq", L1, L2, n1, n2, rerr == nil)
}

// C08.declared: a frame header declaring any length above the limit, up to 2^63-1, with limit+1 (or more) payload bytes
// actually present: the read fails after at most limit+1 bytes and a Close frame with status 1009 goes out, whatever the
// declared length is. (The engine forks on the number of decimal digits of the declared length where the library
// renders it into an error text, so that the length of that text -- it becomes the close reason -- is exact.)
func verifC08_declared() {
	client := vParam("client", 1) == 1
	vInstallRand()
	vGhostFmtDigits(true)
	L := 1 + vChoose("L", 2)
	useDefault := vParam("default", 0) == 1
	if useDefault {
		L = 32768 // the documented default, no SetReadLimit call: five more digits in any text that renders the limit
	}
	declared := vI64("declared")
	vAssume(declared > int64(L))
	present := L + 1 + vChoose("extra", 2)
	vAssume(declared >= int64(present))
	h := vRefHeader{fin: vChoose("fin", 2) == 1, opcode: 2, masked: !client, length: uint64(declared)}
	if h.masked {
		copy(h.key[:], vBytes("key", 4))
	}
	wire := vRefEncodeHeader(h)
	var data []byte
	if useDefault {
		data = make([]byte, present) // contents are not the subject here
	} else {
		data = vBytes("data", present)
	}
	for i, b := range data {
		wire = append(wire, b^vIteU8(h.masked, h.key[i%4], 0))
	}
	t := vNewTransport(wire)
	t.endMode = vEndBlock
	c := vNewConn(t, client, nil, 64, 256)
	bufSize := 1 + vChoose("buf", 2)*6
	if useDefault {
		bufSize = 4096
	} else {
		c.SetReadLimit(int64(L))
	}
	_, r, err := c.Reader(vBG)
	vAssert(err == nil, "C08.declared.reader")
	if err != nil {
		return
	}
	got, rerr := vReadAll(r, bufSize)
	vReach("C08.declared.read")
	vAssert(rerr != nil, "C08.declared.over-limit-never-complete")
	vAssert(vAnd(len(got) <= L+1, vIsPrefix(got, data)), "C08.declared.bytes-handed-out")
	first, nClose, _, _ := vCloseFrames(t.out)
	if nClose == 1 && len(first) >= 2 {
		vAssert(int(first[0])<<8|int(first[1]) == 1009, "C08.declared.close-1009")
	} else {
		vAssert(false, "C08.declared.close-1009")
	}
	c.CloseNow()
	vObserve("c08declared", declared, len(got), nClose)
}

// C08.waiting: the limit is changed between two messages while a reader is already waiting for the next message (it
// called Read before the message arrived; SetReadLimit is called from another goroutine). The limit in force when the
// message arrives is the new one.
func verifC08_waiting() {
	client := vParam("client", 1) == 1
	vInstallRand()
	limits := []int{-1, 1, 3}
	L1 := limits[vChoose("L1", len(limits))]
	L2 := limits[vChoose("L2", len(limits))]
	n := 1 + vChoose("n", 4)
	d := vBytes("d", n)
	var cuts []int
	if n > 1 && vChoose("frag", 2) == 1 {
		cuts = []int{1}
	}
	t := vNewTransport(vEncodeFrames(vDataFrames(d, cuts, 2, false, client)))
	t.endMode = vEndBlock
	gate := t.vTimedGate(0)
	c := vNewConn(t, client, nil, 64, 256)
	c.SetReadLimit(int64(L1))
	type res struct {
		b   []byte
		err error
	}
	done := make(chan res, 1)
	go func() {
		_, b, err := c.Read(vBG)
		done <- res{b, err}
	}()
	vGhostSettle() // the reader waits for the first frame of the next message
	c.SetReadLimit(int64(L2))
	t.vOpenGate(gate)
	r := <-done
	vReach("C08.waiting.read")
	if L2 < 0 || n <= L2 {
		vReach("C08.waiting.within")
		vAssert(vAnd(r.err == nil, vEqBytes(r.b, d)), "C08.waiting.within-the-new-limit-delivered")
	} else {
		vReach("C08.waiting.over")
		vAssert(r.err != nil, "C08.waiting.over-the-new-limit-never-complete")
		first, nClose, _, ok := vCloseFrames(t.out)
		vAssert(vAnd(ok, vAnd(nClose == 1, len(first) >= 2)), "C08.waiting.close-frame-sent")
		if ok && nClose == 1 && len(first) >= 2 {
			vAssert(int(first[0])<<8|int(first[1]) == 1009, "C08.waiting.close-1009")
		}
	}
	c.CloseNow()
	vObserve("c08waiting", L1, L2, n, r.err == nil)
}
