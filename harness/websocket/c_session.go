package websocket

import (
	"context"
	"errors"
	"io"
	"net"
	"time"
)

// Gen.session: ONE real endpoint driven by a program of k steps, every step drawn from an alphabet of local API calls
// (Write, streamed Writer, Read, SetReadLimit, Ping, Close, CloseNow) and of peer actions (data message, fragmented
// message with a Ping inside, stored-block compressed message, Ping, unsolicited Pong, Close frame with or without a
// status, protocol violation). A sequential reference model of the connection (usable or not, read limit, what the peer
// has sent and the application has not consumed yet, what must have reached the wire so far) is advanced alongside; every
// result of every call and the complete wire trace are compared with it. Payload bytes, masking keys and message types
// are solver variables; the program (which step follows which) is forked. The point of the harness is the *composition*:
// the per-property harnesses fix a scenario and vary the values inside it, this one varies the scenario.
//
// The model is deliberately no stricter than the properties: after a protocol violation the Close frame 1002 is optional
// (C03 does not demand it), a Ping that ran into its context's end finishes the program (C10 leaves open what happens to
// the connection then), pongs after the local Close frame are allowed and not demanded (C16).

const (
	vsMsg = iota
	vsFragPing
	vsPing
	vsPong
	vsClose
	vsViolation
)

type vSessIn struct {
	kind    int
	typ     MessageType
	payload []byte // message payload as the application must see it
	first   int    // vsFragPing: length of the first fragment
	ping    []byte
	code    int // vsClose: status code, 1005 = no payload
}

type vSessOut struct {
	compressed bool // (wire side) the message's first frame had RSV1 set: its payload is DEFLATE data
	kind       byte // 'm' data message, 'o' pong, 'i' ping (payload free), 'c' close
	typ        MessageType
	payload    []byte
	code       int
}

type vSession struct {
	client  bool
	deflate bool
	t       *vTransport
	c       *Conn
	usable  bool
	// closedByCall: Close or CloseNow has returned on this connection
	closedByCall bool
	limit        int
	queue        []vSessIn
	exp          []vSessOut
	// lenient: a protocol violation was met; from here on the wire may carry at most one more Close frame and no data
	lenient    bool
	closeInExp bool
	budget     time.Duration
	trace      string
	// open: a streamed message begun by one step and not yet finished (fragments written so far in openSoFar)
	open       io.WriteCloser
	openCancel context.CancelFunc
	openSoFar  []byte
	unfinished bool // the connection ended while a streamed message was unfinished
	comp       bool // every non-empty message written is compressed (threshold 1): concrete payloads, pool discipline watched
	intruded   bool // a write reported success while another message was open: only the structure of the wire is judged
}

// local: payload of a message the application writes: arbitrary bytes, or - comp mode, where the real compressor runs
// on it - a fixed pattern.
func (s *vSession) local(tag string, n int) []byte {
	if !s.comp {
		return vBytes(tag, n)
	}
	b := make([]byte, n)
	for i := range b {
		b[i] = byte('a' + (len(s.trace)+i)%3)
	}
	return b
}

func (s *vSession) mk(f vFrame) vFrame {
	f.masked = !s.client
	if f.masked {
		copy(f.key[:], vBytes("key", 4))
	}
	return f
}

func (s *vSession) feed(fs ...vFrame) {
	for i := range fs {
		fs[i] = s.mk(fs[i])
	}
	s.t.vFeed(vEncodeFrames(fs))
}

// modelRead advances the model over one Read call and returns what that call must yield.
// outcome: 0 message delivered, 1 CloseError(code), 2 fails (violation / over the limit / nothing arrives in time)
func (s *vSession) modelRead() (outcome int, typ MessageType, payload []byte, code int) {
	for len(s.queue) > 0 {
		it := s.queue[0]
		s.queue = s.queue[1:]
		switch it.kind {
		case vsPing:
			s.exp = append(s.exp, vSessOut{kind: 'o', payload: it.ping})
		case vsPong:
		case vsClose:
			s.exp = append(s.exp, vSessOut{kind: 'c', code: it.code})
			s.closeInExp = true
			s.usable = false
			return 1, 0, nil, it.code
		case vsViolation:
			s.lenient = true
			s.usable = false
			return 2, 0, nil, 0
		case vsMsg, vsFragPing:
			if it.kind == vsFragPing {
				if s.limit >= 0 && it.first > s.limit {
					s.exp = append(s.exp, vSessOut{kind: 'c', code: 1009})
					s.closeInExp = true
					s.usable = false
					return 2, 0, nil, 0
				}
				s.exp = append(s.exp, vSessOut{kind: 'o', payload: it.ping})
			}
			if s.limit >= 0 && len(it.payload) > s.limit {
				s.exp = append(s.exp, vSessOut{kind: 'c', code: 1009})
				s.closeInExp = true
				s.usable = false
				return 2, 0, nil, 0
			}
			return 0, it.typ, it.payload, 0
		}
	}
	// nothing (more) arrives: the call ends with its context, the connection is closed
	s.budget += time.Second
	s.usable = false
	return 2, 0, nil, 0
}

func (s *vSession) opRead() {
	s.trace += "R"
	wasUsable := s.usable
	ctx, cancel := context.WithTimeout(vBG, time.Second)
	typ, p, err := s.c.Read(ctx)
	cancel()
	if !wasUsable {
		vAssert(err != nil, "Gen.after.read-fails")
		return
	}
	outcome, wtyp, wp, code := s.modelRead()
	switch outcome {
	case 0:
		vAssert(err == nil, "Gen.read.delivers-the-next-message")
		if err == nil {
			vAssert(typ == wtyp, "Gen.read.type")
			vAssert(vEqBytes(p, wp), "Gen.read.payload")
		}
	case 1:
		vAssert(err != nil, "Gen.read.peer-close-fails-read")
		vAssert(int(CloseStatus(err)) == code, "Gen.read.peer-close-status")
	default:
		vAssert(err != nil, "Gen.read.fails")
		var ce CloseError
		vAssert(!errors.As(err, &ce), "Gen.read.failure-is-not-a-peer-close")
	}
}

func (s *vSession) opWrite(n int, typ MessageType) {
	s.trace += "W"
	p := s.local("w", n)
	keep := append([]byte{}, p...)
	ctx, cancel := context.WithTimeout(vBG, time.Second)
	err := s.c.Write(ctx, typ, p)
	cancel()
	vAssert(vEqBytes(p, keep), "Gen.write.caller-buffer-intact")
	if s.usable && s.open != nil {
		// another message is in progress: this one waits for it until its own context ends and fails; nothing of it may
		// reach the wire, and the connection stays as it is
		// (a library that could send it without touching the open message would be right too: if it reports success, only
		// the structure of the wire is judged)
		if err == nil {
			s.intruded = true
		}
		s.budget += time.Second
		return
	}
	if s.usable {
		vAssert(err == nil, "Gen.write.succeeds-while-open")
		s.exp = append(s.exp, vSessOut{kind: 'm', typ: typ, payload: keep})
	} else {
		if s.lenient && !s.closedByCall {
			// after a protocol violation the library need not have sent a Close frame nor closed the connection: a write
			// that still succeeds is judged on the wire (nothing behind a Close frame)
			if err == nil {
				s.intruded = true
			}
		} else {
			vAssert(err != nil, "Gen.after.write-fails")
		}
		// it may have waited, up to its own deadline, for a message lock that a failed write keeps
		s.budget += time.Second
	}
}

func (s *vSession) opStream(la, lb int) {
	s.trace += "S"
	a := s.local("sa", la)
	b := s.local("sb", lb)
	ctx, cancel := context.WithTimeout(vBG, time.Second)
	defer cancel()
	failed := false
	w, err := s.c.Writer(ctx, MessageText)
	if err != nil {
		failed = true
	} else {
		if _, e := w.Write(a); e != nil {
			failed = true
		}
		if _, e := w.Write(b); e != nil {
			failed = true
		}
		if e := w.Close(); e != nil {
			failed = true
		}
	}
	if s.usable && s.open != nil {
		if !failed {
			s.intruded = true
		}
		s.budget += time.Second
		return
	}
	if s.usable {
		vAssert(!failed, "Gen.stream.succeeds-while-open")
		s.exp = append(s.exp, vSessOut{kind: 'm', typ: MessageText, payload: append(append([]byte{}, a...), b...)})
	} else {
		if s.lenient && !s.closedByCall {
			if !failed {
				s.intruded = true
			}
		} else {
			vAssert(failed, "Gen.after.writer-fails")
		}
		s.budget += time.Second
	}
}

// opBegin: a streamed message is begun and its first fragment written; it stays open across the following steps.
func (s *vSession) opBegin() {
	s.trace += "B"
	ctx, cancel := context.WithCancel(vBG)
	w, err := s.c.Writer(ctx, MessageText)
	if !s.usable {
		vAssert(err != nil, "Gen.after.writer-fails")
		cancel()
		return
	}
	vAssert(err == nil, "Gen.stream.succeeds-while-open")
	if err != nil {
		cancel()
		return
	}
	a := s.local("ba", 2)
	_, err = w.Write(a)
	vAssert(err == nil, "Gen.stream.succeeds-while-open")
	s.open, s.openCancel, s.openSoFar = w, cancel, append([]byte{}, a...)
}

// opEnd: the open streamed message gets its last fragment and is closed.
func (s *vSession) opEnd() {
	s.trace += "E"
	b := s.local("bb", 1)
	_, e1 := s.open.Write(b)
	e2 := s.open.Close()
	s.openCancel()
	if s.usable {
		vAssert(e1 == nil && e2 == nil, "Gen.stream.succeeds-while-open")
		s.exp = append(s.exp, vSessOut{kind: 'm', typ: MessageText, payload: append(s.openSoFar, b...)})
	} else {
		// the connection is over: the rest of the message cannot be sent any more. (Judged on the wire: if the calls report
		// success nevertheless, the frames they wrote show up behind the Close frame or not at all.)
		s.unfinished = e1 != nil || e2 != nil
	}
	s.open = nil
}

func (s *vSession) opClose() {
	s.trace += "C"
	wasUsable := s.usable
	echoes := false
	if wasUsable {
		s.exp = append(s.exp, vSessOut{kind: 'c', code: 1000})
		s.closeInExp = true
		// what the close handshake meets while it waits
		found := false
		for _, it := range s.queue {
			if it.kind == vsClose {
				echoes = it.code == 1000
				found = true
				break
			}
			if it.kind == vsViolation {
				// the handshake may fail at once or, where it merely discards the offending data frame, wait on
				break
			}
		}
		if !found {
			s.budget += 5 * time.Second
		}
		s.queue = nil
	}
	err := s.c.Close(StatusNormalClosure, "")
	if s.closedByCall {
		vAssert(err != nil && errors.Is(err, net.ErrClosed), "Gen.after.close-again-is-ErrClosed")
	}
	if echoes {
		vAssert(err == nil, "Gen.close.nil-when-the-peer-echoes")
	}
	s.usable = false
	s.closedByCall = true
	vAssert(!vIsOpen(s.c), "Gen.close.connection-closed")
	vAssert(s.t.isClosed, "Gen.close.transport-closed")
	vAssert(vGhostGoroutines() == 0, "Gen.close.no-goroutine-left")
}

func (s *vSession) opCloseNow() {
	s.trace += "N"
	err := s.c.CloseNow()
	if s.closedByCall {
		vAssert(err != nil && errors.Is(err, net.ErrClosed), "Gen.after.closenow-again-is-ErrClosed")
	}
	s.usable = false
	s.closedByCall = true
	s.queue = nil
	vAssert(!vIsOpen(s.c), "Gen.closenow.connection-closed")
	vAssert(s.t.isClosed, "Gen.closenow.transport-closed")
	vAssert(vGhostGoroutines() == 0, "Gen.closenow.no-goroutine-left")
}

// checkWire compares everything the endpoint wrote with the model.
func (s *vSession) checkWire() {
	frames, ok := vParseWritten(s.t.out)
	vAssert(ok, "Gen.wire.wellformed")
	good, inMsg, _ := vWireSequenceOK(frames, s.client)
	vAssert(good, "Gen.wire.frame-sequence")
	vAssert(!inMsg || s.unfinished, "Gen.wire.no-unfinished-message")
	var act []vSessOut
	var cur []byte
	var curTyp MessageType
	curZ := false
	for _, f := range frames {
		vAssert(!f.rsv2 && !f.rsv3, "Gen.wire.reserved-bits")
		// every message of the program is below the compression threshold (comp mode: above it)
		vAssert(!f.rsv1 || s.comp, "Gen.wire.rsv1-only-on-compressed")
		switch f.opcode {
		case 8:
			vAssert(len(f.payload) != 1 && len(f.payload) <= 125, "Gen.wire.close-payload")
			code := 1005
			if len(f.payload) >= 2 {
				code = int(f.payload[0])<<8 | int(f.payload[1])
			}
			act = append(act, vSessOut{kind: 'c', code: code, payload: f.payload})
		case 9:
			vAssert(len(f.payload) <= 125, "Gen.wire.control-payload")
			act = append(act, vSessOut{kind: 'i', payload: f.payload})
		case 10:
			act = append(act, vSessOut{kind: 'o', payload: f.payload})
		case 1, 2:
			curTyp = MessageType(f.opcode)
			curZ = f.rsv1
			cur = append([]byte{}, f.payload...)
			if f.fin {
				act = append(act, vSessOut{kind: 'm', typ: curTyp, payload: cur, compressed: curZ})
			}
		case 0:
			cur = append(cur, f.payload...)
			if f.fin {
				act = append(act, vSessOut{kind: 'm', typ: curTyp, payload: cur, compressed: curZ})
			}
		default:
			vAssert(false, "Gen.wire.opcode")
		}
	}
	// C16, independent of the model: behind the first Close frame no data message and no second Close frame
	seenClose := false
	for _, a := range act {
		if seenClose && a.kind == 'm' {
			vAssert(false, "Gen.wire.data-after-close")
		}
		if seenClose && a.kind == 'c' {
			vAssert(false, "Gen.wire.second-close")
		}
		if a.kind == 'c' {
			seenClose = true
		}
	}
	if s.intruded {
		return
	}
	j := 0
	for _, e := range s.exp {
		if j >= len(act) {
			vAssert(false, "Gen.wire.missing-"+string([]byte{e.kind}))
			return
		}
		a := act[j]
		j++
		if a.kind != e.kind {
			vAssert(false, "Gen.wire.expected-"+string([]byte{e.kind})+"-got-"+string([]byte{a.kind}))
			return
		}
		switch e.kind {
		case 'm':
			vAssert(a.typ == e.typ, "Gen.wire.message-type")
			if !a.compressed {
				// (compressed payloads are decoded by the receiving library in C01.flate-e2e, not here)
				vAssert(vEqBytes(a.payload, e.payload), "Gen.wire.message-payload")
			}
		case 'o':
			vAssert(vEqBytes(a.payload, e.payload), "Gen.wire.pong-payload")
		case 'c':
			vAssert(a.code == e.code, "Gen.wire.close-code")
			if e.code == 1005 {
				vAssert(len(a.payload) == 0, "Gen.wire.statusless-close-is-empty")
			}
		}
	}
	closes := 0
	for ; j < len(act); j++ {
		switch act[j].kind {
		case 'm':
			if s.closeInExp || s.lenient {
				vAssert(false, "Gen.wire.data-after-close")
			} else {
				vAssert(false, "Gen.wire.unexpected-message")
			}
		case 'c':
			closes++
			if s.closeInExp {
				vAssert(false, "Gen.wire.second-close")
			} else if !s.lenient {
				vAssert(false, "Gen.wire.unexpected-close")
			}
		case 'i', 'o':
			if !s.closeInExp && !s.lenient {
				vAssert(false, "Gen.wire.unexpected-control")
			}
		}
	}
	vAssert(closes <= 1, "Gen.wire.second-close")
}

func verifGen_session() {
	client := vParam("client", 1) == 1
	mode := vParam("deflate", 0)
	steps := vParam("steps", 3)
	lean := vParam("lean", 0) >= 1
	lean2 := vParam("lean", 0) == 2
	// stream=1: a streamed message may be begun in one step and finished in a later one, with anything in between
	stream := vParam("stream", 0) == 1
	pick := func(tag string, n int, fixed int) int {
		if lean2 {
			return fixed
		}
		return vChoose(tag, n)
	}
	vInstallRand()
	t := vNewTransport(nil)
	t.endMode = vEndBlock
	t.step = vParam("step", 0)
	s := &vSession{client: client, deflate: mode != 0, t: t, usable: true, limit: 32768}
	s.c = vNewConn(t, client, vCopts(mode), vParam("br", 16), vParam("bw", 32))
	if vParam("comp", 0) == 1 && mode != 0 {
		s.comp = true
		s.c.flateThreshold = 1
		vGhostPoolMode(0)
		vGhostPoolMonitor(true)
	}
	lens := []int{0, 1, 3}
	// prog > 0 (development aid): the program is fixed, one hexadecimal digit per step, least significant first
	prog := vParam("prog", 0)
	pingOut := false
	for i := 0; i < steps && !pingOut; i++ {
		if !s.usable {
			// the connection is over: what is left to explore is that everything fails and nothing more is sent
			after := []int{0, 1, 2, 3, 4}
			if lean2 {
				after = []int{0, 2, 3}
			}
			if s.open != nil {
				after = append(after, 5)
			}
			ai := 0
			if prog > 0 {
				ai = (prog >> (4 * uint(i))) & 15
			} else {
				ai = vChoose("opAfter", len(after))
			}
			switch after[ai] {
			case 0:
				s.opWrite(1, MessageBinary)
			case 1:
				s.opStream(1, 0)
			case 2:
				s.opRead()
			case 3:
				s.opClose()
			case 4:
				s.opCloseNow()
			case 5:
				s.opEnd()
			}
			continue
		}
		ops := []int{0, 1, 2, 3, 4, 5, 6, 7, 8, 9, 10, 11, 12, 13}
		if lean2 {
			// depth over breadth: one representative per kind of step, no sub-choices
			ops = []int{0, 2, 3, 4, 5, 6, 7, 8, 10, 11}
		}
		if mode != 0 {
			ops = append(ops, 14)
		}
		if stream {
			if s.open == nil {
				ops = append(ops, 15)
			} else {
				ops = append(ops, 16)
			}
		}
		oi := 0
		if prog > 0 {
			oi = (prog >> (4 * uint(i))) & 15
		} else {
			oi = vChoose("op", len(ops))
		}
		switch ops[oi] {
		case 0:
			n := lens[pick("wlen", 3, 1)]
			typ := MessageBinary
			if !lean && vChoose("wtyp", 2) == 1 {
				typ = MessageText
			}
			s.opWrite(n, typ)
		case 1:
			k := 0
			if !lean {
				k = vChoose("chunks", 3)
			}
			s.opStream([]int{1, 0, 2}[k], []int{1, 1, 0}[k])
		case 2:
			s.opRead()
		case 3:
			s.trace += "L"
			l := 0
			if lean2 {
				// (two representatives: a limit below every non-empty message, and one between the message lengths)
				l = []int{2, 0}[vChoose("limit2", 2)]
			} else {
				l = []int{0, 2, -1}[vChoose("limit", 3)]
			}
			s.c.SetReadLimit(int64(l))
			s.limit = l
		case 4:
			s.opClose()
		case 5:
			s.opCloseNow()
		case 6:
			// the peer sends a data message in one frame
			s.trace += "m"
			n := lens[pick("plen", 3, 2)]
			typ := MessageBinary
			if n == 1 {
				typ = MessageText
			}
			p := vBytes("pm", n)
			s.feed(vFrame{fin: true, opcode: uint8(typ), payload: p})
			s.queue = append(s.queue, vSessIn{kind: vsMsg, typ: typ, payload: p})
		case 7:
			// a message in two fragments (the second possibly empty) with a Ping between them
			s.trace += "f"
			p1 := vBytes("pf", 1)
			p2 := vBytes("pf", pick("f2", 2, 1))
			pp := vBytes("pfping", 2)
			s.feed(vFrame{opcode: 2, payload: p1}, vFrame{fin: true, opcode: 9, payload: pp}, vFrame{fin: true, opcode: 0, payload: p2})
			s.queue = append(s.queue, vSessIn{kind: vsFragPing, typ: MessageBinary, payload: append(append([]byte{}, p1...), p2...), first: 1, ping: pp})
		case 8:
			s.trace += "p"
			pp := vBytes("pp", []int{0, 2}[pick("pinglen", 2, 1)])
			s.feed(vFrame{fin: true, opcode: 9, payload: pp})
			s.queue = append(s.queue, vSessIn{kind: vsPing, ping: pp})
		case 9:
			s.trace += "o"
			s.feed(vFrame{fin: true, opcode: 10, payload: vBytes("po", 1)})
			s.queue = append(s.queue, vSessIn{kind: vsPong})
		case 10:
			s.trace += "c"
			k := pick("pcode", 3, 0)
			switch k {
			case 0:
				s.feed(vFrame{fin: true, opcode: 8, payload: []byte{0x03, 0xe8}})
				s.queue = append(s.queue, vSessIn{kind: vsClose, code: 1000})
			case 1:
				s.feed(vFrame{fin: true, opcode: 8, payload: []byte{0x03, 0xe9, 'x'}})
				s.queue = append(s.queue, vSessIn{kind: vsClose, code: 1001})
			default:
				s.feed(vFrame{fin: true, opcode: 8})
				s.queue = append(s.queue, vSessIn{kind: vsClose, code: 1005})
			}
		case 11:
			s.trace += "x"
			switch pick("viol", 3, 0) {
			case 0:
				s.feed(vFrame{fin: true, rsv2: true, opcode: 2, payload: vBytes("px", 1)})
			case 1:
				s.feed(vFrame{fin: true, opcode: 3, payload: vBytes("px", 1)})
			default:
				s.feed(vFrame{fin: true, opcode: 0, payload: vBytes("px", 1)})
			}
			s.queue = append(s.queue, vSessIn{kind: vsViolation})
		case 12:
			// a local Ping that nobody answers: it must fail when its context ends; what the connection is afterwards is
			// left open by the model, so the program ends here
			s.trace += "i"
			ctx, cancel := context.WithTimeout(vBG, time.Second)
			err := s.c.Ping(ctx)
			cancel()
			vAssert(err != nil, "Gen.ping.unanswered-fails")
			s.exp = append(s.exp, vSessOut{kind: 'i'})
			s.budget += time.Second
			pingOut = true
		case 13:
			// an empty streamed message: Writer and Close at once
			s.trace += "e"
			ctx, cancel := context.WithTimeout(vBG, time.Second)
			w, err := s.c.Writer(ctx, MessageBinary)
			vAssert(err == nil, "Gen.stream.succeeds-while-open")
			if err == nil {
				vAssert(w.Close() == nil, "Gen.stream.succeeds-while-open")
			}
			cancel()
			s.exp = append(s.exp, vSessOut{kind: 'm', typ: MessageBinary})
		case 15:
			s.opBegin()
		case 16:
			s.opEnd()
		case 14:
			// a compressed message (one stored block, sync-flush ending) in one or two frames
			s.trace += "z"
			p := vBytes("pz", 2)
			z := vStored(p, []int{2}, false)
			if pick("zsplit", 2, 1) == 1 {
				s.feed(vFrame{opcode: 1, rsv1: true, payload: z[:3]}, vFrame{fin: true, opcode: 0, payload: z[3:]})
			} else {
				s.feed(vFrame{fin: true, opcode: 1, rsv1: true, payload: z})
			}
			s.queue = append(s.queue, vSessIn{kind: vsMsg, typ: MessageText, payload: p})
		}
	}
	if s.open != nil {
		s.opEnd()
	}
	vReach("Gen.session.program-done")
	// drain: the application reads what the peer has sent so far (every pending Ping is answered on the way)
	for k := 0; k < 2 && s.usable && len(s.queue) > 0 && !pingOut; k++ {
		s.opRead()
	}
	s.opCloseNow()
	s.checkWire()
	if s.comp {
		// compressors, decompressors and buffers borrowed from the pools are handed back once, and not used afterwards
		vAssertGhost(vGhostPoolViolations() == 0, "Gen.pool.discipline")
	}
	vAssert(vGhostElapsed() <= s.budget+vSlack()*time.Duration(1+len(s.trace)), "Gen.session.bounded-time")
	vReach("Gen.session.done")
	vClassify("program", s.trace)
	vObserve("session", s.trace, vWireSummary(t.out))
}

// ---------------------------------------------------------------------------------------------------------------------
// Gen.session.bg: the same idea with the usual structure of an application: ONE goroutine reads in a loop for the whole
// life of the connection while the program's steps are issued from another. What the peer sends is consumed as it
// arrives (the reader is blocked in Read when it does), Pings of the application are answered by the peer and must
// return nil, Close runs its handshake against the reader that owns the read lock (the peer echoing or not), the read
// limit changes while the reader waits. The model is the same; what the reader delivered is compared, in order, when
// the program is over. One sequential schedule (run until blocked, settle after every step); payloads symbolic.

type vBgRead struct {
	typ MessageType
	p   []byte
	err error
}

type vBgExpect struct {
	outcome int // 0 message, 1 CloseError(code), 2 failure that is not a peer close, 3 ends with the connection (any error)
	typ     MessageType
	p       []byte
	code    int
}

// consume advances the model over everything the reader can process now.
func (s *vSession) consume(want *[]vBgExpect) {
	for s.usable && len(s.queue) > 0 {
		o, typ, p, code := s.modelRead()
		if o == 2 && len(s.queue) == 0 && s.usable == false && !s.lenient && !s.closeInExp {
			// modelRead's "nothing arrives in time" does not exist here: the reader waits without a deadline
			s.usable = true
			s.budget -= time.Second
			return
		}
		*want = append(*want, vBgExpect{outcome: o, typ: typ, p: p, code: code})
	}
}

func verifGen_session_bg() {
	client := vParam("client", 1) == 1
	mode := vParam("deflate", 0)
	steps := vParam("steps", 3)
	vInstallRand()
	t := vNewTransport(nil)
	t.endMode = vEndBlock
	t.step = vParam("step", 0)
	s := &vSession{client: client, deflate: mode != 0, t: t, usable: true, limit: 32768}
	s.c = vNewConn(t, client, vCopts(mode), vParam("br", 16), vParam("bw", 32))
	got := make(chan vBgRead, 64)
	go func() {
		for {
			typ, p, err := s.c.Read(vBG)
			got <- vBgRead{typ, p, err}
			if err != nil {
				return
			}
		}
	}()
	vGhostSettle()
	var want []vBgExpect
	ended := false // the model has recorded how the reader's loop ends
	endReader := func() {
		if !ended {
			want = append(want, vBgExpect{outcome: 3})
			ended = true
		}
	}
	afterFeed := func() {
		vGhostSettle()
		s.consume(&want)
		if !s.usable {
			ended = true // the last expectation is the failing read
		}
	}
	lens := []int{0, 1, 3}
	for i := 0; i < steps; i++ {
		if !s.usable {
			switch vChoose("opAfter", 4) {
			case 0:
				s.opWrite(1, MessageBinary)
			case 1:
				s.opClose()
			case 2:
				s.opCloseNow()
			case 3:
				s.trace += "i"
				ctx, cancel := context.WithTimeout(vBG, time.Second)
				vAssert(s.c.Ping(ctx) != nil, "Gen.after.ping-fails")
				cancel()
				s.budget += time.Second
			}
			continue
		}
		ops := []int{0, 1, 3, 4, 5, 6, 7, 8, 9, 10, 11, 12}
		if mode != 0 {
			ops = append(ops, 14)
		}
		switch ops[vChoose("op", len(ops))] {
		case 0:
			s.opWrite(lens[vChoose("wlen", 3)], MessageBinary)
		case 1:
			s.opStream(1, 1)
		case 3:
			s.trace += "L"
			l := []int{0, 2, -1}[vChoose("limit", 3)]
			s.c.SetReadLimit(int64(l))
			s.limit = l
		case 4:
			// Close, the peer answering with its own Close frame or staying silent
			s.trace += "C"
			echo := vChoose("echo", 2) == 1
			s.exp = append(s.exp, vSessOut{kind: 'c', code: 1000})
			s.closeInExp = true
			done := make(chan error, 1)
			go func() { done <- s.c.Close(StatusNormalClosure, "") }()
			vGhostSettle()
			if echo {
				s.feed(vFrame{fin: true, opcode: 8, payload: []byte{0x03, 0xe8}})
			} else {
				s.budget += 5 * time.Second
			}
			err := <-done
			if echo {
				vAssert(err == nil, "Gen.close.nil-when-the-peer-echoes")
			}
			s.usable = false
			s.closedByCall = true
			endReader()
			vAssert(!vIsOpen(s.c), "Gen.close.connection-closed")
			vAssert(s.t.isClosed, "Gen.close.transport-closed")
			vGhostSettle()
			vAssert(vGhostGoroutines() == 0, "Gen.close.no-goroutine-left")
		case 5:
			s.opCloseNow()
			endReader()
		case 6:
			s.trace += "m"
			n := lens[vChoose("plen", 3)]
			typ := MessageBinary
			if n == 1 {
				typ = MessageText
			}
			p := vBytes("pm", n)
			s.feed(vFrame{fin: true, opcode: uint8(typ), payload: p})
			s.queue = append(s.queue, vSessIn{kind: vsMsg, typ: typ, payload: p})
			afterFeed()
		case 7:
			s.trace += "f"
			p1 := vBytes("pf", 1)
			p2 := vBytes("pf", vChoose("f2", 2))
			pp := vBytes("pfping", 2)
			s.feed(vFrame{opcode: 2, payload: p1}, vFrame{fin: true, opcode: 9, payload: pp}, vFrame{fin: true, opcode: 0, payload: p2})
			s.queue = append(s.queue, vSessIn{kind: vsFragPing, typ: MessageBinary, payload: append(append([]byte{}, p1...), p2...), first: 1, ping: pp})
			afterFeed()
		case 8:
			s.trace += "p"
			pp := vBytes("pp", []int{0, 2}[vChoose("pinglen", 2)])
			s.feed(vFrame{fin: true, opcode: 9, payload: pp})
			s.queue = append(s.queue, vSessIn{kind: vsPing, ping: pp})
			afterFeed()
		case 9:
			s.trace += "o"
			s.feed(vFrame{fin: true, opcode: 10, payload: vBytes("po", 1)})
			s.queue = append(s.queue, vSessIn{kind: vsPong})
			afterFeed()
		case 10:
			s.trace += "c"
			switch vChoose("pcode", 3) {
			case 0:
				s.feed(vFrame{fin: true, opcode: 8, payload: []byte{0x03, 0xe8}})
				s.queue = append(s.queue, vSessIn{kind: vsClose, code: 1000})
			case 1:
				s.feed(vFrame{fin: true, opcode: 8, payload: []byte{0x03, 0xe9, 'x'}})
				s.queue = append(s.queue, vSessIn{kind: vsClose, code: 1001})
			default:
				s.feed(vFrame{fin: true, opcode: 8})
				s.queue = append(s.queue, vSessIn{kind: vsClose, code: 1005})
			}
			afterFeed()
		case 11:
			s.trace += "x"
			switch vChoose("viol", 2) {
			case 0:
				s.feed(vFrame{fin: true, rsv2: true, opcode: 2, payload: vBytes("px", 1)})
			default:
				s.feed(vFrame{fin: true, opcode: 3, payload: vBytes("px", 1)})
			}
			s.queue = append(s.queue, vSessIn{kind: vsViolation})
			afterFeed()
		case 12:
			// a Ping of the application; the peer answers with a Pong bearing its payload (possibly after a Pong that
			// answers nothing): Ping returns nil
			s.trace += "A"
			before := len(t.out)
			done := make(chan error, 1)
			ctx, cancel := context.WithTimeout(vBG, 2*time.Second)
			go func() { done <- s.c.Ping(ctx) }()
			vGhostSettle()
			frs, ok := vParseWritten(t.out[before:])
			vAssert(ok && len(frs) == 1 && frs[0].opcode == 9, "Gen.ping.frame-written")
			s.exp = append(s.exp, vSessOut{kind: 'i'})
			if ok && len(frs) == 1 {
				if vChoose("strayPongFirst", 2) == 1 {
					s.feed(vFrame{fin: true, opcode: 10, payload: append(append([]byte{}, frs[0].payload...), 'x')})
					vGhostSettle()
				}
				s.feed(vFrame{fin: true, opcode: 10, payload: frs[0].payload})
			}
			err := <-done
			cancel()
			vAssert(err == nil, "Gen.ping.answered-returns-nil")
		case 14:
			s.trace += "z"
			p := vBytes("pz", 2)
			z := vStored(p, []int{2}, false)
			s.feed(vFrame{opcode: 1, rsv1: true, payload: z[:3]}, vFrame{fin: true, opcode: 0, payload: z[3:]})
			s.queue = append(s.queue, vSessIn{kind: vsMsg, typ: MessageText, payload: p})
			afterFeed()
		}
	}
	vReach("Gen.bg.program-done")
	s.opCloseNow()
	endReader()
	vGhostSettle()
	// what the reader delivered, in order
	for k, w := range want {
		var r vBgRead
		select {
		case r = <-got:
		default:
			vAssert(false, "Gen.bg.reader-delivered-less-than-the-peer-sent")
			k = len(want)
		}
		if k == len(want) {
			break
		}
		switch w.outcome {
		case 0:
			vAssert(r.err == nil, "Gen.read.delivers-the-next-message")
			if r.err == nil {
				vAssert(r.typ == w.typ, "Gen.read.type")
				vAssert(vEqBytes(r.p, w.p), "Gen.read.payload")
			}
		case 1:
			vAssert(r.err != nil, "Gen.read.peer-close-fails-read")
			vAssert(int(CloseStatus(r.err)) == w.code, "Gen.read.peer-close-status")
		case 2:
			vAssert(r.err != nil, "Gen.read.fails")
			var ce CloseError
			vAssert(!errors.As(r.err, &ce), "Gen.read.failure-is-not-a-peer-close")
		case 3:
			vAssert(r.err != nil, "Gen.bg.reader-ends-with-the-connection")
		}
	}
	select {
	case <-got:
		vAssert(false, "Gen.bg.reader-delivered-more-than-the-peer-sent")
	default:
	}
	s.checkWire()
	vAssert(vGhostElapsed() <= s.budget+vSlack()*time.Duration(1+len(s.trace)), "Gen.session.bounded-time")
	vReach("Gen.bg.done")
	vClassify("program", s.trace)
	vObserve("sessionbg", s.trace, vWireSummary(t.out))
}
