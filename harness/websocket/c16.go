package websocket

import (
	"context"
	"time"
)

// C16.seq: histories of a triggering event followed by local operations; in the complete wire trace no data frame and
// no second Close frame follows the first Close frame (Pings/Pongs may: the property and RFC 6455 5.5.1 do not rule them
// out, and 5.5.2 requires a Ping received before the peer's Close frame to be answered).
func verifC16_seq() {
	client := vParam("client", 1) == 1
	vInstallRand()
	mk := func(f vFrame) vFrame {
		f.masked = !client
		if f.masked {
			copy(f.key[:], vBytes("key", 4))
		}
		return f
	}
	pre := vChoose("pre", 6)
	var in []vFrame
	preName := "none"
	switch pre {
	case 1:
		preName = "peer-close"
		in = append(in, mk(vFrame{fin: true, opcode: 8, payload: []byte{0x03, 0xe8}}))
	case 2:
		preName = "rsv-violation"
		in = append(in, mk(vFrame{fin: true, rsv2: true, opcode: 2, payload: vBytes("p", 1)}))
	case 3:
		preName = "over-limit"
		in = append(in, mk(vFrame{fin: true, opcode: 2, payload: vBytes("p", 4)}))
	case 4:
		preName = "bad-opcode"
		in = append(in, mk(vFrame{fin: true, opcode: 3}))
	case 5:
		preName = "bad-close-payload"
		in = append(in, mk(vFrame{fin: true, opcode: 8, payload: vBytes("p", 1)}))
	}
	vClassify("pre", preName)
	// what the peer does after that: echo a close (early, it is already in the pipe), or stay silent
	echoKind := vChoose("peerEcho", 3) // 0: silent, 1: a Close frame with a status code, 2: a Close frame without one
	peerEcho := echoKind != 0
	if peerEcho && pre != 1 {
		if echoKind == 2 {
			in = append(in, mk(vFrame{fin: true, opcode: 8}))
		} else {
			in = append(in, mk(vFrame{fin: true, opcode: 8, payload: []byte{0x03, 0xe8}}))
		}
	}
	t := vNewTransport(vEncodeFrames(in))
	t.endMode = vEndBlock
	c := vNewConn(t, client, nil, 16, 256)
	if pre == 3 {
		c.SetReadLimit(2)
	}
	if pre != 0 {
		// the application reads and meets the event
		_, _, err := c.Read(vBG)
		vAssert(err != nil, "C16.seq.event-fails-read")
	}
	ops := vParam("ops", 2)
	seq := ""
	for i := 0; i < ops; i++ {
		switch vChoose("op", 5) {
		case 4:
			seq += "X" // a Close call whose arguments cannot be marshalled (reason too long): nothing may be written
			c.Close(StatusNormalClosure, string(vBytes("longReason", 124)))
		case 0:
			seq += "W"
			c.Write(vBG, MessageBinary, vBytes("w", 1))
		case 1:
			seq += "C"
			c.Close(StatusNormalClosure, "bye")
		case 2:
			seq += "P"
			ctx, cancel := context.WithCancel(vBG)
			cancel()
			c.Ping(ctx)
		case 3:
			seq += "R"
			rctx, rcancel := context.WithTimeout(vBG, time.Second)
			c.Read(rctx)
			rcancel()
		}
	}
	vReach("C16.seq.done")
	frames, ok := vParseWritten(t.out)
	vAssert(ok, "C16.seq.wellformed")
	seenClose := false
	after := "none"
	for _, f := range frames {
		if seenClose && (after == "none" || after == "ping-or-pong") {
			switch {
			case f.opcode == 8:
				after = "second-close"
			case f.opcode < 8:
				after = "data"
			default:
				after = "ping-or-pong"
			}
		}
		if f.opcode == 8 {
			seenClose = true
		}
	}
	if seenClose {
		vReach("C16.seq.close-sent")
	}
	vClassify("after", after)
	// the property (and RFC 6455 5.5.1) rules out data frames and a second Close frame; a Pong answering a Ping that
	// arrived before the peer's Close frame is legitimate (5.5.2)
	vAssert(after == "none" || after == "ping-or-pong", "C16.seq.nothing-after-close")
	c.CloseNow()
	vObserve("c16", vWireSummary(t.out), seq)
}

// C16.guard: one step of writeFrame from any state in which a Close frame has already been handed to writeFrame: no data
// frame and no second Close frame may be emitted. Together with frame atomicity (C05.frame-atomic: frames are totally ordered
// by writeFrameMu) this is the statement that holds for every interleaving of writers, pingers and closers.
func verifC16_guard() {
	client := vParam("client", 1) == 1
	vInstallRand()
	t := vNewTransport(nil)
	t.endMode = vEndBlock
	c := vNewConn(t, client, vCopts(vParam("deflate", 0)), 16, 32)
	// reach the state through the public API: a Close frame goes out (the peer never answers: writeClose only)
	err := c.writeClose(vBG, StatusNormalClosure, "bye")
	vAssert(err == nil, "C16.guard.setup")
	// control frames may still follow the Close frame (a Ping of ours, the Pong to a Ping that arrives while we wait for
	// the peer's Close frame): they do not switch the guard off again
	switch vChoose("controlAfterClose", 3) {
	case 1:
		c.writeControl(vBG, opPong, vBytes("pp", 1))
	case 2:
		c.writeControl(vBG, opPing, vBytes("pp", 1))
	}
	before := len(t.out)
	vReach("C16.guard.close-sent")
	fin := vBool("fin")
	fl := vBool("flate")
	// a data frame of any kind (control frames other than Close are not restricted by the property)
	op := []opcode{opContinuation, opText, opBinary}[vChoose("opcode", 3)]
	// (whether the call fails at once or waits for its context is the implementation's choice: only the wire is asserted)
	wctx, wcancel := context.WithTimeout(vBG, time.Second)
	c.writeFrame(wctx, fin, fl, op, vBytes("p", vChoose("n", 4)))
	wcancel()
	if vIsOpen(c) {
		c.bw.Flush()
	}
	vAssert(len(t.out) == before, "C16.guard.nothing-emitted")
	// a second Close frame is refused as well
	c.writeClose(vBG, StatusGoingAway, "again")
	if vIsOpen(c) {
		c.bw.Flush()
	}
	vAssert(len(t.out) == before, "C16.guard.no-second-close")
	wctx2, wcancel2 := context.WithTimeout(vBG, time.Second)
	c.Write(wctx2, MessageText, []byte("x"))
	wcancel2()
	vAssert(len(t.out) == before, "C16.guard.nothing-emitted")
	c.CloseNow()
	vObserve("guard", len(t.out))
}

// C16.sched (exploration mode): a writer (streaming two chunks), a pinger and a closer run concurrently while the peer's
// echo is already waiting; under every interleaving at synchronisation operations within the preemption bound the wire
// carries nothing after the first Close frame, and every data message on the wire is complete or a prefix of frames.
func verifC16_sched() {
	client := vParam("client", 1) == 1
	vInstallRand()
	echo := vFrame{fin: true, opcode: 8, masked: !client, payload: []byte{0x03, 0xe8}}
	if echo.masked {
		copy(echo.key[:], vBytes("key", 4))
	}
	t := vNewTransport(vEncodeFrame(echo))
	t.endMode = vEndBlock
	c := vNewConn(t, client, nil, 16, 16)
	done := make(chan struct{}, 3)
	vGhostExplore(vParam("preempt", 1))
	go func() {
		w, err := c.Writer(vBG, MessageText)
		if err == nil {
			w.Write(vBytes("a", 1))
			w.Write(vBytes("a", 1))
			w.Close()
		}
		done <- struct{}{}
	}()
	n := 2
	if vParam("pinger", 0) == 1 {
		n = 3
		go func() {
			ctx, cancel := context.WithTimeout(vBG, time.Second)
			c.Ping(ctx)
			cancel()
			done <- struct{}{}
		}()
	}
	go func() {
		c.Close(StatusNormalClosure, "")
		done <- struct{}{}
	}()
	for i := 0; i < n; i++ {
		<-done
	}
	vGhostExploreOff()
	vReach("C16.sched.finished")
	frames, ok := vParseWritten(t.out)
	vAssert(ok, "C16.sched.wellformed")
	seenClose, after := false, 0
	for _, f := range frames {
		if seenClose && (f.opcode <= 2 || f.opcode == 8) {
			after++ // a data frame or a second Close frame
		}
		if f.opcode == 8 {
			seenClose = true
		}
	}
	vAssert(after == 0, "C16.sched.nothing-after-close")
	if seenClose {
		vReach("C16.sched.close-sent")
	}
	c.CloseNow()
	vObserve("c16sched", len(frames))
}

// C16.two-closers: a local Close and a peer-initiated close (the echo of the peer's Close frame) both reach writeClose
// while a third party (a Ping stuck in the transport) holds the frame lock, in either order; when the transport lets go
// at most one Close frame may appear on the wire. (On the current tree the closer that finds the Close frame already
// claimed closes the connection at once, so that none is written at all in these schedules.)
func verifC16_two_closers() {
	client := vParam("client", 1) == 1
	vInstallRand()
	pc := vFrame{fin: true, opcode: 8, masked: !client, payload: []byte{0x03, 0xe9}}
	if pc.masked {
		copy(pc.key[:], vBytes("key", 4))
	}
	t := vNewTransport(vEncodeFrame(pc))
	t.endMode = vEndBlock
	t.holdAt = 1
	c := vNewConn(t, client, nil, 16, 64)
	done := make(chan struct{}, 3)
	go func() {
		ctx, cancel := context.WithTimeout(vBG, 3*time.Second)
		c.Ping(ctx)
		cancel()
		done <- struct{}{}
	}()
	vGhostSettle() // the Ping is stuck in the transport, holding the frame lock
	localFirst := vChoose("localFirst", 2) == 1
	reader := func() {
		c.Read(vBG) // meets the peer's Close frame and echoes it
		done <- struct{}{}
	}
	closer := func() {
		c.Close(StatusNormalClosure, "")
		done <- struct{}{}
	}
	if localFirst {
		go closer()
		vGhostSettle()
		go reader()
	} else {
		go reader()
		vGhostSettle()
		go closer()
	}
	vGhostSettle() // both closers are past their check and queue for the frame lock (or have been refused)
	close(t.release)
	for i := 0; i < 3; i++ {
		<-done
	}
	vReach("C16.two-closers.done")
	frames, _ := vParseWritten(t.out)
	nClose, dataAfter := 0, 0
	for _, f := range frames {
		if nClose > 0 && f.opcode <= 2 {
			dataAfter++
		}
		if f.opcode == 8 {
			nClose++
		}
	}
	vAssert(nClose <= 1, "C16.two-closers.single-close-frame")
	vAssert(dataAfter == 0, "C16.two-closers.no-data-after-close")
	if nClose == 1 {
		vReach("C16.two-closers.close-sent")
	}
	c.CloseNow()
	vObserve("two-closers", localFirst, nClose)
}

// C16.queued-writer: a data writer is queued on the frame lock behind a Close frame that a slow peer is still taking;
// then the peer takes it. Every interleaving at synchronisation operations (preemption bound) of the closer's way out of
// writeFrame with the writer's way in: nothing but control frames follows the Close frame on the wire.
func verifC16_queued_writer() {
	client := vParam("client", 1) == 1
	vInstallRand()
	t := vNewTransport(nil)
	t.endMode = vEndBlock
	t.holdAt = 1
	c := vNewConn(t, client, nil, 16, 64)
	how := vChoose("closedBy", 2)
	vClassify("close", []string{"local-Close", "error-close-from-the-reader"}[how])
	cdone := make(chan struct{})
	if how == 0 {
		go func() {
			c.Close(StatusNormalClosure, "")
			close(cdone)
		}()
	} else {
		bad := vFrame{fin: true, opcode: 3, masked: !client}
		if bad.masked {
			copy(bad.key[:], vBytes("key", 4))
		}
		t.vFeed(vEncodeFrame(bad))
		go func() {
			c.Read(vBG)
			close(cdone)
		}()
	}
	vGhostSettle() // the Close frame's transport write is held
	wdone := make(chan error, 1)
	go func() {
		ctx, cancel := context.WithTimeout(vBG, 3*time.Second)
		defer cancel()
		wdone <- c.Write(ctx, MessageText, vBytes("x", 1))
	}()
	vGhostSettle() // the writer is queued on the frame lock
	vGhostExplore(vParam("preempt", 1))
	close(t.release)
	<-wdone
	vGhostExploreOff()
	<-cdone
	vReach("C16.queued.done")
	frames, ok := vParseWritten(t.out)
	vAssert(ok, "C16.queued.wellformed")
	seenClose := false
	good := true
	for _, f := range frames {
		if seenClose && (f.opcode < 8 || f.opcode == 8) {
			good = false
		}
		if f.opcode == 8 {
			seenClose = true
		}
	}
	vAssert(seenClose, "C16.queued.close-frame-sent")
	vAssert(good, "C16.seq.nothing-after-close")
	c.CloseNow()
	vObserve("c16queued", how, len(frames))
}

// C16.write-vs-close: one Write racing one Close from the start (the peer's echo arrives a second after the Close frame), every interleaving
// at synchronisation operations within the preemption bound: whatever each call returns, no data frame follows the Close
// frame on the wire.
func verifC16_write_vs_close() {
	client := vParam("client", 1) == 1
	vInstallRand()
	echo := vFrame{fin: true, opcode: 8, masked: !client, payload: []byte{0x03, 0xe8}}
	if echo.masked {
		copy(echo.key[:], vBytes("key", 4))
	}
	t := vNewTransport(vEncodeFrame(echo))
	t.endMode = vEndBlock
	// the peer's echo comes a second after our Close frame (late enough for a writer to get in between)
	gate := t.vTimedGate(0)
	wrote := t.vNotifyAt(1)
	go func() {
		select {
		case <-wrote:
		case <-t.closed:
			return
		}
		time.Sleep(time.Second)
		t.vOpenGate(gate)
	}()
	c := vNewConn(t, client, nil, 16, 64)
	wdone := make(chan struct{})
	if vParam("atomics", 1) == 1 {
		vGhostExploreAtomics(vParam("preempt", 2))
	} else {
		vGhostExplore(vParam("preempt", 1))
	}
	go func() {
		ctx, cancel := context.WithTimeout(vBG, 3*time.Second)
		c.Write(ctx, MessageText, vBytes("x", 1))
		cancel()
		close(wdone)
	}()
	c.Close(StatusNormalClosure, "")
	<-wdone
	vGhostExploreOff()
	vReach("C16.wvc.done")
	frames, ok := vParseWritten(t.out)
	vAssert(ok, "C16.wvc.wellformed")
	seenClose := false
	good := true
	for _, f := range frames {
		if seenClose && f.opcode <= 8 {
			good = false
		}
		if f.opcode == 8 {
			seenClose = true
		}
	}
	vAssert(good, "C16.seq.nothing-after-close")
	c.CloseNow()
	vObserve("c16wvc", len(frames))
}

// C16.closeread: CloseRead is in force and the peer sends a data message: the library sends its policy-violation Close
// frame (1008). The peer answers with a Close frame of its own (echoing 1008, or 1000, or without status) - early or
// after ours. Exactly one Close frame goes out.
func verifC16_closeread() {
	client := vParam("client", 1) == 1
	vInstallRand()
	mk := func(f vFrame) vFrame {
		f.masked = !client
		if f.masked {
			copy(f.key[:], vBytes("key", 4))
		}
		return f
	}
	t := vNewTransport(nil)
	t.endMode = vEndBlock
	c := vNewConn(t, client, nil, 32, 64)
	ctx := c.CloseRead(vBG)
	vGhostSettle()
	var answer vFrame
	switch vChoose("answer", 3) {
	case 0:
		answer = vFrame{fin: true, opcode: 8, payload: []byte{0x03, 0xf0}}
	case 1:
		answer = vFrame{fin: true, opcode: 8, payload: []byte{0x03, 0xe8}}
	default:
		answer = vFrame{fin: true, opcode: 8}
	}
	early := vChoose("early", 2) == 1
	msg := vEncodeFrame(mk(vFrame{fin: true, opcode: 1, payload: vBytes("m", 1)}))
	if early {
		t.vFeed(append(msg, vEncodeFrame(mk(answer))...))
	} else {
		t.vFeed(msg)
		vGhostSettle()
		t.vFeed(vEncodeFrame(mk(answer)))
	}
	select {
	case <-ctx.Done():
	case <-time.After(30 * time.Second):
		vAssert(false, "C09.closeread.cancelled-at-all")
	}
	vGhostSettle()
	vReach("C16.closeread.done")
	_, nClose, after, ok := vCloseFrames(t.out)
	vAssert(ok, "C16.closeread.wellformed")
	vAssert(nClose == 1, "C16.closeread.exactly-one-close-frame")
	vAssert(after == 0, "C16.closeread.nothing-after-close")
	c.CloseNow()
	vObserve("c16closeread", nClose)
}
