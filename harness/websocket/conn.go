package websocket

// Scripted transport, randomness source and connection construction shared by the conn-level harnesses.

import (
	"bufio"
	"context"
	"crypto/rand"
	"errors"
	"io"
	"time"
)

var vErrForeign = errors.New("verif: transport failure")
var vErrTransportClosed = errors.New("verif: transport closed")

const (
	vEndEOF     = 0
	vEndUnexp   = 1
	vEndForeign = 2
	vEndBlock   = 3 // peer goes silent: reads block until the transport is closed
)

// vTransport is the io.ReadWriteCloser under a Conn: input is a scripted byte sequence delivered in a
// chosen chunking and ended in a chosen way; output is recorded with its Write boundaries.
type vTransport struct {
	in      []byte
	pos     int
	first   int // size of the first read (0: no special first chunk)
	step    int // max bytes per read afterwards (0: unlimited)
	endMode int
	reads   int

	out        []byte
	writes     []int
	writeErrAt int // fail the k-th Write call (1-based; 0: never)
	writeBlock bool

	closed   chan struct{}
	isClosed bool
	// writesAfterClose: bytes somebody tried to write after the transport was closed
	writesAfterClose int
	closes           int

	// probe is evaluated at every Write (before the bytes are recorded); results are kept in probes
	probe  func() int
	probes []int
	// holdWrites > 0: that many Write calls block until release is closed (a peer that stops reading for a while)
	holdWrites int
	holdAt     int // hold the k-th Write call (1-based; 0: none) until release is closed
	release    chan struct{}

	// slowRelease: a Write blocked by writeBlock returns only this long after Close (a kernel that takes its time)
	slowRelease time.Duration
	// slowReadRelease: a Read blocked at the end of the input returns only this long after Close
	slowReadRelease time.Duration
	closeErr        error // returned by Close
	// slowClose: Close takes this long (a TLS close_notify to a peer that has stopped reading, a slow kernel)
	slowClose time.Duration
	// holdSurvivesClose: a held Write is not released by Close: it completes (its bytes are taken) when release is
	// closed, as a kernel write already in flight does
	holdSurvivesClose bool
	// endTogether: the Read that delivers the last input bytes also reports the end (n > 0 together with the error),
	// as io.Reader allows and crypto/tls does on close_notify
	endTogether bool

	// gates: input from offset gatePos[i] on is delivered only once gateWrites[i] Write calls have been seen
	gatePos    []int
	gateWrites []int
	wake       chan struct{}

	// timed gate: input from offset timedPos[i] on is delivered only once timedOpen[i] has been closed (by a peer
	// goroutine of the harness that sleeps a - possibly symbolic - duration first)
	timedPos  []int
	timedOpen []chan struct{}
	// notifyAt > 0: notifyCh is closed when the endpoint has made that many Write calls
	notifyAt int
	notifyCh chan struct{}
}

// vTimedGate makes the bytes from offset pos on available only after the returned channel has been closed.
func (t *vTransport) vTimedGate(pos int) chan struct{} {
	ch := make(chan struct{})
	t.timedPos = append(t.timedPos, pos)
	t.timedOpen = append(t.timedOpen, ch)
	return ch
}

// vOpenGate opens a timed gate and wakes a reader waiting at it.
func (t *vTransport) vOpenGate(ch chan struct{}) {
	close(ch)
	select {
	case t.wake <- struct{}{}:
	default:
	}
}

// vFeed: the peer sends more bytes now (a reaction to what the endpoint wrote).
func (t *vTransport) vFeed(b []byte) {
	t.in = append(t.in, b...)
	select {
	case t.wake <- struct{}{}:
	default:
	}
}

// vNotifyAt returns a channel that is closed once the endpoint has made n Write calls.
func (t *vTransport) vNotifyAt(n int) chan struct{} {
	t.notifyAt = n
	t.notifyCh = make(chan struct{})
	return t.notifyCh
}

// vGate makes the bytes from offset pos on available only after the endpoint has written n times.
func (t *vTransport) vGate(pos, n int) {
	t.gatePos = append(t.gatePos, pos)
	t.gateWrites = append(t.gateWrites, n)
}

func (t *vTransport) gateLimit() int {
	lim := len(t.in)
	for i, p := range t.gatePos {
		if len(t.writes) < t.gateWrites[i] && p < lim {
			lim = p
		}
	}
	for i, p := range t.timedPos {
		if p < lim {
			select {
			case <-t.timedOpen[i]:
			default:
				lim = p
			}
		}
	}
	return lim
}

func vNewTransport(in []byte) *vTransport {
	return &vTransport{in: in, closed: make(chan struct{}), wake: make(chan struct{}, 1), release: make(chan struct{})}
}

func (t *vTransport) Read(p []byte) (int, error) {
	t.reads++
	if t.isClosed {
		return 0, vErrTransportClosed
	}
	for t.pos < len(t.in) && t.pos >= t.gateLimit() {
		select {
		case <-t.wake:
		case <-t.closed:
			return 0, vErrTransportClosed
		}
	}
	if t.pos >= len(t.in) {
		switch t.endMode {
		case vEndEOF:
			return 0, io.EOF
		case vEndUnexp:
			return 0, io.ErrUnexpectedEOF
		case vEndForeign:
			return 0, vErrForeign
		default:
			select {
			case <-t.wake:
				if t.pos < len(t.in) {
					return t.Read(p) // the peer has sent more in the meantime (vFeed)
				}
			case <-t.closed:
			}
			if !t.isClosed {
				return t.Read(p)
			}
			if t.slowReadRelease > 0 {
				time.Sleep(t.slowReadRelease) // a transport whose interrupted Read takes a moment to unwind
			}
			return 0, vErrTransportClosed
		}
	}
	n := t.gateLimit() - t.pos
	if t.reads == 1 && t.first > 0 {
		if t.first < n {
			n = t.first
		}
	} else if t.step > 0 && t.step < n {
		n = t.step
	}
	if n > len(p) {
		n = len(p)
	}
	copy(p, t.in[t.pos:t.pos+n])
	t.pos += n
	if t.endTogether && t.pos == len(t.in) {
		switch t.endMode {
		case vEndEOF:
			return n, io.EOF
		case vEndUnexp:
			return n, io.ErrUnexpectedEOF
		case vEndForeign:
			return n, vErrForeign
		}
	}
	return n, nil
}

func (t *vTransport) Write(p []byte) (int, error) {
	if t.isClosed {
		t.writesAfterClose += len(p)
		return 0, vErrTransportClosed
	}
	if t.writeBlock {
		<-t.closed
		if t.slowRelease > 0 {
			time.Sleep(t.slowRelease)
		}
		return 0, vErrTransportClosed
	}
	if t.probe != nil {
		t.probes = append(t.probes, t.probe())
	}
	if t.holdWrites > 0 || (t.holdAt > 0 && len(t.writes)+1 == t.holdAt) {
		if t.holdWrites > 0 {
			t.holdWrites--
		}
		if t.holdSurvivesClose {
			<-t.release
			t.out = append(t.out, p...)
			t.writes = append(t.writes, len(t.out))
			return len(p), nil
		}
		select {
		case <-t.release:
		case <-t.closed:
			return 0, vErrTransportClosed
		}
	}
	if t.writeErrAt > 0 && len(t.writes)+1 == t.writeErrAt {
		t.writes = append(t.writes, len(t.out))
		return 0, vErrForeign
	}
	t.out = append(t.out, p...)
	t.writes = append(t.writes, len(t.out))
	if t.notifyAt > 0 && len(t.writes) == t.notifyAt {
		close(t.notifyCh)
	}
	select {
	case t.wake <- struct{}{}:
	default:
	}
	return len(p), nil
}

func (t *vTransport) Close() error {
	t.closes++
	if !t.isClosed {
		t.isClosed = true
		close(t.closed)
	}
	if t.slowClose > 0 {
		time.Sleep(t.slowClose)
	}
	return t.closeErr
}

// vRandReader replaces crypto/rand.Reader: every byte is a fresh arbitrary input, and what was handed out is logged.
type vRandReader struct {
	log      []byte
	concrete bool // hand out a fixed, position-dependent byte pattern instead of arbitrary bytes
	variant  int
}

func (r *vRandReader) Read(p []byte) (int, error) {
	if r.concrete {
		for i := range p {
			p[i] = byte(0x5a + 7*(len(r.log)+i) + 31*r.variant)
		}
		r.log = append(r.log, p...)
		return len(p), nil
	}
	b := vBytes("rand", len(p))
	copy(p, b)
	r.log = append(r.log, b...)
	return len(p), nil
}

func vInstallRand() *vRandReader {
	r := &vRandReader{}
	rand.Reader = r
	return r
}

func vCopts(mode int) *compressionOptions {
	switch mode {
	case 1:
		return &compressionOptions{}
	case 2:
		return &compressionOptions{clientNoContextTakeover: true, serverNoContextTakeover: true}
	case 3:
		return &compressionOptions{clientNoContextTakeover: true}
	case 4:
		return &compressionOptions{serverNoContextTakeover: true}
	}
	return nil
}

func vNewConn(t *vTransport, client bool, copts *compressionOptions, brSize, bwSize int) *Conn {
	return newConn(connConfig{
		rwc:    t,
		client: client,
		copts:  copts,
		br:     bufio.NewReaderSize(t, brSize),
		bw:     bufio.NewWriterSize(t, bwSize),
	})
}

// vReadAll reads a message reader to its end with a caller buffer of size bufSize.
func vReadAll(r io.Reader, bufSize int) ([]byte, error) {
	var out []byte
	p := make([]byte, bufSize)
	for i := 0; i < 10000; i++ {
		n, err := r.Read(p)
		out = append(out, p[:n]...)
		if err != nil {
			if err == io.EOF {
				return out, nil
			}
			return out, err
		}
	}
	return out, errors.New("verif: reader did not terminate")
}

var vBG = context.Background()
