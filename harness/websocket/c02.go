package websocket

import (
	"context"
	"net/http"
	"time"
)

// C02.frame: one writeFrame call with symbolic arguments on a fresh Conn of either role: the bytes on the
// transport decode (independent decoder) to exactly one frame carrying those arguments, masked iff client
// with the key crypto/rand produced for this frame.
func verifC02_frame() {
	client := vParam("client", 1) == 1
	rnd := vInstallRand()
	t := vNewTransport(nil)
	t.endMode = vEndBlock
	c := vNewConn(t, client, vCopts(vParam("deflate", 0)), 16, vParam("bw", 16))
	// the header scratch space is shared by all frames of the connection: start from an arbitrary previous frame
	// (representation invariant: masked is only ever set on a client, rsv2/rsv3 are never set)
	c.writeHeader = header{fin: vBool("prevFin"), rsv1: vBool("prevRsv1"), opcode: opcode(vU8("prevOpcode") & 0x0f),
		payloadLength: vI64("prevLen"), masked: client, maskKey: vU32("prevKey")}
	fin := vBool("fin")
	flate := vBool("flate")
	op := opcode(vU8("opcode") & 0x0f)
	n := vChoose("n", vParam("maxN", 12)+1)
	p := vBytes("p", n)
	pcopy := append([]byte{}, p...)
	// the caller's buffer is never modified: not when the call has returned, not while it is in flight (observed from
	// the transport at every Write: the same slice may be being written on another connection), not when the transport
	// fails in the middle of the frame
	t.probe = func() int {
		vAssert(vEqBytes(p, pcopy), "C01.caller-buffer.intact-while-writing")
		return 0
	}
	failAt := vChoose("failAt", 1+vParam("fail", 0))
	t.writeErrAt = failAt
	k, err := c.writeFrame(vBG, fin, flate, op, p)
	vReach("C02.frame.written")
	vAssert(vEqBytes(p, pcopy), "C02.frame.caller-buffer")
	if failAt != 0 {
		if err != nil {
			vReach("C02.frame.transport-failed")
		}
		c.CloseNow()
		return
	}
	vAssert(vAnd(err == nil, k == n), "C02.frame.result")
	if !fin {
		// a non-final frame may stay in the write buffer; push it out to look at it
		c.bw.Flush()
	} else {
		vAssert(c.bw.Buffered() == 0, "C02.frame.flushed")
	}
	frames, ok := vParseWritten(t.out)
	vAssert(vAnd(ok, len(frames) == 1), "C02.frame.one-frame")
	if ok && len(frames) == 1 {
		f := frames[0]
		isData := vOr(op == opText, op == opBinary)
		vAssert(vAnd(f.fin == fin, f.opcode == uint8(op)), "C02.frame.fin-opcode")
		vAssert(vAnd(f.rsv1 == vAnd(flate, isData), vNot(vOr(f.rsv2, f.rsv3))), "C02.frame.rsv")
		vAssert(f.masked == client, "C02.frame.masked")
		vAssert(vEqBytes(f.payload, pcopy), "C02.frame.payload")
		if client {
			vAssert(vAnd(len(rnd.log) == 4, vEqBytes(f.key[:], rnd.log)), "C02.frame.fresh-key")
			if n > vParam("bw", 16)-6 {
				vReach("C02.frame.flush-inside-payload")
			}
		} else {
			vAssert(len(rnd.log) == 0, "C02.frame.no-key")
		}
	}
	// minimal length encoding: re-encode the header with the reference encoder and compare the raw bytes
	if ok && len(frames) == 1 {
		vAssert(vEqBytes(t.out, vEncodeFrame(frames[0])), "C02.frame.minimal-encoding")
	}
	c.CloseNow()
	vObserve("frame", t.out, k)
}

type vSent struct {
	typ     MessageType
	payload []byte
}

// vWriteProgram runs a symbolic program of message writes on c and returns what was sent.
// Each message is either one Write(p) or Writer + up to 3 chunked Writes + Close.
func vWriteProgram(c *Conn, nMsgs, maxLen int) []vSent {
	var sent []vSent
	for i := 0; i < nMsgs; i++ {
		typ := MessageType(1 + vChoose("typ", 2))
		n := vChoose("mlen", maxLen+1)
		p := vBytes("msg", n)
		pcopy := append([]byte{}, p...)
		if vChoose("api", 2) == 0 {
			err := c.Write(vBG, typ, p)
			vAssert(err == nil, "write.noerr")
		} else {
			w, err := c.Writer(vBG, typ)
			vAssert(err == nil, "writer.noerr")
			c1 := vChoose("split1", n+1)
			c2 := c1 + vChoose("split2", n-c1+1)
			for _, part := range [][]byte{p[:c1], p[c1:c2], p[c2:]} {
				k, err := w.Write(part)
				vAssert(vAnd(err == nil, k == len(part)), "writer.write-result")
			}
			vAssert(w.Close() == nil, "writer.close-noerr")
			vReach("write.streamed")
		}
		vAssert(vEqBytes(p, pcopy), "write.caller-buffer")
		sent = append(sent, vSent{typ, pcopy})
	}
	return sent
}

// vCheckDataFrames: the written stream is a sentence of the RFC grammar and reassembles to exactly the messages sent.
func vCheckDataFrames(out []byte, sent []vSent, client bool, deflateNegotiated bool, id string) {
	frames, ok := vParseWritten(out)
	vAssert(ok, id+".wellformed")
	var cur []byte
	inMsg := false
	var typ MessageType
	mi := 0
	good := true
	for _, f := range frames {
		good = vAnd(good, vAnd(f.masked == client, vNot(vOr(f.rsv2, f.rsv3))))
		switch {
		case f.opcode >= 8:
			good = vAnd(good, vAnd(f.fin, vAnd(len(f.payload) <= 125, vNot(f.rsv1))))
		case f.opcode == 0:
			good = vAnd(good, vAnd(inMsg, vNot(f.rsv1)))
			cur = append(cur, f.payload...)
		case f.opcode == 1 || f.opcode == 2:
			good = vAnd(good, vNot(inMsg))
			if !deflateNegotiated {
				good = vAnd(good, vNot(f.rsv1))
			}
			inMsg = true
			typ = MessageType(f.opcode)
			cur = append([]byte{}, f.payload...)
		default:
			good = false
		}
		if f.opcode < 8 && f.fin {
			if mi < len(sent) {
				good = vAnd(good, vAnd(typ == sent[mi].typ, vEqBytes(cur, sent[mi].payload)))
			} else {
				good = false
			}
			mi++
			inMsg = false
		}
	}
	vAssert(good, id+".grammar-and-content")
	vAssert(vAnd(mi == len(sent), !inMsg), id+".message-count")
}

// C01.e2e / C02.seq (uncompressed): a symbolic write program on a sender of either role; the wire is checked by the
// independent decoder and then fed, in a chosen chunking, to a real receiver of the opposite role.
func verifC01_e2e() {
	client := vParam("client", 1) == 1
	vInstallRand()
	ts := vNewTransport(nil)
	ts.endMode = vEndBlock
	snd := vNewConn(ts, client, nil, 16, vParam("bw", 16))
	sent := vWriteProgram(snd, vParam("msgs", 2), vParam("maxLen", 6))
	vReach("C01.e2e.sent")
	vCheckDataFrames(ts.out, sent, client, false, "C02.seq")
	tr := vNewTransport(ts.out)
	tr.first = vChoose("first", 3)
	tr.step = vChoose("step", 2)
	rcv := vNewConn(tr, !client, nil, 16, 64)
	g := vReadLoop(rcv, 1+vChoose("buf", 2)*4, len(sent)+1)
	ok := len(g.msgs) == len(sent)
	if ok {
		for i := range sent {
			ok = vAnd(ok, vAnd(g.types[i] == sent[i].typ, vEqBytes(g.msgs[i], sent[i].payload)))
		}
	}
	vAssert(ok, "C01.e2e.roundtrip")
	vReach("C01.e2e.received")
	snd.CloseNow()
	rcv.CloseNow()
	vObserve("e2e", ts.out, len(g.msgs))
}

// vBlock is 150 bytes without internal repetition: compress/flate's BestSpeed only searches for matches (also into
// the previous message, when it keeps its window) in blocks of at least 128 bytes.
const vBlock = "qxjvkzwphbmfgydlcutaroiesnQXJVKZWPHBMFGYDLCUTAROIESN0918273645" +
	"lkjhgfdsapoiuytrewqmnbvcxz5647382910ZMXNCBVLAKSJDHFGQPWOEIRUTY-_=+[]{};:,.<>/?" + "!@#$%^&*()"

var vCorpus = []string{
	vBlock,
	"prefix:" + vBlock + ":suffix",
	"abcdabcdabcdabcd-0123456789-abcdabcd",
	vBlock[40:] + vBlock[:40],
}

// C01.flate-e2e / C02 (compressed): a program of messages above the compression threshold (concrete contents with
// repetitions within and across messages, so that the real compressor emits back-references into earlier messages when
// it keeps its window) is written by a sender of either role under every negotiated takeover combination, checked on the
// wire (RSV1 on first frames only) and read back by a real receiver of the opposite role configured with the same
// negotiated options: every message must arrive byte-identical.
func verifC01_flate_e2e() {
	client := vParam("client", 1) == 1
	mode := vParam("deflate", 1)
	vInstallRand()
	sndOpts, rcvOpts := vCopts(mode), vCopts(mode)
	if vParam("negotiate", 0) == 1 {
		// the options of the two ends come out of the library's own handshake code for a pair of CompressionModes
		copts, sopts := vNegotiate(CompressionMode(vParam("cm", 1)), CompressionMode(vParam("sm", 2)))
		sndOpts, rcvOpts = sopts, copts
		if client {
			sndOpts, rcvOpts = copts, sopts
		}
		vReach("C01.flate.negotiated")
	}
	ts := vNewTransport(nil)
	ts.endMode = vEndBlock
	snd := vNewConn(ts, client, sndOpts, 16, 64)
	snd.flateThreshold = vParam("threshold", 8)
	nMsgs := vParam("msgs", 3)
	var sent []vSent
	for i := 0; i < nMsgs; i++ {
		nDocs, nShort, nCuts := len(vCorpus), 3, 4
		if vParam("lean", 0) == 1 {
			nDocs, nShort, nCuts = 2, 2, 2
		}
		doc := []byte(vCorpus[vChoose("doc", nDocs)])
		if vChoose("short", nShort) == 0 {
			doc = doc[:4] // below the threshold: goes out uncompressed between compressed messages
		}
		typ := MessageType(1 + i%2)
		api := vParam("api", -1) // -1: both ways of writing; 0: Write only (keeps three-message runs small)
		if api < 0 {
			api = vChoose("api", 2)
		}
		if api == 0 {
			vAssert(snd.Write(vBG, typ, doc) == nil, "C01.flate.write-noerr")
		} else {
			w, err := snd.Writer(vBG, typ)
			vAssert(err == nil, "C01.flate.writer-noerr")
			// first chunk: everything, half, a few bytes (below the threshold: the decision must not be revisited), nothing
			cut := []int{len(doc), len(doc) / 2, 3, 0}[vChoose("cutAt", nCuts)]
			if cut > len(doc) {
				cut = len(doc)
			}
			w.Write(doc[:cut])
			w.Write(doc[cut:])
			vAssert(w.Close() == nil, "C01.flate.close-noerr")
		}
		sent = append(sent, vSent{typ, append([]byte{}, doc...)})
	}
	vReach("C01.flate.sent")
	// wire shape: RSV1 only on first frames, control-free, fragments in order
	frames, ok := vParseWritten(ts.out)
	vAssert(ok, "C02.flate.wellformed")
	good := true
	inMsg := false
	compressedSeen := false
	for _, f := range frames {
		if f.opcode == 0 {
			good = good && inMsg && !f.rsv1
		} else {
			good = good && !inMsg && (f.opcode == 1 || f.opcode == 2)
			if f.rsv1 {
				compressedSeen = true
			}
		}
		good = good && !f.rsv2 && !f.rsv3 && f.masked == client
		inMsg = !f.fin
	}
	vAssert(good, "C02.flate.rsv1-first-frame-only")
	if compressedSeen {
		vReach("C01.flate.compressed")
	}
	tr := vNewTransport(ts.out)
	tr.step = vParam("step", 0)
	rcv := vNewConn(tr, !client, rcvOpts, 64, 64)
	g := vReadLoop(rcv, vParam("buf", 7), len(sent)+1)
	okm := len(g.msgs) == len(sent)
	if okm {
		for i := range sent {
			okm = okm && g.types[i] == sent[i].typ && string(g.msgs[i]) == string(sent[i].payload)
		}
	}
	vAssert(okm, "C01.flate.roundtrip")
	vReach("C01.flate.received")
	snd.CloseNow()
	rcv.CloseNow()
	vObserve("flate-e2e", len(g.msgs), len(ts.out))
}

// vNegotiate runs the library's handshake code for permessage-deflate between a client dialing with mode cm and a server
// accepting with mode sm (offer rendering, offer parsing and selection, response rendering, response verification) and
// returns the options each end will build its connection with (nil: no compression).
func vNegotiate(cm, sm CompressionMode) (copts, sopts *compressionOptions) {
	var offer *compressionOptions
	req := http.Header{}
	if cm != CompressionDisabled {
		offer = cm.opts()
		req.Set("Sec-WebSocket-Extensions", offer.String())
	}
	sopts, ok := selectDeflate(websocketExtensions(req), sm)
	resp := http.Header{}
	if ok {
		resp.Set("Sec-WebSocket-Extensions", sopts.String())
	} else {
		sopts = nil
	}
	copts, err := verifyServerExtensions(offer, resp)
	vAssert(err == nil, "C01.flate.handshake-succeeds")
	return copts, sopts
}

// C02.stale-writer: programs in which the io.WriteCloser of a finished message is used again (Write or Close on it) while
// later messages are written - by Write, or through a new Writer that is still open. Whatever those calls return, the
// wire stays a sentence of the frame grammar and decodes to exactly the messages that were written through live writers:
// a closed writer stays closed.
func verifC02_stale_writer() {
	client := vParam("client", 1) == 1
	vInstallRand()
	t := vNewTransport(nil)
	t.endMode = vEndBlock
	c := vNewConn(t, client, vCopts(vParam("deflate", 0)), 16, 64)
	a, b, b2, d := vBytes("a", 1), vBytes("b", 1), vBytes("b", 1), vBytes("d", 1)
	var want []vSent
	w1, err := c.Writer(vBG, MessageText)
	vAssert(err == nil, "C02.stale.writer-ok")
	if err != nil {
		return
	}
	w1.Write(a)
	vAssert(w1.Close() == nil, "C02.stale.first-close-ok")
	want = append(want, vSent{MessageText, a})
	between := vChoose("between", 4)
	vClassify("between", []string{"nothing", "a-plain-Write", "a-new-Writer-left-open", "a-Writer-left-open-on-another-connection"}[between])
	var tB *vTransport
	var cB *Conn
	var w2 interface {
		Write([]byte) (int, error)
		Close() error
	}
	switch between {
	case 1:
		vAssert(c.Write(vBG, MessageBinary, b) == nil, "C02.stale.write-ok")
		want = append(want, vSent{MessageBinary, b})
	case 2:
		w2, err = c.Writer(vBG, MessageBinary)
		vAssert(err == nil, "C02.stale.second-writer-ok")
		if err != nil {
			return
		}
		w2.Write(b)
	case 3:
		// whatever the library shares between connections (pools), a finished message's writer belongs to ITS connection
		tB = vNewTransport(nil)
		tB.endMode = vEndBlock
		cB = vNewConn(tB, client, vCopts(vParam("deflate", 0)), 16, 64)
		w2, err = cB.Writer(vBG, MessageBinary)
		vAssert(err == nil, "C02.stale.second-writer-ok")
		if err != nil {
			return
		}
		w2.Write(b)
	}
	stale := vChoose("staleOp", 3)
	vClassify("stale", []string{"Write", "Close", "Write-then-Close"}[stale])
	// (bounded contexts are not needed: the stale calls use the context of the message they belonged to)
	var e1, e2 error
	if stale == 0 || stale == 2 {
		_, e1 = w1.Write(vBytes("s", 1))
	}
	if stale == 1 || stale == 2 {
		e2 = w1.Close()
	}
	vReach("C02.stale.used")
	if w2 != nil && cB == nil {
		// a third party tries to send while the second message is open: it has to wait (here: until its context ends);
		// if it reports success its frame must still not sit inside the open message (judged on the wire below)
		ictx, icancel := context.WithTimeout(vBG, time.Second)
		ierr := c.Write(ictx, MessageText, vBytes("i", 1))
		icancel()
		if ierr == nil {
			vClassify("intruder", "reported-success")
		}
	}
	if w2 != nil {
		w2.Write(b2)
		vAssert(w2.Close() == nil, "C02.stale.live-writer-closes")
		if cB == nil {
			want = append(want, vSent{MessageBinary, append(append([]byte{}, b...), b2...)})
		} else {
			// the other connection carries exactly its own message
			fB, okB := vParseWritten(tB.out)
			goodB, inB, nB := vWireSequenceOK(fB, client)
			vAssert(okB && goodB && !inB && nB == 1, "C02.stale.other-connection-carries-only-its-own-message")
			var pl []byte
			for _, f := range fB {
				if f.opcode < 8 {
					pl = append(pl, f.payload...)
				}
			}
			if vParam("deflate", 0) == 0 {
				vAssert(vEqBytes(pl, append(append([]byte{}, b...), b2...)), "C02.stale.other-connection-carries-only-its-own-message")
			}
			vAssert(e1 != nil || stale == 1, "C02.stale.write-on-a-finished-writer-fails")
			cB.CloseNow()
		}
	}
	vAssert(c.Write(vBG, MessageText, d) == nil, "C02.stale.later-write-ok")
	want = append(want, vSent{MessageText, d})
	_, _ = e1, e2
	// the wire, decoded independently
	frames, ok := vParseWritten(t.out)
	vAssert(ok, "C02.stale.wellformed")
	var got []vSent
	var cur []byte
	var curTyp MessageType
	inMsg := false
	good := true
	for _, f := range frames {
		if f.opcode >= 8 {
			continue
		}
		if f.opcode == 0 {
			good = good && inMsg
		} else {
			good = good && !inMsg
			curTyp = MessageType(f.opcode)
			cur = nil
		}
		if f.rsv1 {
			// (compressed payloads are not compared byte for byte here)
			cur = nil
		}
		cur = append(cur, f.payload...)
		inMsg = !f.fin
		if f.fin {
			got = append(got, vSent{curTyp, cur})
		}
	}
	vAssert(good && !inMsg, "C02.stale.grammar")
	same := len(got) == len(want)
	if same {
		for i := range got {
			same = vAnd(same, vAnd(got[i].typ == want[i].typ, vEqBytes(got[i].payload, want[i].payload)))
		}
	}
	if vParam("deflate", 0) == 0 {
		vAssert(same, "C02.stale.exactly-the-messages-written")
	} else {
		vAssert(len(got) == len(want), "C02.stale.exactly-the-messages-written")
	}
	c.CloseNow()
	vObserve("stale", between, stale, len(got))
}

// C02.msgtype: Write / Writer with ANY value of the MessageType parameter (it is an int): what reaches the wire is a data
// message of type text or binary, or nothing and an error - never a control or reserved opcode chosen by the argument.
func verifC02_msgtype() {
	client := vParam("client", 1) == 1
	vInstallRand()
	t := vNewTransport(nil)
	t.endMode = vEndBlock
	c := vNewConn(t, client, nil, 16, 64)
	typ := MessageType(vInt("typ", -1, 16))
	p := vBytes("p", 2)
	var err error
	if vChoose("api", 2) == 0 {
		err = c.Write(vBG, typ, p)
	} else {
		var w interface {
			Write([]byte) (int, error)
			Close() error
		}
		w, err = c.Writer(vBG, typ)
		if err == nil {
			w.Write(p)
			err = w.Close()
		}
	}
	vReach("C02.msgtype.called")
	frames, ok := vParseWritten(t.out)
	vAssert(ok, "C02.msgtype.wellformed")
	valid := vOr(typ == MessageText, typ == MessageBinary)
	for i, f := range frames {
		if i == 0 {
			vAssert(vOr(f.opcode == 1, f.opcode == 2), "C02.msgtype.first-frame-is-text-or-binary")
			vAssert(f.opcode == uint8(typ), "C02.msgtype.type-as-asked")
		} else {
			vAssert(f.opcode == 0, "C02.msgtype.then-continuations")
		}
	}
	if len(frames) == 0 {
		vAssert(vAnd(err != nil, vNot(valid)), "C02.msgtype.nothing-sent-only-for-an-invalid-type")
	} else {
		vAssert(valid, "C02.msgtype.frames-only-for-a-valid-type")
	}
	c.CloseNow()
	vObserve("msgtype", int(typ), len(frames))
}

// C01.many-chunks: one message streamed in a great many Writer.Write calls (every call puts a frame on the wire): the
// receiver reassembles exactly the message, however many frames it takes.
func verifC01_many_chunks() {
	client := vParam("client", 1) == 1
	vInstallRand().concrete = true
	n := vParam("chunks", 1100)
	ts := vNewTransport(nil)
	ts.endMode = vEndBlock
	snd := vNewConn(ts, client, nil, 16, 4096)
	w, err := snd.Writer(vBG, MessageBinary)
	vAssert(err == nil, "C01.chunks.writer-ok")
	if err != nil {
		return
	}
	sym := vBytes("b", 3) // a few arbitrary bytes at the start, in the middle and at the end; the rest is a counter
	want := make([]byte, n)
	for i := 0; i < n; i++ {
		want[i] = byte(i)
	}
	want[0], want[n/2], want[n-1] = sym[0], sym[1], sym[2]
	for i := 0; i < n; i++ {
		k, err := w.Write(want[i : i+1])
		if err != nil || k != 1 {
			vAssert(false, "C01.chunks.write-ok")
			return
		}
	}
	vAssert(w.Close() == nil, "C01.chunks.close-ok")
	vReach("C01.chunks.sent")
	tr := vNewTransport(ts.out)
	tr.endMode = vEndEOF
	rcv := vNewConn(tr, !client, nil, 4096, 64)
	rcv.SetReadLimit(-1)
	typ, got, rerr := rcv.Read(vBG)
	vAssert(vAnd(rerr == nil, typ == MessageBinary), "C01.chunks.received")
	vAssert(vEqBytes(got, want), "C01.chunks.roundtrip")
	snd.CloseNow()
	rcv.CloseNow()
	vObserve("chunks", n, len(got))
}
