package websocket

import "bufio"

func vSymHeader() header {
	h := header{
		fin:           vBool("fin"),
		rsv1:          vBool("rsv1"),
		rsv2:          vBool("rsv2"),
		rsv3:          vBool("rsv3"),
		opcode:        opcode(vU8("opcode") & 0x0f),
		payloadLength: vI64("len"),
		masked:        vBool("masked"),
		maskKey:       vU32("key"),
	}
	return h
}

func vRefOf(h header) vRefHeader {
	return vRefHeader{fin: h.fin, rsv1: h.rsv1, rsv2: h.rsv2, rsv3: h.rsv3, opcode: uint8(h.opcode), masked: h.masked,
		length: uint64(h.payloadLength),
		key:    [4]byte{byte(h.maskKey), byte(h.maskKey >> 8), byte(h.maskKey >> 16), byte(h.maskKey >> 24)}}
}

// C01.hdr-rt + C02.hdr-enc: for every header, writeFrameHeader emits exactly the RFC encoding (minimal length class)
// and readFrameHeader reads the same header back, consuming exactly the bytes written.
func verifC01_hdr_rt() {
	h := vSymHeader()
	vAssume(h.payloadLength >= 0)
	vAssume(vOr(h.masked, h.maskKey == 0))
	wire := &vBuf{}
	bw := bufio.NewWriterSize(wire, 32)
	err := writeFrameHeader(h, bw, make([]byte, 8))
	vAssert(err == nil, "C02.hdr-enc.noerr")
	vAssert(bw.Flush() == nil, "C02.hdr-enc.noerr")
	ref := vRefEncodeHeader(vRefOf(h))
	vReach("C01.hdr-rt.encoded")
	vAssert(vEqBytes(wire.b, ref), "C02.hdr-enc.bytes")
	switch {
	case h.payloadLength > 65535:
		vReach("C01.hdr-rt.len64")
	case h.payloadLength > 125:
		vReach("C01.hdr-rt.len16")
	default:
		vReach("C01.hdr-rt.len7")
	}
	// trailing byte that must not be consumed
	in := append(append([]byte{}, wire.b...), 0xAA)
	br := bufio.NewReaderSize(&vSliceReader{b: in, first: vChoose("first", 3), step: vChoose("step", 2)}, 16)
	h2, err := readFrameHeader(br, make([]byte, 8))
	vAssert(err == nil, "C01.hdr-rt.noerr")
	vAssert(h2 == h, "C01.hdr-rt.equal")
	nb, err := br.ReadByte()
	vAssert(vAnd(err == nil, nb == 0xAA), "C01.hdr-rt.consumed")
	vObserve("hdr", wire.b, h2.payloadLength, h2.maskKey)
}

// C03.hdr-dec: readFrameHeader on arbitrary bytes, in any chunking, agrees with the reference decoder.
func verifC03_hdr_dec() {
	maxN := vParam("maxN", 14)
	N := vChoose("N", maxN+1)
	in := vBytes("wire", N)
	sr := &vSliceReader{b: in, first: vChoose("first", N+1), step: vChoose("step", 2)}
	br := bufio.NewReaderSize(sr, 16)
	h, err := readFrameHeader(br, make([]byte, 8))
	rh, size, st := vRefDecodeHeader(in)
	vReach("C03.hdr-dec.decoded")
	if st != vRefOK {
		vAssert(err != nil, "C03.hdr-dec.reject")
		if st == vRefBadLength {
			vReach("C03.hdr-dec.badlen")
		}
		vObserve("hdr-dec-err", in, st)
		return
	}
	vReach("C03.hdr-dec.ok")
	vAssert(err == nil, "C03.hdr-dec.accept")
	eq := vAnd(h.fin == rh.fin, vAnd(h.rsv1 == rh.rsv1, vAnd(h.rsv2 == rh.rsv2, h.rsv3 == rh.rsv3)))
	eq = vAnd(eq, vAnd(uint8(h.opcode) == rh.opcode, vAnd(h.masked == rh.masked, uint64(h.payloadLength) == rh.length)))
	eq = vAnd(eq, vOr(vNot(rh.masked), h.maskKey == vRefKeyWord(rh.key)))
	vAssert(eq, "C03.hdr-dec.fields")
	// consumed exactly size bytes: the rest is still readable in order
	rest := make([]byte, N-size)
	n := 0
	for n < len(rest) {
		k, err := br.Read(rest[n:])
		n += k
		if err != nil {
			break
		}
	}
	vAssert(vAnd(n == N-size, vEqBytes(rest, in[size:])), "C03.hdr-dec.consumed")
	vObserve("hdr-dec", in, h.payloadLength, h.maskKey, size)
}
