package websocket

// Harness vocabulary. In the symbolic engine every function in this block is intercepted
// (its body is never executed); the bodies below give the functions their meaning in a
// native replay, where inputs come from the recorded solver model.

import (
	"crypto/sha1"
	"encoding/base64"
	"fmt"
	"net/url"
	"path/filepath"
	"runtime"
	"runtime/debug"
	"strings"
	"time"
	"unsafe"
)

var (
	vReplayVals  = map[string][]uint64{}
	vReplayPos   = map[string]int{}
	vFailures    []string
	vReachedIDs  = map[string]bool{}
	vObserved    []string
	vClasses     = map[string]string{}
	vStart       = time.Now()
	vReplayShort bool // set when a replay ran out of recorded values (diverged from the engine's path)
)

type vAssumeViolated struct{}

func vReset(vals map[string][]uint64) {
	vReplayVals = vals
	vReplayPos = map[string]int{}
	vFailures = nil
	vReachedIDs = map[string]bool{}
	vObserved = nil
	vClasses = map[string]string{}
	vStart = time.Now()
	vReplayShort = false
}

func vNext(tag string) uint64 {
	i := vReplayPos[tag]
	vReplayPos[tag] = i + 1
	vs := vReplayVals[tag]
	if i < len(vs) {
		return vs[i]
	}
	vReplayShort = true
	return 0
}

var vReplayStrs = map[string][]string{}
var vReplayStrPos = map[string]int{}

func vResetStrs(strs map[string][]string) {
	vReplayStrs = strs
	vReplayStrPos = map[string]int{}
}

// vString is an arbitrary (ASCII) string of any length: an SMT string variable in the engine.
func vString(tag string) string {
	i := vReplayStrPos[tag]
	vReplayStrPos[tag] = i + 1
	if vs := vReplayStrs[tag]; i < len(vs) {
		return vs[i]
	}
	vReplayShort = true
	return ""
}

// vUFStr / vUFBool apply, on the reference side, the function that the engine leaves uninterpreted for a stubbed
// standard-library function; natively they are the real functions.
func vUFStr(name string, s string) string {
	switch name {
	case "sha1":
		h := sha1.Sum([]byte(s))
		return string(h[:])
	case "b64":
		return base64.StdEncoding.EncodeToString([]byte(s))
	case "urlHost":
		u, err := url.Parse(s)
		if err != nil {
			return ""
		}
		return u.Host
	}
	panic("vUFStr: unknown function " + name)
}

func vUFBool(name string, args ...string) bool {
	switch name {
	case "urlParseFails":
		_, err := url.Parse(args[0])
		return err != nil
	case "match":
		ok, _ := filepath.Match(args[0], args[1])
		return ok
	case "matchBadPattern":
		_, err := filepath.Match(args[0], "")
		return err != nil
	case "b64Decodes":
		_, err := base64.StdEncoding.DecodeString(args[0])
		return err == nil
	case "b64Is16Bytes":
		v, err := base64.StdEncoding.DecodeString(args[0])
		return err == nil && len(v) == 16
	}
	panic("vUFBool: unknown function " + name)
}

func vBool(tag string) bool  { return vNext(tag)&1 != 0 }
func vU8(tag string) uint8   { return uint8(vNext(tag)) }
func vU16(tag string) uint16 { return uint16(vNext(tag)) }
func vU32(tag string) uint32 { return uint32(vNext(tag)) }
func vU64(tag string) uint64 { return vNext(tag) }
func vI64(tag string) int64  { return int64(vNext(tag)) }

func vInt(tag string, lo, hi int) int {
	v := int(int64(vNext(tag)))
	if v < lo || v > hi {
		panic(vAssumeViolated{})
	}
	return v
}

func vBytes(tag string, n int) []byte {
	b := make([]byte, n)
	for i := range b {
		b[i] = uint8(vNext(tag))
	}
	return b
}

// vChoose forks over 0..n-1 without involving the solver (the choice is still recorded as an input).
func vChoose(tag string, n int) int { return int(vNext(tag)) }

// vParam is a bound chosen on the command line of the check (concrete in both worlds).
var vParams = map[string]int{}

func vParam(name string, def int) int {
	if v, ok := vParams[name]; ok {
		return v
	}
	return def
}

func vAssume(c bool) {
	if !c {
		panic(vAssumeViolated{})
	}
}

func vAssert(c bool, id string) {
	if !c {
		vFailures = append(vFailures, id)
	}
}

func vReach(id string) { vReachedIDs[id] = true }

// vAssertGhost states an obligation over engine-side ghost state (pool monitor); natively there is nothing to observe.
func vAssertGhost(c bool, id string) {}
func vClassify(k, v string)          { vClasses[k] = v }
func vAnd(a, b bool) bool            { return a && b }
func vOr(a, b bool) bool             { return a || b }
func vNot(a bool) bool               { return !a }
func vImplies(a, b bool) bool        { return !a || b }
func vConcrete(x int) int            { return x }
func vEngine() bool                  { return false }
func vEqStr(a, b string) bool        { return a == b }
func vGhostSettle()                  { time.Sleep(20 * time.Millisecond) }
func vGhostPoolMode(mode int)        {}

// vGhostPoolDeterministic (native replay): one P and no garbage collection from here on, so that sync.Pool hands the
// object that was just put to the next Get, whichever goroutine asks - what the engine's pool model (mode 0) explores.
func vGhostPoolDeterministic() {
	debug.SetGCPercent(-1)
	runtime.GOMAXPROCS(1)
}
func vGhostExplore(preempt int) {}
func vGhostExploreOff()         {}

// vGhostExploreAtomics(preempt): exploration mode with scheduling points only before and after sync/atomic operations
// (and where goroutines block): the windows of check-then-act code around an atomic flag, at a fraction of the schedules.
func vGhostExploreAtomics(preempt int) {}

// vGhostTimeSlip(ns): in exploration mode a timer that is due within ns may fire at any scheduling point.
func vGhostTimeSlip(ns int64) {}

// vGhostFmtDigits(true): the engine forks on the digit count of symbolic integers rendered by fmt (exact text lengths).
func vGhostFmtDigits(on bool) {}

func vGhostAllocReset()  { runtime.ReadMemStats(&vMemBefore) }
func vGhostTrackAllocs() {}

// vGhostAllocGuard: from now on a library allocation whose size is chosen by symbolic input and can exceed bound is
// reported at once as a violation of obligation id (natively the obligation is checked through runtime.MemStats).
func vGhostAllocGuard(id string, bound int) {}
func vGhostAsmOOB() int                     { return 0 }
func vGhostPoolViolations() int             { return 0 }
func vGhostAllocMax() int {
	var ms runtime.MemStats
	runtime.ReadMemStats(&ms)
	return int(ms.TotalAlloc - vMemBefore.TotalAlloc)
}

var vMemBefore runtime.MemStats

func vIteU8(c bool, a, b uint8) uint8 {
	if c {
		return a
	}
	return b
}

func vIteInt(c bool, a, b int) int {
	if c {
		return a
	}
	return b
}

func vIteU32(c bool, a, b uint32) uint32 {
	if c {
		return a
	}
	return b
}

func vIteI64(c bool, a, b int64) int64 {
	if c {
		return a
	}
	return b
}

func vIteBool(c bool, a, b bool) bool {
	if c {
		return a
	}
	return b
}

func vEqBytes(a, b []byte) bool {
	if len(a) != len(b) {
		return false
	}
	for i := range a {
		if a[i] != b[i] {
			return false
		}
	}
	return true
}

func vGhostElapsed() time.Duration { return time.Since(vStart) }

// vSlack is added to time bounds: nothing on the ghost clock, scheduling slack on a (possibly loaded) real machine.
func vSlack() time.Duration { return 1500 * time.Millisecond }

// vGhostGoroutines counts the goroutines the library started that are still alive (engine: its goroutine table;
// natively: goroutine stacks containing the library's background functions).
func vGhostGoroutines() int {
	time.Sleep(30 * time.Millisecond)
	buf := make([]byte, 1<<20)
	buf = buf[:runtime.Stack(buf, true)]
	n := 0
	for _, g := range strings.Split(string(buf), "\n\n") {
		if vCreatedByLibrary(g) {
			n++
		}
	}
	return n
}

// vCreatedByLibrary: the goroutine (one block of a runtime.Stack dump) was started by a function of the library, not by
// a harness function (verif*, v<Upper>*, Verif*) or a test of this package.
func vCreatedByLibrary(g string) bool {
	const marker = "created by nhooyr.io/websocket"
	i := strings.Index(g, marker)
	if i < 0 {
		return false
	}
	rest := g[i+len(marker):]
	if strings.HasPrefix(rest, "/") {
		// a sub-package: internal/xsync.Go is the library's; wsjson harness code does not start goroutines
		return strings.HasPrefix(rest, "/internal/")
	}
	rest = strings.TrimPrefix(rest, ".")
	if j := strings.IndexAny(rest, " \n"); j >= 0 {
		rest = rest[:j]
	}
	// strip a receiver: (*Conn).close -> close (methods of harness types are the harness's)
	if k := strings.LastIndex(rest, ")."); k >= 0 {
		recv := strings.TrimLeft(rest[:k], "(*")
		if len(recv) >= 2 && recv[0] == 'v' && recv[1] >= 'A' && recv[1] <= 'Z' {
			return false
		}
		rest = rest[k+2:]
	}
	name := rest
	if k := strings.Index(name, "."); k >= 0 {
		name = name[:k] // closures: CloseRead.func1 -> CloseRead
	}
	switch {
	case strings.HasPrefix(name, "verif"), strings.HasPrefix(name, "Verif"), strings.HasPrefix(name, "Test"), strings.HasPrefix(name, "replay"):
		return false
	case len(name) >= 2 && name[0] == 'v' && name[1] >= 'A' && name[1] <= 'Z':
		return false
	}
	return true
}

// vObserve records values that are compared between the engine's evaluation under a model and the native run.
func vObserve(tag string, vals ...any) {
	var sb strings.Builder
	sb.WriteString(tag + ":")
	for _, v := range vals {
		sb.WriteString(" ")
		switch x := v.(type) {
		case nil:
			sb.WriteString("nil")
		case []byte:
			sb.WriteString("[")
			for i, b := range x {
				if i > 0 {
					sb.WriteString(" ")
				}
				fmt.Fprintf(&sb, "%02x", b)
			}
			sb.WriteString("]")
		case string:
			fmt.Fprintf(&sb, "%q", x)
		case bool:
			fmt.Fprintf(&sb, "%v", x)
		default:
			fmt.Fprintf(&sb, "%d", x)
		}
	}
	vObserved = append(vObserved, sb.String())
}

// vAlign64 returns the offset within b of the first byte whose address is a multiple of 64.
// In the engine a fresh allocation is modelled at a 64-aligned virtual address, so the offset is 0.
func vAlign64(b []byte) int {
	if len(b) == 0 {
		return 0
	}
	a := uintptr(unsafe.Pointer(&b[0]))
	return int((64 - a%64) % 64)
}

// vAsciiLower / vAsciiEqualFold: case-insensitivity as HTTP tokens and host names have it - the 26 ASCII letters only.
// (strings.EqualFold and strings.ToLower apply Unicode folding: U+017F equals s, U+212A equals k.) For concrete strings.
func vAsciiLower(s string) string {
	b := []byte(s)
	for i, c := range b {
		if c >= 'A' && c <= 'Z' {
			b[i] = c + 32
		}
	}
	return string(b)
}

func vAsciiEqualFold(a, b string) bool { return vAsciiLower(a) == vAsciiLower(b) }
