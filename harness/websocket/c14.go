package websocket

import (
	"bufio"
	"net/http"
	"strings"
)

var vWindowBits = []string{"8", "9", "10", "11", "12", "13", "14", "15"}

func vIsWindowBits(p, name string) bool {
	ok := false
	for _, b := range vWindowBits {
		ok = vOr(ok, vEqStr(p, name+"="+b))
	}
	return ok
}

func vNamed(p, name string) bool {
	return vOr(vEqStr(p, name), strings.HasPrefix(p, name+"="))
}

// vRefAcceptOffer: RFC 7692 section 7.1 as seen by a server that cannot limit its own window: which offers of
// permessage-deflate it may accept, and the resulting (client_no_context_takeover, server_no_context_takeover).
func vRefAcceptOffer(params []string, mode CompressionMode) (ok, wellFormed bool, cnct, snct bool) {
	cnct = mode == CompressionNoContextTakeover
	snct = mode == CompressionNoContextTakeover
	ok = true
	wellFormed = true
	names := []string{"client_no_context_takeover", "server_no_context_takeover", "client_max_window_bits", "server_max_window_bits"}
	for i, p := range params {
		isCN := vEqStr(p, "client_no_context_takeover")
		isSN := vEqStr(p, "server_no_context_takeover")
		isCW := vOr(vEqStr(p, "client_max_window_bits"), vIsWindowBits(p, "client_max_window_bits"))
		isSW15 := vEqStr(p, "server_max_window_bits=15")
		ok = vAnd(ok, vOr(vOr(isCN, isSN), vOr(isCW, isSW15)))
		cnct = vOr(cnct, isCN)
		snct = vOr(snct, isSN)
		// a parameter name must not occur twice in one offer
		for j := 0; j < i; j++ {
			for _, n := range names {
				wellFormed = vAnd(wellFormed, vNot(vAnd(vNamed(p, n), vNamed(params[j], n))))
			}
		}
	}
	return
}

// C14.server: selectDeflate on the offers the real websocketExtensions extracts from an arbitrary header value (any
// strings, up to splitBound separators per level), against the RFC 7692 reference: the first acceptable offer wins,
// unknown / malformed parameters and window sizes the server cannot honour decline the offer, and the rendered
// response carries exactly the takeover flags and never a window-bits parameter.
func verifC14_server() {
	mode := CompressionMode(vChoose("mode", 3))
	h := http.Header{}
	h.Set("Sec-WebSocket-Extensions", vString("ext"))
	exts := websocketExtensions(h)
	copts, ok := selectDeflate(exts, mode)
	vReach("C14.server.decided")
	// reference: first permessage-deflate offer that may be accepted
	refOK := false
	refC, refS := false, false
	malformedAccepted := false
	if mode != CompressionDisabled {
		for _, e := range exts {
			isPMD := vEqStr(e.name, "permessage-deflate")
			aok, wf, c, s := vRefAcceptOffer(e.params, mode)
			take := vAnd(vNot(refOK), vAnd(isPMD, vAnd(aok, wf)))
			refC = vIteBool(take, c, refC)
			refS = vIteBool(take, s, refS)
			refOK = vOr(refOK, take)
			_ = malformedAccepted
		}
	}
	if ok {
		vReach("C14.server.accepted")
		// which offer did the library take? (its own acceptDeflate, first success)
		for _, e := range exts {
			if e.name != "permessage-deflate" {
				continue
			}
			if _, took := acceptDeflate(e, mode); !took {
				continue
			}
			aok, wf, _, _ := vRefAcceptOffer(e.params, mode)
			malformedCW := false
			for _, p := range e.params {
				malformedCW = vOr(malformedCW, vAnd(strings.HasPrefix(p, "client_max_window_bits="), vNot(vIsWindowBits(p, "client_max_window_bits"))))
			}
			vAssert(vNot(malformedCW), "C14.server.declines-malformed-client-window-bits")
			vAssert(wf, "C14.server.declines-duplicate-parameter")
			vAssert(vOr(aok, malformedCW), "C14.server.accepts-only-acceptable-offer")
			break
		}
	}
	vAssert(vImplies(refOK, ok), "C14.server.accepts-acceptable-offer")
	if ok && copts != nil {
		_ = refC
		_ = refS
		// flags of the offer the library took: mode defaults plus what that offer asks for
		for _, e := range exts {
			if e.name != "permessage-deflate" {
				continue
			}
			if _, took := acceptDeflate(e, mode); !took {
				continue
			}
			_, _, c, s := vRefAcceptOffer(e.params, mode)
			vAssert(vAnd(copts.clientNoContextTakeover == c, copts.serverNoContextTakeover == s), "C14.server.flags")
			break
		}
		resp := copts.String()
		vAssert(strings.HasPrefix(resp, "permessage-deflate"), "C14.server.response-name")
		vAssert(strings.Contains(resp, "server_no_context_takeover") == copts.serverNoContextTakeover, "C14.server.echoes-server-nct")
		vAssert(vNot(strings.Contains(resp, "max_window_bits")), "C14.server.no-window-bits-in-response")
	}
	if !ok {
		vAssert(copts == nil, "C14.server.declined-has-no-options")
	}
	vObserve("c14server", int(mode), ok)
}

// C14.client: verifyServerExtensions on an arbitrary response header against the reference client rules.
func verifC14_client() {
	mode := CompressionMode(vChoose("mode", 3))
	var offered *compressionOptions
	if mode != CompressionDisabled {
		offered = mode.opts()
	}
	h := http.Header{}
	if vChoose("hasHeader", 2) == 1 {
		h.Set("Sec-WebSocket-Extensions", vString("ext"))
	}
	exts := websocketExtensions(h)
	copts, err := verifyServerExtensions(offered, h)
	vReach("C14.client.decided")
	if len(exts) == 0 {
		vAssert(vAnd(err == nil, copts == nil), "C14.client.no-extension-no-compression")
		return
	}
	// reference
	refOK := len(exts) == 1 && offered != nil
	var c, s bool
	if refOK {
		e := exts[0]
		good := vEqStr(e.name, "permessage-deflate")
		// The agreement is what the response says. The client may always refrain from context takeover on its own
		// side (c starts from what it offered), but whether the SERVER keeps its context is decided by the response
		// alone: a client that drops its window although the response does not carry server_no_context_takeover cannot
		// decode the second message of a server that applies the agreement.
		c, s = offered.clientNoContextTakeover, false
		for i, p := range e.params {
			isCN := vEqStr(p, "client_no_context_takeover")
			isSN := vEqStr(p, "server_no_context_takeover")
			isSW := vIsWindowBits(p, "server_max_window_bits")
			good = vAnd(good, vOr(vOr(isCN, isSN), isSW))
			c = vOr(c, isCN)
			s = vOr(s, isSN)
			// RFC 7692 section 7: a response that repeats a parameter name is invalid, the client must fail the connection
			for j := 0; j < i; j++ {
				for _, n := range []string{"client_no_context_takeover", "server_no_context_takeover", "server_max_window_bits"} {
					good = vAnd(good, vNot(vAnd(vNamed(p, n), vNamed(e.params[j], n))))
				}
			}
		}
		if err == nil {
			vReach("C14.client.accepted")
			vAssert(good, "C14.client.accepts-only-honourable-response")
			if copts != nil {
				vAssert(vImplies(good, vAnd(copts.clientNoContextTakeover == c, copts.serverNoContextTakeover == s)), "C14.client.flags")
			} else {
				vAssert(false, "C14.client.accepted-without-options")
			}
		} else {
			vReach("C14.client.rejected")
			vAssert(vNot(good), "C14.client.rejects-only-unacceptable-response")
		}
	} else {
		vAssert(err != nil, "C14.client.rejects-unoffered-or-multiple")
	}
	vObserve("c14client", int(mode), err == nil)
}

// C14.agree + C14.dir: library to library, every (client mode, server mode): the real offer string goes through the
// real parser and selectDeflate, the real response string through verifyServerExtensions; both ends end up with the
// same parameters (or both without compression), and on connections built from them each direction's writer and reader
// choose the same context-takeover setting.
func verifC14_agree() {
	cm := CompressionMode(vChoose("clientMode", 3))
	sm := CompressionMode(vChoose("serverMode", 3))
	var offer *compressionOptions
	req := http.Header{}
	if cm != CompressionDisabled {
		offer = cm.opts()
		req.Set("Sec-WebSocket-Extensions", offer.String())
	}
	sopts, ok := selectDeflate(websocketExtensions(req), sm)
	resp := http.Header{}
	if ok {
		resp.Set("Sec-WebSocket-Extensions", sopts.String())
	}
	copts, err := verifyServerExtensions(offer, resp)
	vReach("C14.agree.negotiated")
	vAssert(err == nil, "C14.agree.own-response-accepted")
	vAssert((copts == nil) == (sopts == nil), "C14.agree.both-or-neither")
	vAssert(ok == (cm != CompressionDisabled && sm != CompressionDisabled), "C14.agree.only-when-both-enabled")
	if copts != nil && sopts != nil {
		vReach("C14.agree.compression")
		vAssert(*copts == *sopts, "C14.agree.same-parameters")
	}
	vCheckDir(copts, sopts)
	vObserve("agree", int(cm), int(sm), ok)
}

// vCheckDir: for options held by a client and a server, the writer of one side and the reader of the other agree on
// context takeover for that direction.
func vCheckDir(copts, sopts *compressionOptions) {
	if copts == nil || sopts == nil {
		return
	}
	vInstallRand()
	tc, ts := vNewTransport(nil), vNewTransport(nil)
	tc.endMode, ts.endMode = vEndBlock, vEndBlock
	cc := vNewConn(tc, true, copts, 16, 16)
	sc := vNewConn(ts, false, sopts, 16, 16)
	vAssert(cc.msgWriter.flateContextTakeover() == sc.msgReader.flateContextTakeover(), "C14.dir.client-to-server")
	vAssert(sc.msgWriter.flateContextTakeover() == cc.msgReader.flateContextTakeover(), "C14.dir.server-to-client")
	// the writer's own side decides its default threshold
	wantC, wantS := 128, 128
	if copts.clientNoContextTakeover {
		wantC = 512
	}
	if sopts.serverNoContextTakeover {
		wantS = 512
	}
	vAssert(vAnd(cc.flateThreshold == wantC, sc.flateThreshold == wantS), "C14.dir.threshold-follows-writer")
	cc.CloseNow()
	sc.CloseNow()
}

// C14.dir for asymmetric agreements obtained from foreign offers / responses: all four flag combinations.
func verifC14_dir() {
	o := &compressionOptions{clientNoContextTakeover: vChoose("cnct", 2) == 1, serverNoContextTakeover: vChoose("snct", 2) == 1}
	o2 := *o
	vReach("C14.dir.checked")
	vCheckDir(o, &o2)
	vObserve("dir", o.clientNoContextTakeover, o.serverNoContextTakeover)
}

// C14.foreign: a client of every compression mode receives an honourable response from a foreign server; a reference
// server that applies exactly the parameters of its response (it keeps its compression context from message to message
// unless the response carries server_no_context_takeover) then sends two compressed messages, the second referring back
// into the first iff it keeps its context. The client, built from what verifyServerExtensions returned, decodes both.
func verifC14_foreign() {
	vInstallRand()
	mode := CompressionMode(1 + vChoose("mode", 2))
	resp := []string{
		"permessage-deflate",
		"permessage-deflate; client_no_context_takeover",
		"permessage-deflate; server_no_context_takeover",
		"permessage-deflate; client_no_context_takeover; server_no_context_takeover",
		"permessage-deflate; server_max_window_bits=15",
	}[vChoose("resp", 5)]
	vClassify("client-mode", []string{"", "context-takeover", "no-context-takeover"}[mode])
	vClassify("response", resp)
	h := http.Header{}
	h.Set("Sec-WebSocket-Extensions", resp)
	copts, err := verifyServerExtensions(mode.opts(), h)
	vAssert(vAnd(err == nil, copts != nil), "C14.foreign.accepted")
	if err != nil || copts == nil {
		return
	}
	serverKeepsContext := !strings.Contains(resp, "server_no_context_takeover")
	data := vBytes("data", 2)
	frames := vDataFrames(vStored(data, []int{2}, false), nil, 2, true, true)
	var second []byte
	if serverKeepsContext {
		frames = append(frames, vDataFrames(vBackrefProbe, nil, 1, true, true)...)
		second = []byte{data[1], data[1], data[1]}
		vReach("C14.foreign.server-keeps-context")
	} else {
		second = vBytes("second", 2)
		frames = append(frames, vDataFrames(vStored(second, []int{2}, false), nil, 1, true, true)...)
		vReach("C14.foreign.server-resets-context")
	}
	t := vNewTransport(vEncodeFrames(frames))
	c := vNewConn(t, true, copts, 64, 256)
	g := vReadLoop(c, 6, 3)
	ok := len(g.msgs) == 2
	if ok {
		ok = vAnd(vEqBytes(g.msgs[0], data), vEqBytes(g.msgs[1], second))
	}
	vAssert(ok, "C14.foreign.client-decodes-what-the-server-compresses")
	c.CloseNow()
	vObserve("c14foreign", int(mode), resp, len(g.msgs))
}

// C14.twice: the parameters a connection holds are fixed by its own handshake. Two handshakes in a row on one server
// (every pair of offers from a small grid, either mode; also a client dialing twice): what the first one agreed on is
// still what its connection holds after the second, and the second is decided as if it were the first.
func verifC14_twice() {
	mode := CompressionMode(1 + vChoose("mode", 2))
	offers := []string{
		"permessage-deflate",
		"permessage-deflate; client_no_context_takeover",
		"permessage-deflate; server_no_context_takeover",
		"permessage-deflate; client_no_context_takeover; server_no_context_takeover",
		"permessage-deflate; client_no_context_takeover; server_max_window_bits=10", // declined half way through
	}
	sel := func(offer string) (*compressionOptions, bool) {
		h := http.Header{}
		h.Set("Sec-WebSocket-Extensions", offer)
		return selectDeflate(websocketExtensions(h), mode)
	}
	o1 := offers[vChoose("first", len(offers))]
	o2 := offers[vChoose("second", len(offers))]
	vClassify("first", o1)
	vClassify("second", o2)
	c1, ok1 := sel(o1)
	var snap compressionOptions
	if c1 != nil {
		snap = *c1
	}
	c2, ok2 := sel(o2)
	vReach("C14.twice.decided")
	if c1 != nil {
		vAssert(*c1 == snap, "C14.twice.first-connection-keeps-its-parameters")
	}
	// the second decision equals the decision the same offer gets on its own
	r2, rok2 := sel(o2)
	vAssert(ok2 == rok2, "C14.twice.second-decided-independently")
	if c2 != nil && r2 != nil {
		wantC := strings.Contains(o2, "client_no_context_takeover") || mode == CompressionNoContextTakeover
		wantS := strings.Contains(o2, "server_no_context_takeover") || mode == CompressionNoContextTakeover
		vAssert(vAnd(c2.clientNoContextTakeover == wantC, c2.serverNoContextTakeover == wantS), "C14.twice.second-parameters")
	}
	_ = ok1
	// the client side: the options a dial starts from are its own
	m1 := mode.opts()
	m1.clientNoContextTakeover = true
	m1.serverNoContextTakeover = true
	m2 := mode.opts()
	vAssert(vAnd(m2.clientNoContextTakeover == (mode == CompressionNoContextTakeover), m2.serverNoContextTakeover == (mode == CompressionNoContextTakeover)), "C14.twice.mode-options-are-fresh")
	vObserve("c14twice", int(mode), o1, o2, ok1, ok2)
}

// vOfferGrid: concrete offers (one element of Sec-WebSocket-Extensions each) with what a server that cannot limit its
// own window may do with them: acceptable or not, the flags the offer asks for, whether it mentions
// client_max_window_bits (only then may the response carry that parameter).
var vOfferGrid = []struct {
	text             string
	pmd, ok          bool
	cnct, snct, cmwb bool
}{
	{"permessage-deflate", true, true, false, false, false},
	{"permessage-deflate; client_no_context_takeover", true, true, true, false, false},
	{"permessage-deflate; server_max_window_bits=10", true, false, false, false, false},
	{"permessage-deflate; client_max_window_bits; server_max_window_bits=10", true, false, false, false, true},
	{"permessage-deflate; client_max_window_bits", true, true, false, false, true},
	{"permessage-deflate; client_max_window_bits=12; server_no_context_takeover", true, true, false, true, true},
	{"x-webkit-deflate-frame", false, false, false, false, false},
	{"permessage-deflate; bogus", true, false, false, false, false},
	{"permessage-deflate; server_max_window_bits=15", true, true, false, false, false},
	{"permessage-deflate; server_no_context_takeover; server_no_context_takeover", true, false, false, false, false},
}

// C14.accept: the whole server side of the negotiation through accept(): offers from the grid, one or two of them, in one
// header line or two, against every server mode. What the response says, what the connection does and what the
// reference allows must be one and the same: the response carries permessage-deflate exactly if some offer is
// acceptable (the first such offer decides), its flags are the offer's plus the server's own preference, it carries no
// parameter the client may not receive (client_max_window_bits only if the accepted offer mentioned it, never
// server_max_window_bits), and the connection compresses exactly if the response says so, with the same flags.
func verifC14_accept() {
	mode := CompressionMode(vChoose("mode", 3))
	n := 1 + vChoose("two", 2)
	var picks []int
	for i := 0; i < n; i++ {
		picks = append(picks, vChoose("offer", len(vOfferGrid)))
	}
	r := &http.Request{Method: "GET", ProtoMajor: 1, ProtoMinor: 1, Header: http.Header{}, Host: "example.com"}
	r.Header.Set("Connection", "Upgrade")
	r.Header.Set("Upgrade", "websocket")
	r.Header.Set("Sec-WebSocket-Version", "13")
	r.Header.Set("Sec-WebSocket-Key", "dGhlIHNhbXBsZSBub25jZQ==")
	if n == 2 && vChoose("twoLines", 2) == 1 {
		r.Header["Sec-Websocket-Extensions"] = []string{vOfferGrid[picks[0]].text, vOfferGrid[picks[1]].text}
	} else {
		v := vOfferGrid[picks[0]].text
		if n == 2 {
			v += ", " + vOfferGrid[picks[1]].text
		}
		r.Header["Sec-Websocket-Extensions"] = []string{v}
	}
	t := vNewTransport(nil)
	t.endMode = vEndBlock
	w := &vRespWriter{hdr: http.Header{}, conn: &vNetConn{t}}
	w.brw = bufio.NewReadWriter(bufio.NewReaderSize(w.conn, 16), bufio.NewWriterSize(w.conn, 16))
	c, err := accept(w, r, &AcceptOptions{CompressionMode: mode})
	vReach("C14.accept.returned")
	vAssert(err == nil && c != nil && w.code == 101, "C14.accept.valid-request-upgraded")
	if c == nil {
		return
	}
	// reference
	acc := -1
	if mode != CompressionDisabled {
		for _, k := range picks {
			if vOfferGrid[k].pmd && vOfferGrid[k].ok {
				acc = k
				break
			}
		}
	}
	resp := websocketExtensions(w.hdrAtWriteHeader)
	if acc < 0 {
		vReach("C14.accept.no-agreement")
		vAssert(len(resp) == 0, "C14.accept.no-extension-in-response-without-agreement")
		vAssert(!c.flate(), "C14.accept.no-compression-without-agreement")
	} else {
		vReach("C14.accept.agreement")
		o := vOfferGrid[acc]
		wantC := o.cnct || mode == CompressionNoContextTakeover
		wantS := o.snct || mode == CompressionNoContextTakeover
		vAssert(len(resp) == 1 && resp[0].name == "permessage-deflate", "C14.accept.response-names-the-extension-once")
		gotC, gotS := false, false
		if len(resp) == 1 {
			for _, p := range resp[0].params {
				switch {
				case p == "client_no_context_takeover":
					gotC = true
				case p == "server_no_context_takeover":
					gotS = true
				case vNamed(p, "client_max_window_bits"):
					vAssert(o.cmwb, "C14.accept.client_max_window_bits-only-if-the-accepted-offer-has-it")
				default:
					vAssert(false, "C14.accept.response-parameter-a-client-may-not-receive")
				}
			}
		}
		vAssert(gotC == wantC && gotS == wantS, "C14.accept.response-flags")
		vAssert(c.flate(), "C14.accept.compression-on-agreement")
		if c.flate() {
			vAssert(c.copts.clientNoContextTakeover == gotC && c.copts.serverNoContextTakeover == gotS, "C14.accept.connection-applies-what-the-response-says")
		}
	}
	c.CloseNow()
	vObserve("c14accept", int(mode), acc, len(resp))
}
