package websocket

import (
	"bufio"
	"context"
	"net/http"
	"runtime"
	"strings"
	"time"
)

// C20.exit: histories of operations ended in every way a connection can end; whenever Close or CloseNow returns
// without error, no goroutine started by the library for that connection is left.
func verifC20_exit() {
	client := vParam("client", 1) == 1
	vInstallRand()
	mk := func(f vFrame) vFrame {
		f.masked = !client
		if f.masked {
			copy(f.key[:], vBytes("key", 4))
		}
		return f
	}
	ending := vChoose("ending", 6)
	endName := []string{"local-close", "closenow", "peer-close", "protocol-error", "context-expiry", "transport-failure"}[ending]
	vClassify("ending", endName)
	var in []vFrame
	in = append(in, mk(vFrame{fin: true, opcode: 2, payload: vBytes("m", 2)}))
	in = append(in, mk(vFrame{fin: false, opcode: 1, payload: vBytes("m", 1)}))
	switch ending {
	case 2:
		in = append(in, mk(vFrame{fin: true, opcode: 8, payload: []byte{0x03, 0xe9}}))
	case 3:
		in = append(in, mk(vFrame{fin: true, opcode: 2, payload: nil})) // new message inside a message
	}
	t := vNewTransport(vEncodeFrames(in))
	t.endMode = vEndBlock
	if ending == 5 {
		t.endMode = vEndForeign
	}
	c := vNewConn(t, client, nil, 32, 64)
	nOps := vParam("ops", 2)
	usedReader := false
	readOnce := false
	for i := 0; i < nOps; i++ {
		switch vChoose("op", 6) {
		case 0:
			wctx, wcancel := context.WithTimeout(vBG, time.Second)
			c.Write(wctx, MessageBinary, vBytes("w", 1))
			wcancel()
		case 1:
			ctx, cancel := context.WithCancel(vBG)
			cancel()
			c.Ping(ctx)
		case 2:
			if !usedReader && !readOnce {
				c.Read(vBG) // the complete first message
				readOnce = true
			}
		case 3:
			if !usedReader {
				c.CloseRead(vBG)
				usedReader = true
				vReach("C20.exit.closeread")
			}
		case 4:
			if !usedReader && !readOnce {
				readOnce = true
				usedReader = true // a partially read message: the application must not start another read
				nc := NetConn(vBG, c, MessageBinary)
				p := make([]byte, 1)
				nc.Read(p)
				nc.SetReadDeadline(time.Time{})
				vReach("C20.exit.netconn")
			}
		case 5:
			// abandoned writer: opened and never closed
			wctx, wcancel := context.WithTimeout(vBG, time.Second)
			c.Writer(wctx, MessageText)
			wcancel()
		}
	}
	// drive the connection to its end
	if !usedReader {
		switch ending {
		case 2, 3, 5:
			ctx, cancel := context.WithTimeout(vBG, time.Second)
			for k := 0; k < 4; k++ {
				if _, _, err := c.Read(ctx); err != nil {
					break
				}
			}
			cancel()
		case 4:
			ctx, cancel := context.WithTimeout(vBG, time.Second)
			for k := 0; k < 4; k++ {
				if _, _, err := c.Read(ctx); err != nil {
					break
				}
			}
			cancel()
		}
	} else {
		vGhostSettle()
	}
	var err error
	if ending == 1 || vChoose("final", 2) == 1 {
		err = c.CloseNow()
	} else {
		err = c.Close(StatusNormalClosure, "")
	}
	vReach("C20.exit.closed")
	if err == nil {
		vReach("C20.exit.nil")
		vAssert(vGhostGoroutines() == 0, "C20.exit.no-goroutine-left")
	}
	// a second close of either kind still leaves nothing behind
	c.CloseNow()
	vAssert(vGhostGoroutines() == 0, "C20.exit.no-goroutine-after-second-close")
	vAssert(vGhostElapsed() < 30*time.Second, "C20.exit.bounded")
	vObserve("c20", ending)
}

// C20.stuck: a library goroutine that is genuinely busy when the connection is closed (the CloseRead goroutine is writing
// its policy-violation Close frame to a peer that does not read; the blocked write returns only 300 ms after the transport
// was closed): CloseNow / Close must not return before that goroutine is gone, whatever the transport's Close returns.
func verifC20_stuck() {
	client := vParam("client", 0) == 1
	vInstallRand()
	f := vFrame{fin: true, opcode: 1, masked: !client, payload: vBytes("m", 1)}
	if f.masked {
		copy(f.key[:], vBytes("key", 4))
	}
	t := vNewTransport(vEncodeFrame(f))
	t.endMode = vEndBlock
	t.writeBlock = true
	t.slowRelease = 300 * time.Millisecond
	if vChoose("transportCloseFails", 2) == 1 {
		t.closeErr = vErrForeign
	}
	c := vNewConn(t, client, nil, 32, 64)
	crCtx, crCancel := context.WithCancel(vBG)
	c.CloseRead(crCtx)
	vGhostSettle() // the CloseRead goroutine has met the data message and is blocked writing its Close frame
	if vChoose("parentCancelledFirst", 2) == 1 {
		// the context CloseRead was given ends before the connection is closed: the reader goroutine is still there
		crCancel()
		vGhostSettle()
	}
	defer crCancel()
	if vChoose("waitForWriteTimeout", 2) == 1 {
		time.Sleep(6 * time.Second) // the 5 s write timeout closes the connection first
	}
	var err error
	if vChoose("closenow", 2) == 1 {
		err = c.CloseNow()
	} else {
		err = c.Close(StatusNormalClosure, "")
	}
	vReach("C20.stuck.returned")
	if client {
		vClassify("role", "client")
	} else {
		vClassify("role", "server")
	}
	n := vGhostGoroutines()
	vAssert(n == 0, "C20.stuck.no-goroutine-left-when-close-returns")
	vAssert(vNot(vIsOpen(c)), "C20.stuck.closed")
	vObserve("stuck", err == nil)
}

// C20.concurrent: a second closer arrives while a Close is in the middle of its handshake (the peer is silent, so the
// first Close waits for its 5 s limit). Whatever the second call is and whatever it returns, once it has returned no
// goroutine the library started for the connection is left, and the connection is closed.
func verifC20_concurrent() {
	client := vParam("client", 1) == 1
	vInstallRand()
	t := vNewTransport(nil)
	t.endMode = vEndBlock
	c := vNewConn(t, client, nil, 32, 64)
	if vChoose("closeread", 2) == 1 {
		c.CloseRead(vBG)
		vGhostSettle()
	}
	firstDone := make(chan struct{})
	go func() {
		c.Close(StatusNormalClosure, "")
		close(firstDone)
	}()
	vGhostSettle() // the first Close has sent its Close frame and waits for the peer's
	var err error
	if vChoose("second", 2) == 1 {
		err = c.CloseNow()
	} else {
		err = c.Close(StatusGoingAway, "")
	}
	vReach("C20.concurrent.second-returned")
	vAssert(vGhostGoroutines() == 0, "C20.concurrent.no-goroutine-left-when-second-closer-returns")
	vAssert(vNot(vIsOpen(c)), "C20.concurrent.closed")
	<-firstDone
	vObserve("concurrent", err == nil)
}

// C20.stuck-app: an application goroutine is inside a transport Read (holding the read lock) when CloseNow / Close is
// called, and the transport takes 300 ms to unwind that Read after it was closed. The library does not wait for the
// application's goroutine, but nothing the library itself started may be left when the call returns.
func verifC20_stuck_app() {
	client := vParam("client", 1) == 1
	vInstallRand()
	t := vNewTransport(nil)
	t.endMode = vEndBlock
	t.slowReadRelease = 300 * time.Millisecond
	c := vNewConn(t, client, nil, 32, 64)
	readDone := make(chan struct{})
	go func() {
		c.Read(vBG)
		close(readDone)
	}()
	vGhostSettle() // the application's reader is inside the transport Read
	var err error
	if vChoose("closenow", 2) == 1 {
		err = c.CloseNow()
	} else {
		err = c.Close(StatusNormalClosure, "") // (the peer never answers: Close gives up after its 5 s limit)
	}
	vReach("C20.stuck-app.returned")
	vAssert(vGhostGoroutines() == 0, "C20.stuck-app.no-library-goroutine-left-when-close-returns")
	vAssert(vNot(vIsOpen(c)), "C20.stuck-app.closed")
	<-readDone
	vObserve("stuck-app", err == nil)
}

// C20.slow-close: the connection is ended by the library itself (a read's context expires and the timeout watcher
// closes the connection) over a transport whose Close takes a while; the application calls Close or CloseNow in the
// middle of that. When its call returns, the watcher goroutine has exited.
func verifC20_slow_close() {
	client := vParam("client", 1) == 1
	vInstallRand()
	t := vNewTransport(nil)
	t.endMode = vEndBlock
	t.slowClose = 500 * time.Millisecond
	c := vNewConn(t, client, nil, 32, 64)
	ctx, cancel := context.WithTimeout(vBG, time.Second)
	defer cancel()
	rdone := make(chan struct{})
	go func() {
		c.Read(ctx)
		close(rdone)
	}()
	// 0: before the expiry, 1: while the watcher is inside the transport's Close, 2: after it
	when := vChoose("when", 3)
	time.Sleep([]time.Duration{500 * time.Millisecond, 1200 * time.Millisecond, 2 * time.Second}[when])
	var err error
	if vChoose("closenow", 2) == 1 {
		err = c.CloseNow()
	} else {
		err = c.Close(StatusNormalClosure, "")
	}
	vReach("C20.slow-close.returned")
	n := vGhostGoroutines()
	vAssert(n == 0, "C20.exit.no-goroutine-left-when-close-returns")
	vAssert(vNot(vIsOpen(c)), "C20.slow-close.closed")
	<-rdone
	vObserve("c20slowclose", when, err == nil)
}

// vGhostGoroutinesNow counts the library's goroutines at this very moment (no settling first): a goroutine that is still
// alive when Close / CloseNow returns is alive, even if it would end by itself a moment later.
func vGhostGoroutinesNow() int {
	buf := make([]byte, 1<<20)
	buf = buf[:runtime.Stack(buf, true)]
	n := 0
	for _, g := range strings.Split(string(buf), "\n\n") {
		if vCreatedByLibrary(g) {
			n++
		}
	}
	return n
}

// C20.closeread-now: CloseRead followed at once by CloseNow / Close - the reader goroutine may not even have started:
// when the call returns that goroutine is gone (counted without settling).
func verifC20_closeread_now() {
	client := vParam("client", 1) == 1
	vInstallRand()
	t := vNewTransport(nil)
	t.endMode = vEndBlock
	c := vNewConn(t, client, nil, 32, 64)
	vGhostSettle() // the timeout watcher is parked
	c.CloseRead(vBG)
	if vChoose("final", 2) == 1 {
		ctx, cancel := context.WithTimeout(vBG, time.Second)
		_ = ctx
		cancel()
		c.Close(StatusNormalClosure, "")
	} else {
		c.CloseNow()
	}
	vReach("C20.closeread-now.closed")
	vAssert(vGhostGoroutinesNow() == 0, "C20.exit.no-goroutine-left-when-close-returns")
	vObserve("c20crnow", 0)
}

// C20.accept: a connection made by Accept from a request whose context outlives it (a handler that goes on working, a
// long-lived server context): after Close / CloseNow nothing of the library is left waiting for that context.
func verifC20_accept() {
	vInstallRand()
	rctx, rcancel := context.WithCancel(vBG)
	defer rcancel()
	r := (&http.Request{Method: "GET", ProtoMajor: 1, ProtoMinor: 1, Header: http.Header{}, Host: "example.com"}).WithContext(rctx)
	r.Header.Set("Connection", "Upgrade")
	r.Header.Set("Upgrade", "websocket")
	r.Header.Set("Sec-WebSocket-Version", "13")
	r.Header.Set("Sec-WebSocket-Key", "dGhlIHNhbXBsZSBub25jZQ==")
	t := vNewTransport(nil)
	t.endMode = vEndBlock
	w := &vRespWriter{hdr: http.Header{}, conn: &vNetConn{t}}
	w.brw = bufio.NewReadWriter(bufio.NewReaderSize(w.conn, 16), bufio.NewWriterSize(w.conn, 16))
	c, err := accept(w, r, &AcceptOptions{})
	vAssert(err == nil && c != nil, "C20.accept.setup")
	if c == nil {
		return
	}
	vGhostSettle()
	if vChoose("final", 2) == 1 {
		c.Close(StatusNormalClosure, "")
	} else {
		c.CloseNow()
	}
	vReach("C20.accept.closed")
	vAssert(vGhostGoroutines() == 0, "C20.exit.no-goroutine-left-when-close-returns")
	vObserve("c20accept", 0)
}
