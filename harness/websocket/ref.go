package websocket

// Reference model of RFC 6455 framing, written independently of the library: it never calls library code.

import "io"

// vBuf collects everything written to it, remembering the boundaries of the Write calls.
type vBuf struct {
	b      []byte
	writes []int // end offset of each Write
}

func (w *vBuf) Write(p []byte) (int, error) {
	w.b = append(w.b, p...)
	w.writes = append(w.writes, len(w.b))
	return len(p), nil
}

// vSliceReader delivers b in chunks: first `first` bytes (if >0), then `step` bytes per call (0 = all the rest), then end.
type vSliceReader struct {
	b     []byte
	pos   int
	first int
	step  int
	end   error // error returned once the bytes are exhausted (nil: io.EOF)
	calls int
}

func (r *vSliceReader) Read(p []byte) (int, error) {
	r.calls++
	if r.pos >= len(r.b) {
		if r.end != nil {
			return 0, r.end
		}
		return 0, io.EOF
	}
	n := len(r.b) - r.pos
	if r.calls == 1 && r.first > 0 && r.first < n {
		n = r.first
	} else if r.step > 0 && r.step < n {
		n = r.step
	}
	if n > len(p) {
		n = len(p)
	}
	copy(p, r.b[r.pos:r.pos+n])
	r.pos += n
	return n, nil
}

type vRefHeader struct {
	fin, rsv1, rsv2, rsv3 bool
	opcode                uint8
	masked                bool
	length                uint64
	key                   [4]byte
}

// vRefEncodeHeader: RFC 6455 5.2 with the minimal length encoding.
func vRefEncodeHeader(h vRefHeader) []byte {
	b0 := h.opcode & 0x0f
	b0 |= vIteU8(h.fin, 0x80, 0)
	b0 |= vIteU8(h.rsv1, 0x40, 0)
	b0 |= vIteU8(h.rsv2, 0x20, 0)
	b0 |= vIteU8(h.rsv3, 0x10, 0)
	mb := vIteU8(h.masked, 0x80, 0)
	out := []byte{b0}
	n := h.length
	switch {
	case n <= 125:
		out = append(out, mb|byte(n))
	case n <= 0xffff:
		out = append(out, mb|126, byte(n>>8), byte(n))
	default:
		out = append(out, mb|127, byte(n>>56), byte(n>>48), byte(n>>40), byte(n>>32), byte(n>>24), byte(n>>16), byte(n>>8), byte(n))
	}
	if h.masked {
		out = append(out, h.key[0], h.key[1], h.key[2], h.key[3])
	}
	return out
}

const (
	vRefOK         = 0
	vRefIncomplete = 1 // the bytes end inside the header
	vRefBadLength  = 2 // 64-bit length with the top bit set
)

// vRefDecodeHeader parses a header from b. size is the number of bytes the header occupies.
func vRefDecodeHeader(b []byte) (h vRefHeader, size int, status int) {
	if len(b) < 2 {
		return h, 0, vRefIncomplete
	}
	h.fin = b[0]&0x80 != 0
	h.rsv1 = b[0]&0x40 != 0
	h.rsv2 = b[0]&0x20 != 0
	h.rsv3 = b[0]&0x10 != 0
	h.opcode = b[0] & 0x0f
	h.masked = b[1]&0x80 != 0
	l7 := b[1] & 0x7f
	pos := 2
	switch {
	case l7 < 126:
		h.length = uint64(l7)
	case l7 == 126:
		if len(b) < pos+2 {
			return h, 0, vRefIncomplete
		}
		h.length = uint64(b[2])<<8 | uint64(b[3])
		pos += 2
	default:
		if len(b) < pos+8 {
			return h, 0, vRefIncomplete
		}
		for i := 0; i < 8; i++ {
			h.length = h.length<<8 | uint64(b[2+i])
		}
		pos += 8
		if h.length>>63 != 0 {
			return h, 0, vRefBadLength
		}
	}
	if h.masked {
		if len(b) < pos+4 {
			return h, 0, vRefIncomplete
		}
		copy(h.key[:], b[pos:pos+4])
		pos += 4
	}
	return h, pos, vRefOK
}

// vRefKeyWord packs the four key bytes the way the library keeps a key (byte j masks payload byte i with i%4 == j).
func vRefKeyWord(k [4]byte) uint32 {
	return uint32(k[0]) | uint32(k[1])<<8 | uint32(k[2])<<16 | uint32(k[3])<<24
}
