package websocket

import (
	"context"
	"time"
)

var vPingLens = []int{0, 1, 8, 125}

// C15.echo: Pings placed before, inside and after a fragmented message are each answered by a Pong with the
// identical payload, in order, whether an explicit reader or CloseRead does the reading.
func verifC15_echo() {
	client := vParam("client", 1) == 1
	vInstallRand()
	mk := func(f vFrame) vFrame {
		f.masked = !client
		if f.masked {
			copy(f.key[:], vBytes("key", 4))
		}
		return f
	}
	var in []vFrame
	var pings [][]byte
	ping := func() {
		if vChoose("ping", 2) == 1 {
			p := vBytes("pingp", vPingLens[vChoose("plen", vParam("plens", 3))])
			pings = append(pings, p)
			in = append(in, mk(vFrame{fin: true, opcode: 9, payload: p}))
		}
	}
	closeRead := vParam("closeread", 0) == 1
	var msg []byte
	ping()
	if !closeRead {
		a, b := vBytes("m", 1), vBytes("m", 2)
		msg = append(append([]byte{}, a...), b...)
		in = append(in, mk(vFrame{fin: false, opcode: 1, payload: a}))
		ping()
		in = append(in, mk(vFrame{fin: true, opcode: 0, payload: b}))
		ping()
	} else {
		ping()
	}
	t := vNewTransport(vEncodeFrames(in))
	t.step = vParam("step", 0)
	var copts *compressionOptions
	midWrite := vParam("midWrite", 0) == 1
	if midWrite {
		copts = vCopts(1)
	}
	c := vNewConn(t, client, copts, 16, 256)
	if midWrite {
		// the application is in the middle of streaming a compressed message: its first fragment is out (this is the
		// call msgWriter makes for it), the continuation is yet to come, when the peer's Pings arrive
		_, werr := c.writeFrame(vBG, false, true, opText, vBytes("frag", 2))
		vAssert(werr == nil, "C15.echo.setup")
		vReach("C15.echo.mid-compressed-write")
	}
	if len(pings) > 0 {
		vReach("C15.echo.pinged")
	}
	if !closeRead {
		g := vReadLoop(c, 2, 2)
		vAssert(vAnd(len(g.msgs) == 1, g.err != nil), "C15.echo.message-count")
		if len(g.msgs) == 1 {
			vAssert(vEqBytes(g.msgs[0], msg), "C15.echo.message-intact")
		}
	} else {
		ctx := c.CloseRead(vBG)
		<-ctx.Done() // the stream ends in EOF: the reader fails, the connection closes, ctx is cancelled
		vReach("C15.echo.closeread-done")
	}
	e := vExpect{pongs: pings}
	vCheckControlReplies(t, e, client, "C15.echo")
	c.CloseNow()
	vObserve("echo", vWireSummary(t.out))
}

// C15.own: Ping returns nil only after a Pong carrying its own payload arrived; a foreign or withheld Pong
// leaves it waiting until its context ends.
func verifC15_own() {
	client := vParam("client", 1) == 1
	vInstallRand()
	mk := func(f vFrame) vFrame {
		f.masked = !client
		if f.masked {
			copy(f.key[:], vBytes("key", 4))
		}
		return f
	}
	// the peer answers (after it has seen the ping) with up to two pongs of symbolic one-byte payloads, or nothing
	nPongs := vChoose("pongs", 3)
	var in []vFrame
	var payloads [][]byte
	for i := 0; i < nPongs; i++ {
		b := vBytes("pongp", 1+vChoose("pongLen", 2)) // one or two arbitrary bytes: "1", "01", "+1", ...
		if vChoose("isPing", 2) == 1 {
			// not a Pong at all: the peer's own Ping, possibly with the very payload we wait for (peers count from "1" too)
			in = append(in, mk(vFrame{fin: true, opcode: 9, payload: b}))
			continue
		}
		payloads = append(payloads, b)
		in = append(in, mk(vFrame{fin: true, opcode: 10, payload: b}))
	}
	t := vNewTransport(vEncodeFrames(in))
	t.endMode = vEndBlock
	t.vGate(0, 1) // nothing arrives before the ping was written
	c := vNewConn(t, client, nil, 16, 64)
	pingErr := make(chan error, 1)
	go func() {
		ctx, cancel := context.WithTimeout(vBG, 2*time.Second)
		defer cancel()
		pingErr <- c.Ping(ctx)
	}()
	rctx, rcancel := context.WithTimeout(vBG, 10*time.Second)
	readDone := make(chan struct{})
	go func() {
		c.Reader(rctx) // handles control frames until the context ends
		close(readDone)
	}()
	err := <-pingErr
	vReach("C15.own.ping-returned")
	// the first ping of a connection carries the payload "1"
	matched := false
	for _, p := range payloads {
		matched = vOr(matched, vEqBytes(p, []byte("1")))
	}
	if err == nil {
		vReach("C15.own.ping-ok")
		vAssert(matched, "C15.own.nil-only-after-own-pong")
	} else {
		vReach("C15.own.ping-failed")
		vAssert(vNot(matched), "C15.own.own-pong-wakes-ping")
	}
	// the ping frame on the wire carries "1"
	frames, ok := vParseWritten(t.out)
	if !ok && !vIsOpen(c) {
		ok = true // (the ping's timeout closes the connection: a Pong being written at that moment may be cut short)
	}
	vAssert(vAnd(ok, len(frames) >= 1), "C15.own.ping-written")
	if ok && len(frames) >= 1 {
		vAssert(vAnd(frames[0].opcode == 9, vEqBytes(frames[0].payload, []byte("1"))), "C15.own.ping-payload")
	}
	rcancel()
	<-readDone
	c.CloseNow()
	vObserve("own", err == nil, len(payloads))
}

// C15.own.sched (exploration mode): two concurrent Pings and a reader; the peer answers (once both pings are out) with
// the two pongs in either order, or with only one of them. Each Ping returns nil iff its own payload came back.
func verifC15_two() {
	client := vParam("client", 1) == 1
	vInstallRand()
	mk := func(f vFrame) vFrame {
		f.masked = !client
		if f.masked {
			copy(f.key[:], vBytes("key", 4))
		}
		return f
	}
	order := vChoose("pongs", 4) // 0: "1","2"  1: "2","1"  2: only "1"  3: only "2"
	var in []vFrame
	switch order {
	case 0:
		in = []vFrame{mk(vFrame{fin: true, opcode: 10, payload: []byte("1")}), mk(vFrame{fin: true, opcode: 10, payload: []byte("2")})}
	case 1:
		in = []vFrame{mk(vFrame{fin: true, opcode: 10, payload: []byte("2")}), mk(vFrame{fin: true, opcode: 10, payload: []byte("1")})}
	case 2:
		in = []vFrame{mk(vFrame{fin: true, opcode: 10, payload: []byte("1")})}
	case 3:
		in = []vFrame{mk(vFrame{fin: true, opcode: 10, payload: []byte("2")})}
	}
	t := vNewTransport(vEncodeFrames(in))
	t.endMode = vEndBlock
	t.vGate(0, 2) // the pongs arrive once both pings are on the wire
	c := vNewConn(t, client, nil, 16, 64)
	res := make(chan [2]interface{}, 2)
	vGhostExplore(vParam("preempt", 1))
	rctx, rcancel := context.WithTimeout(vBG, 5*time.Second)
	ping := func() {
		ctx, cancel := context.WithTimeout(vBG, 2*time.Second)
		// which payload this ping carries is decided by the library's counter: read it back from the registry after the call
		err := c.Ping(ctx)
		cancel()
		res <- [2]interface{}{err, nil}
	}
	go ping()
	go ping()
	c.Reader(rctx) // the harness goroutine is the reader: it handles the pongs until its context ends
	r1 := <-res
	r2 := <-res
	vGhostExploreOff()
	vReach("C15.two.returned")
	okCount := 0
	if r1[0] == nil {
		okCount++
	}
	if r2[0] == nil {
		okCount++
	}
	want := 2
	if order >= 2 {
		want = 1
	}
	vAssert(okCount == want, "C15.two.each-ping-matched-to-its-own-pong")
	frames, ok := vParseWritten(t.out)
	vAssert(vAnd(ok, len(frames) >= 2), "C15.two.pings-written")
	rcancel()
	c.CloseNow()
	vObserve("two", order, okCount)
}

// C15.closing: the close handshake reads the connection too. A Ping that arrives after the local Close frame went out and
// before the peer's Close frame (the peer had not seen our Close yet) is answered with the identical payload (RFC 6455
// 5.5.2: "unless it already received a Close frame"), and the handshake then completes: the peer's Close frame is read
// and Close returns nil.
func verifC15_closing() {
	client := vParam("client", 1) == 1
	vInstallRand()
	mk := func(f vFrame) vFrame {
		f.masked = !client
		if f.masked {
			copy(f.key[:], vBytes("key", 4))
		}
		return f
	}
	var peer []vFrame
	var pings [][]byte
	nPings := 1 + vChoose("pings", 2)
	for i := 0; i < nPings; i++ {
		p := vBytes("ping", vPingLens[vChoose("plen", vParam("plens", 3))])
		pings = append(pings, p)
		peer = append(peer, mk(vFrame{fin: true, opcode: 9, payload: p}))
	}
	peer = append(peer, mk(vFrame{fin: true, opcode: 8, payload: []byte{0x03, 0xe8}}))
	t := vNewTransport(vEncodeFrames(peer))
	t.endMode = vEndBlock
	t.vGate(0, 1) // the peer's frames arrive once our Close frame is on the wire
	c := vNewConn(t, client, nil, 16, 256)
	err := c.Close(StatusNormalClosure, "")
	vReach("C15.closing.returned")
	frames, ok := vParseWritten(t.out)
	vAssert(ok, "C15.closing.wellformed")
	var pongs [][]byte
	nClose := 0
	for _, f := range frames {
		switch f.opcode {
		case 10:
			pongs = append(pongs, f.payload)
		case 8:
			nClose++
		}
	}
	pk := len(pongs) == len(pings)
	if pk {
		for i := range pongs {
			pk = vAnd(pk, vEqBytes(pongs[i], pings[i]))
		}
	}
	vAssert(pk, "C15.closing.ping-before-peer-close-answered")
	vAssert(nClose == 1, "C15.closing.one-close-frame")
	// everything the peer sent was consumed: the handshake saw the peer's Close frame
	vAssert(t.pos == len(t.in), "C15.closing.peer-close-read")
	vAssert(err == nil, "C15.closing.close-returns-nil-on-echo")
	vObserve("closing", vWireSummary(t.out), err == nil)
}

// C15.three: three Pings whose lifetimes overlap in the one way that lets a payload be reused: A and B are outstanding,
// A's pong arrives and A returns, then C starts while B is still waiting. The peer answers faithfully (B's payload, then
// C's). Pings outstanding at the same time carry different payloads, B returns nil on the pong with B's payload and C
// only on the pong with C's.
func verifC15_three() {
	client := vParam("client", 1) == 1
	vInstallRand()
	t := vNewTransport(nil)
	t.endMode = vEndBlock
	c := vNewConn(t, client, nil, 32, 64)
	c.CloseRead(vBG)
	pong := func(p []byte) {
		f := vFrame{fin: true, opcode: 10, masked: !client, payload: p}
		if f.masked {
			copy(f.key[:], vBytes("key", 4))
		}
		t.vFeed(vEncodeFrame(f))
	}
	pingPayloads := func() [][]byte {
		frs, _ := vParseWritten(t.out)
		var out [][]byte
		for _, f := range frs {
			if f.opcode == 9 {
				out = append(out, f.payload)
			}
		}
		return out
	}
	res := make([]chan error, 3)
	start := func(i int) {
		res[i] = make(chan error, 1)
		go func() {
			ctx, cancel := context.WithTimeout(vBG, 20*time.Second)
			defer cancel()
			res[i] <- c.Ping(ctx)
		}()
		vGhostSettle()
	}
	returned := func(i int) (bool, error) {
		select {
		case e := <-res[i]:
			return true, e
		default:
			return false, nil
		}
	}
	start(0)
	start(1)
	ps := pingPayloads()
	vAssert(len(ps) == 2, "C15.three.two-pings-on-the-wire")
	if len(ps) != 2 {
		c.CloseNow()
		return
	}
	vAssert(vNot(vEqBytes(ps[0], ps[1])), "C15.own.outstanding-pings-have-different-payloads")
	pong(ps[0])
	vGhostSettle()
	okA, eA := returned(0)
	vAssert(vAnd(okA, eA == nil), "C15.own.first-ping-returns-on-its-pong")
	start(2)
	ps = pingPayloads()
	vAssert(len(ps) == 3, "C15.three.third-ping-on-the-wire")
	if len(ps) != 3 {
		c.CloseNow()
		return
	}
	vAssert(vNot(vEqBytes(ps[1], ps[2])), "C15.own.outstanding-pings-have-different-payloads")
	vReach("C15.three.overlap")
	pong(ps[1]) // B's pong
	vGhostSettle()
	okB, eB := returned(1)
	vAssert(vAnd(okB, eB == nil), "C15.own.second-ping-returns-on-its-own-pong")
	okC, _ := returned(2)
	if vNot(vEqBytes(ps[1], ps[2])) {
		vAssert(vNot(okC), "C15.own.third-ping-not-completed-by-anothers-pong")
	}
	if !okC {
		pong(ps[2])
		vGhostSettle()
		okC2, eC := returned(2)
		vAssert(vAnd(okC2, eC == nil), "C15.own.third-ping-returns-on-its-own-pong")
	}
	c.CloseNow()
	vObserve("c15three", len(ps))
}

// C15.busy-writer: two Pings arrive while a local writer is stuck in the transport in the middle of a frame (it holds the
// frame lock); then the writer goes on. Each Ping is answered by a Pong with its own payload, in the order received.
func verifC15_busy_writer() {
	client := vParam("client", 1) == 1
	vInstallRand()
	mk := func(f vFrame) vFrame {
		f.masked = !client
		if f.masked {
			copy(f.key[:], vBytes("key", 4))
		}
		return f
	}
	p1, p2 := vBytes("p1", 1+vChoose("n1", 2)), vBytes("p2", 1+vChoose("n2", 2))
	t := vNewTransport(nil)
	t.endMode = vEndBlock
	t.holdAt = 1
	c := vNewConn(t, client, nil, 32, 64)
	wdone := make(chan error, 1)
	go func() { wdone <- c.Write(vBG, MessageBinary, vBytes("w", 2)) }()
	vGhostSettle() // the writer is inside its frame, holding the frame lock
	c.CloseRead(vBG)
	t.vFeed(vEncodeFrame(mk(vFrame{fin: true, opcode: 9, payload: p1})))
	vGhostSettle()
	t.vFeed(vEncodeFrame(mk(vFrame{fin: true, opcode: 9, payload: p2})))
	vGhostSettle()
	close(t.release)
	vAssert(<-wdone == nil, "C15.busy.writer-ok")
	vGhostSettle()
	time.Sleep(time.Second)
	vReach("C15.busy.released")
	frs, ok := vParseWritten(t.out)
	vAssert(ok, "C15.busy.wellformed")
	var pongs [][]byte
	for _, f := range frs {
		if f.opcode == 10 {
			pongs = append(pongs, f.payload)
		}
	}
	good := len(pongs) == 2
	if good {
		good = vAnd(vEqBytes(pongs[0], p1), vEqBytes(pongs[1], p2))
	}
	vAssert(good, "C15.echo.pongs-carry-their-pings-payload-in-order")
	c.CloseNow()
	vObserve("c15busy", len(pongs))
}

// C15.unsolicited: a Pong nobody is waiting for (a heartbeat of the peer, a late answer to a Ping that timed out) is
// ignored: the Ping and the message behind it are handled as usual and the connection stays open, also well after the
// read that met the Pong has returned.
func verifC15_unsolicited() {
	client := vParam("client", 1) == 1
	vInstallRand()
	mk := func(f vFrame) vFrame {
		f.masked = !client
		if f.masked {
			copy(f.key[:], vBytes("key", 4))
		}
		return f
	}
	pp := vBytes("pong", vChoose("pongLen", 3))
	p := vBytes("ping", 1)
	m := vBytes("m", 2)
	wire := vEncodeFrame(mk(vFrame{fin: true, opcode: 10, payload: pp}))
	wire = append(wire, vEncodeFrame(mk(vFrame{fin: true, opcode: 9, payload: p}))...)
	wire = append(wire, vEncodeFrame(mk(vFrame{fin: true, opcode: 1, payload: m}))...)
	t := vNewTransport(wire)
	t.endMode = vEndBlock
	c := vNewConn(t, client, nil, 32, 64)
	ctx, cancel := context.WithTimeout(vBG, 30*time.Second)
	defer cancel()
	typ, got, err := c.Read(ctx)
	vReach("C15.unsolicited.read")
	vAssert(vAnd(err == nil, vAnd(typ == MessageText, vEqBytes(got, m))), "C15.unsolicited.message-behind-the-pong-delivered")
	time.Sleep(10 * time.Second)
	vAssert(vIsOpen(c), "C15.unsolicited.connection-stays-open")
	frs, ok := vParseWritten(t.out)
	vAssert(ok, "C15.unsolicited.wellformed")
	n := 0
	for _, f := range frs {
		if f.opcode == 10 {
			n++
			vAssert(vEqBytes(f.payload, p), "C15.echo.pong-carries-the-pings-payload")
		}
		vAssert(f.opcode != 8, "C15.unsolicited.no-close-frame")
	}
	vAssert(n == 1, "C15.echo.ping-behind-the-pong-answered")
	c.CloseNow()
	vObserve("c15unsol", len(pp), err == nil)
}

// C15.abandoned: a Ping that is abandoned (its context ends while it is still queued behind a writer) after the peer has
// already sent a Pong bearing its payload - peers can predict payloads that are a counter - must leave nothing behind
// that satisfies a later Ping: the next Ping, which nobody answers (or which is answered with the old payload only),
// returns an error when its context ends.
func verifC15_abandoned() {
	client := vParam("client", 1) == 1
	vInstallRand()
	mk := func(f vFrame) vFrame {
		f.masked = !client
		if f.masked {
			copy(f.key[:], vBytes("key", 4))
		}
		return f
	}
	t := vNewTransport(nil)
	t.endMode = vEndBlock
	t.holdAt = 1
	c := vNewConn(t, client, nil, 32, 64)
	wdone := make(chan error, 1)
	go func() { wdone <- c.Write(vBG, MessageBinary, vBytes("w", 2)) }()
	vGhostSettle() // the writer is inside its frame, holding the frame lock
	c.CloseRead(vBG)
	ctx1, cancel1 := context.WithCancel(vBG)
	p1done := make(chan error, 1)
	go func() { p1done <- c.Ping(ctx1) }()
	vGhostSettle() // the Ping is registered and queued behind the writer
	// Pongs for the payloads a counter would produce
	for _, pl := range []string{"1", "0"} {
		t.vFeed(vEncodeFrame(mk(vFrame{fin: true, opcode: 10, payload: []byte(pl)})))
	}
	vGhostSettle()
	cancel1()
	<-p1done
	close(t.release)
	vAssert(<-wdone == nil, "C15.abandoned.writer-ok")
	vGhostSettle()
	again := vChoose("oldPongAgain", 2) == 1
	ctx2, cancel2 := context.WithTimeout(vBG, time.Second)
	p2done := make(chan error, 1)
	go func() { p2done <- c.Ping(ctx2) }()
	vGhostSettle()
	if again {
		t.vFeed(vEncodeFrame(mk(vFrame{fin: true, opcode: 10, payload: []byte("1")})))
	}
	err2 := <-p2done
	cancel2()
	vReach("C15.abandoned.second-ping-returned")
	// was a Pong with the second Ping's payload ever sent by the peer? Only "1" and "0" were: compare with the frame
	frs, ok := vParseWritten(t.out)
	vAssert(ok, "C15.abandoned.wellformed")
	var last []byte
	for _, f := range frs {
		if f.opcode == 9 {
			last = f.payload
		}
	}
	answered := string(last) == "0" || string(last) == "1"
	if !answered {
		vAssert(err2 != nil, "C15.own.nil-only-after-own-pong")
	}
	c.CloseNow()
	vObserve("c15abandoned", err2 != nil)
}

// C15.queued-pings: two Pings are started while a writer holds the frame lock (stuck in the transport): both are
// registered and queued. When the writer gets on, two Ping frames with DIFFERENT payloads go out, and each Ping returns
// nil exactly when the Pong with its own payload has come (the peer answers them in reverse order).
func verifC15_queued_pings() {
	client := vParam("client", 1) == 1
	vInstallRand()
	mk := func(f vFrame) vFrame {
		f.masked = !client
		if f.masked {
			copy(f.key[:], vBytes("key", 4))
		}
		return f
	}
	t := vNewTransport(nil)
	t.endMode = vEndBlock
	t.holdAt = 1
	c := vNewConn(t, client, nil, 32, 64)
	wdone := make(chan error, 1)
	go func() { wdone <- c.Write(vBG, MessageBinary, vBytes("w", 2)) }()
	vGhostSettle()
	c.CloseRead(vBG)
	ctx, cancel := context.WithTimeout(vBG, 3*time.Second)
	defer cancel()
	p1, p2 := make(chan error, 1), make(chan error, 1)
	go func() { p1 <- c.Ping(ctx) }()
	vGhostSettle()
	go func() { p2 <- c.Ping(ctx) }()
	vGhostSettle()
	close(t.release)
	vAssert(<-wdone == nil, "C15.queued-pings.writer-ok")
	vGhostSettle()
	frs, ok := vParseWritten(t.out)
	vAssert(ok, "C15.queued-pings.wellformed")
	var pings [][]byte
	for _, f := range frs {
		if f.opcode == 9 {
			pings = append(pings, f.payload)
		}
	}
	vReach("C15.queued-pings.sent")
	vAssert(len(pings) == 2, "C15.queued-pings.two-ping-frames")
	if len(pings) != 2 {
		c.CloseNow()
		return
	}
	vAssert(!vEqBytes(pings[0], pings[1]), "C15.own.concurrent-pings-carry-different-payloads")
	// the peer answers the second Ping frame first
	t.vFeed(vEncodeFrame(mk(vFrame{fin: true, opcode: 10, payload: pings[1]})))
	vGhostSettle()
	n := len(p1) + len(p2)
	vAssert(n == 1, "C15.own.one-pong-completes-one-ping")
	t.vFeed(vEncodeFrame(mk(vFrame{fin: true, opcode: 10, payload: pings[0]})))
	e1, e2 := <-p1, <-p2
	vAssert(e1 == nil && e2 == nil, "C15.own.each-ping-completed-by-its-own-pong")
	c.CloseNow()
	vObserve("c15queued", len(pings))
}
