package websocket

import (
	"bufio"
	"errors"
	"net"
	"net/http"
	"strings"
	"time"
)

// vRespWriter is the http.ResponseWriter + http.Hijacker handed to accept.
type vRespWriter struct {
	hdr              http.Header
	code             int
	codes            []int
	body             []byte
	hijacks          int
	canHijack        bool
	conn             *vNetConn
	brw              *bufio.ReadWriter
	hdrAtWriteHeader http.Header
}

func (w *vRespWriter) Header() http.Header { return w.hdr }
func (w *vRespWriter) Write(p []byte) (int, error) {
	w.body = append(w.body, p...)
	return len(p), nil
}
func (w *vRespWriter) WriteHeader(code int) {
	w.codes = append(w.codes, code)
	if w.code == 0 {
		w.code = code
		w.hdrAtWriteHeader = w.hdr.Clone()
	}
}
func (w *vRespWriter) Hijack() (net.Conn, *bufio.ReadWriter, error) {
	w.hijacks++
	return w.conn, w.brw, nil
}

// vPlainWriter is a ResponseWriter that cannot be hijacked.
type vPlainWriter struct{ vRespWriter }

func (w *vPlainWriter) Hijack() {}

type vNetConn struct{ *vTransport }

func (c *vNetConn) LocalAddr() net.Addr                { return websocketAddr{} }
func (c *vNetConn) RemoteAddr() net.Addr               { return websocketAddr{} }
func (c *vNetConn) SetDeadline(t time.Time) error      { return nil }
func (c *vNetConn) SetReadDeadline(t time.Time) error  { return nil }
func (c *vNetConn) SetWriteDeadline(t time.Time) error { return nil }

// vConcreteKeys: 16 bytes (valid), valid with surrounding white space, 15 bytes, 17 bytes and 18 bytes (both 24 characters
// long, like a valid key), 32 bytes, 24 characters that are not base64, missing padding, empty.
var vConcreteKeys = []string{
	"dGhlIHNhbXBsZSBub25jZQ==",
	" dGhlIHNhbXBsZSBub25jZQ== ",
	"AAAAAAAAAAAAAAAAAAAA",
	"zc3Nzc3Nzc3Nzc3Nzc3Nzc0=",
	"AAAAAAAAAAAAAAAAAAAAAAAA",
	"AAAAAAAAAAAAAAAAAAAAAAAAAAAAAAAAAAAAAAAAAAA=",
	"!!!!!!!!!!!!!!!!!!!!!!==",
	"dGhlIHNhbXBsZSBub25jZQ",
	"",
	"dGhlIHNhbXBsZSBub25jZQ==\u00a0", // the valid key followed by U+00A0: not base64 of 16 bytes (optional white space in a header is SP / HTAB)
	"\u0085dGhlIHNhbXBsZSBub25jZQ==",
}

const vGUID = "258EAFA5-E914-47DA-95CA-C5AB0DC85B11"

func vRefAcceptKey(key string) string {
	return vUFStr("b64", vUFStr("sha1", key+vGUID))
}

// vRefTokens: comma separated, white space trimmed tokens of all values of a header (same primitives, own loop).
func vRefHasToken(values []string, token string) bool {
	found := false
	for _, v := range values {
		for _, t := range strings.Split(strings.Trim(v, " \t"), ",") {
			if vRefAsciiFold {
				// concrete values: HTTP tokens are ASCII, and so is their case-insensitivity
				found = vOr(found, vAsciiEqualFold(strings.Trim(t, " \t"), token))
			} else {
				found = vOr(found, strings.EqualFold(strings.Trim(t, " \t"), token))
			}
		}
	}
	return found
}

// vRefAsciiFold: the reference compares tokens with ASCII case folding written out (runs on concrete header values; on
// symbolic strings the engine's summary of strings.EqualFold is the ASCII one already).
var vRefAsciiFold bool

// vRefAsciiTrim: on concrete keys the reference trims optional white space as HTTP defines it (SP, HTAB), not the
// Unicode white space strings.TrimSpace removes.
var vRefAsciiTrim bool

func vSymValues(tag string, maxN int) []string {
	n := vChoose(tag+".n", maxN+1)
	var vs []string
	for i := 0; i < n; i++ {
		vs = append(vs, vString(tag))
	}
	return vs
}

func vSetHeader(h http.Header, key string, vals []string) {
	if len(vals) > 0 {
		h[key] = vals
	}
}

// vSymRequest: an upgrade request whose method, version, and header values are arbitrary strings.
func vSymRequest(maxVals int) (*http.Request, map[string][]string) {
	if vParam("foldFocus", 0) == 1 {
		// everything is a fixed valid upgrade request except the Connection and Upgrade values: concrete token lists in
		// mixed case, and look-alikes that equal the token only under Unicode case folding (U+017F LONG S, U+212A KELVIN SIGN)
		vRefAsciiFold = true
		r := &http.Request{Method: "GET", ProtoMajor: 1, ProtoMinor: 1, Header: http.Header{}, Host: "example.com"}
		ups := []string{"websocket", "WebSocket", "h2c, WEBSOCKET", "web\u017focket", "websoc\u212aet", "h2c, WEB\u017fOC\u212aET", "websockets", "websocket\u00a0", "h2c,\u0085websocket"}
		cons := []string{"Upgrade", "keep-alive, uPGRADE", "keep-alive", "upgrade\u017f"}
		hv := map[string][]string{"Connection": {cons[vChoose("con", len(cons))]}, "Upgrade": {ups[vChoose("up", len(ups))]}, "Sec-Websocket-Version": {"13"}, "Sec-Websocket-Key": {vConcreteKeys[0]}}
		for k, v := range hv {
			vSetHeader(r.Header, k, v)
		}
		return r, hv
	}
	if vParam("verFocus", 0) == 1 {
		// everything is a fixed valid upgrade request except the version: 13 and other spellings of the number 13 (only
		// the text "13" is the version), other versions, lists
		r := &http.Request{Method: "GET", ProtoMajor: 1, ProtoMinor: 1, Header: http.Header{}, Host: "example.com"}
		vers := []string{"13", "013", "+13", "0013", "13.0", "1_3", "0xd", "8", "14", "13, 8", "8, 13", ""}
		hv := map[string][]string{"Connection": {"Upgrade"}, "Upgrade": {"websocket"}, "Sec-Websocket-Version": {vers[vChoose("ver", len(vers))]}, "Sec-Websocket-Key": {vConcreteKeys[0]}}
		for k, v := range hv {
			vSetHeader(r.Header, k, v)
		}
		return r, hv
	}
	if vParam("keyFocus", 0) == 1 {
		vRefAsciiTrim = true
		// everything but the key is a fixed valid upgrade request; the key is one of the concrete boundary keys, given
		// once or twice
		r := &http.Request{Method: "GET", ProtoMajor: 1, ProtoMinor: 1, Header: http.Header{}, Host: "example.com"}
		hv := map[string][]string{"Connection": {"Upgrade"}, "Upgrade": {"websocket"}, "Sec-Websocket-Version": {"13"}}
		keys := []string{vConcreteKeys[vChoose("ckey", len(vConcreteKeys))]}
		if vChoose("twoKeys", 2) == 1 {
			keys = append(keys, vConcreteKeys[0])
		}
		hv["Sec-Websocket-Key"] = keys
		for k, v := range hv {
			vSetHeader(r.Header, k, v)
		}
		return r, hv
	}
	r := &http.Request{Method: vString("method"), ProtoMajor: vInt("major", 0, 3), ProtoMinor: vInt("minor", 0, 2), Header: http.Header{}, Host: vString("host")}
	hv := map[string][]string{}
	hv["Connection"] = vSymValues("connection", maxVals)
	hv["Upgrade"] = vSymValues("upgrade", maxVals)
	hv["Sec-Websocket-Version"] = vSymValues("version", 1)
	hv["Sec-Websocket-Key"] = vSymValues("key", 2)
	if vParam("symKey", 1) == 0 {
		// a concrete, valid key: no uninterpreted base64 on the path, so every counterexample replays natively
		hv["Sec-Websocket-Key"] = []string{"dGhlIHNhbXBsZSBub25jZQ=="}
		if n := vParam("ckeys", 0); n > 0 {
			// ... or one of a few concrete keys around the validity boundary (the reference evaluates the real base64 on them)
			hv["Sec-Websocket-Key"] = []string{vConcreteKeys[vChoose("ckey", n)]}
		}
	}
	for k, v := range hv {
		vSetHeader(r.Header, k, v)
	}
	return r, hv
}

// vRefRequestOK: the RFC 6455 section 4.2.1 predicate on the request (key: what DecodeString says about the trimmed key).
func vRefRequestOK(r *http.Request, hv map[string][]string) bool {
	protoOK := vOr(r.ProtoMajor > 1, vAnd(r.ProtoMajor == 1, r.ProtoMinor >= 1))
	ok := vAnd(protoOK, vEqStr(r.Method, "GET"))
	ok = vAnd(ok, vRefHasToken(hv["Connection"], "upgrade"))
	ok = vAnd(ok, vRefHasToken(hv["Upgrade"], "websocket"))
	ver := ""
	if len(hv["Sec-Websocket-Version"]) > 0 {
		ver = hv["Sec-Websocket-Version"][0]
	}
	ok = vAnd(ok, vEqStr(ver, "13"))
	if len(hv["Sec-Websocket-Key"]) != 1 {
		return false
	}
	// (optional white space of a header field is SP / HTAB: RFC 7230 3.2.3)
	key := strings.Trim(hv["Sec-Websocket-Key"][0], " \t")
	return vAnd(ok, vAnd(vUFBool("b64Decodes", key), vUFBool("b64Is16Bytes", key)))
}

// C11.verify: verifyClientRequest returns nil iff the request satisfies the reference predicate, else a status >= 400.
func verifC11_verify() {
	r, hv := vSymRequest(vParam("maxVals", 1))
	w := &vRespWriter{hdr: http.Header{}}
	code, err := verifyClientRequest(w, r)
	vReach("C11.verify.decided")
	want := vRefRequestOK(r, hv)
	if err == nil {
		vReach("C11.verify.accepted")
		vAssert(want, "C11.verify.accepts-only-valid")
		vAssert(code == 0, "C11.verify.code-zero")
	} else {
		vReach("C11.verify.rejected")
		vAssert(vNot(want), "C11.verify.rejects-only-invalid")
		vAssert(code >= 400, "C11.verify.error-status")
	}
	vObserve("verify", err == nil, code)
}

// C11.accept + C12.origin: accept() end to end with a stub ResponseWriter/Hijacker: the connection is taken over iff the
// request is valid and the origin authorised; then 101 with the right headers (Accept key, chosen subprotocol);
// otherwise an error status (403 for the origin) and no take-over.
func verifC11_accept() {
	focus := vParam("focus", 0) // 0: everything symbolic; 1: valid request (symbolic key), subprotocols; 2: valid request, origin
	var r *http.Request
	var hv map[string][]string
	if focus == 0 {
		r, hv = vSymRequest(vParam("maxVals", 1))
	} else {
		r = &http.Request{Method: "GET", ProtoMajor: 1, ProtoMinor: 1, Header: http.Header{}, Host: vString("host")}
		hv = map[string][]string{"Connection": {"keep-alive, Upgrade"}, "Upgrade": {"websocket"}, "Sec-Websocket-Version": {"13"}, "Sec-Websocket-Key": {vString("key")}}
		if vParam("symKey", 1) == 0 {
			// a canonical key, and a key that decodes to 16 bytes without being the canonical spelling of them (the
			// unused low bits of the last symbol are set): the Accept value is a function of the key TEXT
			hv["Sec-Websocket-Key"] = []string{[]string{"dGhlIHNhbXBsZSBub25jZQ==", "MDEyMzQ1Njc4OWFiY2RlZh=="}[vChoose("validKey", 2)]}
		}
		if focus == 3 {
			r.Host = "example.com"
		} else if vChoose("breakRequest", 3) == 1 {
			r.Method = "POST" // one representative invalid request: the error path of accept
		}
		for k, v := range hv {
			vSetHeader(r.Header, k, v)
		}
	}
	var origin, cprotos []string
	opts := &AcceptOptions{InsecureSkipVerify: true}
	if focus != 1 && focus != 3 {
		origin = vSymValues("origin", 1)
		vSetHeader(r.Header, "Origin", origin)
		opts.InsecureSkipVerify = vBool("skipVerify")
		for i := 0; i < vChoose("patterns", vParam("maxPatterns", 1)+1); i++ {
			opts.OriginPatterns = append(opts.OriginPatterns, vString("pattern"))
		}
	}
	if focus == 3 {
		// concrete grid: the offer on one or two header lines, each a small token list; the server's preference list
		// (k1/s1: a client offer that equals them only under Unicode case folding - U+212A KELVIN SIGN, U+017F LONG S - is
		// another protocol)
		vRefAsciiFold = true
		lines := []string{"v1", "v2", "v1, v2", "V3,v1", "", "\u212a1, v1", "\u017f1"}
		for i := 0; i < 1+vChoose("cprotoLines", 2); i++ {
			if i == 0 {
				cprotos = append(cprotos, lines[vChoose("cprotoLine", len(lines))])
			} else {
				cprotos = append(cprotos, lines[vChoose("cprotoLine", 5)])
			}
		}
		vSetHeader(r.Header, "Sec-Websocket-Protocol", cprotos)
		sp := []string{"v2", "v1", "k1", "s1"}
		for i := 0; i < vChoose("sprotos", 3); i++ {
			opts.Subprotocols = append(opts.Subprotocols, sp[vChoose("sproto", len(sp))])
		}
	} else if focus != 2 {
		cprotos = vSymValues("cproto", 1)
		vSetHeader(r.Header, "Sec-Websocket-Protocol", cprotos)
		for i := 0; i < vChoose("sprotos", 3); i++ {
			opts.Subprotocols = append(opts.Subprotocols, vString("sproto"))
		}
	}
	t := vNewTransport(nil)
	t.endMode = vEndBlock
	w := &vRespWriter{hdr: http.Header{}, conn: &vNetConn{t}}
	w.brw = bufio.NewReadWriter(bufio.NewReaderSize(w.conn, 16), bufio.NewWriterSize(w.conn, 16))
	c, err := accept(w, r, opts)
	vReach("C11.accept.returned")

	reqOK := vRefRequestOK(r, hv)
	// C12 reference: is the origin authorised?
	originOK := true
	if !opts.InsecureSkipVerify && len(origin) == 1 {
		o := origin[0]
		auth := vEqStr(o, "")
		parsed := vNot(vUFBool("urlParseFails", o))
		uhost := vUFStr("urlHost", o)
		same := strings.EqualFold(r.Host, uhost)
		patOK := false
		blocked := false // an earlier pattern was malformed
		for _, p := range opts.OriginPatterns {
			lp, lh := strings.ToLower(p), strings.ToLower(uhost)
			bad := vUFBool("matchBadPattern", lp)
			hit := vAnd(vNot(bad), vUFBool("match", lp, lh))
			patOK = vOr(patOK, vAnd(vNot(blocked), hit))
			blocked = vOr(blocked, vAnd(vNot(patOK), bad))
		}
		originOK = vOr(auth, vAnd(parsed, vOr(same, patOK)))
	}
	if err == nil {
		vReach("C11.accept.upgraded")
		vAssert(reqOK, "C11.accept.upgrades-only-valid-request")
		vAssert(originOK, "C12.origin.upgrades-only-authorised-origin")
		vAssert(vAnd(w.hijacks == 1, c != nil), "C11.accept.hijacked-once")
		vAssert(vAnd(w.code == 101, len(w.codes) == 1), "C11.accept.status-101")
		h := w.hdrAtWriteHeader
		vAssert(vAnd(vEqStr(h.Get("Upgrade"), "websocket"), vEqStr(h.Get("Connection"), "Upgrade")), "C11.accept.upgrade-headers")
		key := r.Header.Get("Sec-WebSocket-Key")
		vAssert(vEqStr(h.Get("Sec-WebSocket-Accept"), vRefAcceptKey(key)), "C11.accept.accept-key")
		// subprotocol: the client's spelling of the first server-preferred protocol the client offered
		var offered []string
		for _, v := range cprotos {
			for _, tk := range strings.Split(strings.Trim(v, " \t"), ",") {
				offered = append(offered, strings.Trim(tk, " \t"))
			}
		}
		want := ""
		chosen := false
		for _, sp := range opts.Subprotocols {
			for _, cp := range offered {
				eq := strings.EqualFold(sp, cp)
				if vRefAsciiFold {
					eq = vAsciiEqualFold(sp, cp)
				}
				hit := vAnd(vNot(chosen), eq)
				if hit {
					want = cp
					chosen = true
				}
			}
		}
		vAssert(vEqStr(h.Get("Sec-WebSocket-Protocol"), want), "C11.accept.subprotocol")
		if c != nil {
			vAssert(vEqStr(c.Subprotocol(), want), "C11.accept.conn-subprotocol")
			c.CloseNow()
		}
	} else {
		vReach("C11.accept.refused")
		vAssert(vOr(vNot(reqOK), vNot(originOK)), "C11.accept.refuses-only-invalid-or-unauthorised")
		vAssert(vAnd(w.hijacks == 0, c == nil), "C11.accept.not-taken-over")
		vAssert(w.code >= 400, "C11.accept.error-status")
		if reqOK {
			vReach("C12.origin.refused")
			vAssert(w.code == 403, "C12.origin.status-403")
			vAssert(vEqStr(w.hdrAtWriteHeader.Get("Sec-WebSocket-Accept"), ""), "C12.origin.no-upgrade-headers")
		}
	}
	vObserve("accept", err == nil, w.code)
}

// C11.hijack: a ResponseWriter that cannot be hijacked gets 501 and no upgrade; C11.reinject: bytes the server had
// already buffered when the connection is taken over are read by the new Conn before the bytes that arrive later.
func verifC11_reinject() {
	r := &http.Request{Method: "GET", ProtoMajor: 1, ProtoMinor: 1, Header: http.Header{}, Host: "example.com"}
	r.Header.Set("Connection", "Upgrade")
	r.Header.Set("Upgrade", "websocket")
	r.Header.Set("Sec-WebSocket-Version", "13")
	r.Header.Set("Sec-WebSocket-Key", "dGhlIHNhbXBsZSBub25jZQ==")
	if vChoose("plainWriter", 2) == 1 {
		w := &vPlainWriter{vRespWriter{hdr: http.Header{}}}
		_, err := accept(w, r, nil)
		vReach("C11.hijack.unsupported")
		vAssert(vAnd(err != nil, w.code == 501), "C11.hijack.not-implemented")
		return
	}
	// one masked binary message, split between what the http server already buffered and what is still on the wire
	f := vFrame{fin: true, opcode: 2, masked: true, payload: vBytes("m", 3)}
	copy(f.key[:], vBytes("key", 4))
	wire := vEncodeFrame(f)
	k := vChoose("buffered", len(wire)+1)
	t := vNewTransport(wire)
	t.endMode = vEndBlock
	t.first = k
	w := &vRespWriter{hdr: http.Header{}, conn: &vNetConn{t}}
	br := bufio.NewReaderSize(w.conn, 32)
	if k > 0 {
		br.Peek(1) // the server's reader has pulled the first k bytes off the connection together with the request
	}
	w.brw = bufio.NewReadWriter(br, bufio.NewWriterSize(w.conn, 32))
	c, err := accept(w, r, nil)
	vAssert(vAnd(err == nil, c != nil), "C11.reinject.accepted")
	if err != nil {
		return
	}
	vAssert(vEqStr(w.hdrAtWriteHeader.Get("Sec-WebSocket-Accept"), "s3pPLMBiTxaQ9kYGzzhZRbK+xOo="), "C11.accept.rfc-sample-key")
	typ, b, rerr := c.Read(vBG)
	vReach("C11.reinject.read")
	vAssert(vAnd(rerr == nil, vAnd(typ == MessageBinary, vEqBytes(b, f.payload))), "C11.reinject.in-order-exactly-once")
	c.CloseNow()
	vObserve("reinject", k, b)
}

var _ = errors.New

// vRefSplitTokens: an independent comma / optional-white-space splitter over bytes (no strings package).
func vRefSplitTokens(v []byte, sep byte) [][]byte {
	// list elements of a header field (',') are surrounded by optional white space = SP / HTAB (RFC 7230); the parameters
	// of an extension (';') are trimmed of all ASCII white space by the library, which is its own choice
	isWS := func(c byte) bool {
		if sep == ',' {
			return c == ' ' || c == '\t'
		}
		return c == ' ' || c == '\t' || c == '\n' || c == '\v' || c == '\f' || c == '\r'
	}
	trim := func(b []byte) []byte {
		for len(b) > 0 && isWS(b[0]) {
			b = b[1:]
		}
		for len(b) > 0 && isWS(b[len(b)-1]) {
			b = b[:len(b)-1]
		}
		return b
	}
	var out [][]byte
	start := 0
	for i := 0; i <= len(v); i++ {
		if i == len(v) || v[i] == sep {
			out = append(out, trim(v[start:i]))
			start = i + 1
		}
	}
	return out
}

// C11.tokens / C14.tokens: the tokenizers themselves (headerTokens: real strings.Split / TrimSpace from their SSA, forking
// per byte) on every header value of up to maxLen ASCII bytes against an independent splitter; websocketExtensions' name /
// parameter structure against the same splitter applied at ';'.
func verifC11_tokens() {
	n := vChoose("len", vParam("maxLen", 4)+1)
	raw := vBytes("hv", n)
	for _, c := range raw {
		vAssume(c < 0x80)
	}
	h := http.Header{}
	h["X-Test"] = []string{string(raw)}
	toks := headerTokens(h, "x-test")
	want := vRefSplitTokens(raw, ',')
	vReach("C11.tokens.split")
	ok := len(toks) == len(want)
	if ok {
		for i := range toks {
			ok = vAnd(ok, vEqStr(toks[i], string(want[i])))
		}
	}
	vAssert(ok, "C11.tokens.equal-independent-splitter")
	if vParam("ext", 0) == 1 {
		h2 := http.Header{}
		h2["Sec-Websocket-Extensions"] = []string{string(raw)}
		exts := websocketExtensions(h2)
		var wantExts [][][]byte
		for _, t := range want {
			if len(t) == 0 {
				continue
			}
			wantExts = append(wantExts, vRefSplitTokens(t, ';'))
		}
		ok2 := len(exts) == len(wantExts)
		if ok2 {
			for i, e := range exts {
				ok2 = vAnd(ok2, vAnd(vEqStr(e.name, string(wantExts[i][0])), len(e.params) == len(wantExts[i])-1))
				if len(e.params) == len(wantExts[i])-1 {
					for j, p := range e.params {
						ok2 = vAnd(ok2, vEqStr(p, string(wantExts[i][1+j])))
					}
				}
			}
		}
		vAssert(ok2, "C14.tokens.structure")
		vReach("C14.tokens.split")
	}
	vObserve("tokens", raw, len(toks))
}
