package websocket

import (
	"bufio"
	"context"
	"errors"
	"io"
	"net"
	"time"
)

// C05.mu: one step of mu.lock / tryLock / unlock / forceLock from an arbitrary state (token present or not, connection
// closed or not, context done or not), under every choice Go's select may make: lock returning nil means the caller
// holds the token and the connection was open at the re-check; lock returning an error means no token was taken.
func verifC05_mu() {
	vInstallRand()
	t := vNewTransport(nil)
	t.endMode = vEndBlock
	c := vNewConn(t, true, nil, 16, 16)
	m := newMu(c)
	held := vChoose("held", 2) == 1
	closedBefore := vChoose("closed", 2) == 1
	ctxDone := vChoose("ctxDone", 2) == 1
	if held {
		m.forceLock()
	}
	if closedBefore {
		c.CloseNow()
	}
	ctx, cancel := context.WithCancel(vBG)
	if ctxDone {
		cancel()
	}
	switch vChoose("opn", 3) {
	case 0:
		if held && !closedBefore && !ctxDone {
			// would block forever (correctly): bound it
			ctx2, cancel2 := context.WithTimeout(vBG, time.Second)
			ctx = ctx2
			defer cancel2()
		}
		err := m.lock(ctx)
		vReach("C05.mu.lock")
		if err == nil {
			vReach("C05.mu.lock-ok")
			vAssert(len(m.ch) == 1, "C05.mu.lock-holds-token")
			vAssert(vNot(held), "C05.mu.lock-exclusive")
			vAssert(vNot(closedBefore), "C05.mu.lock-not-on-closed")
		} else {
			vReach("C05.mu.lock-err")
			want := 0
			if held {
				want = 1
			}
			vAssert(len(m.ch) == want, "C05.mu.lock-error-takes-nothing")
			if closedBefore && !ctxDone {
				vAssert(errors.Is(err, net.ErrClosed), "C05.mu.lock-closed-error")
			}
		}
	case 1:
		ok := m.tryLock()
		vReach("C05.mu.trylock")
		vAssert(ok == !held, "C05.mu.trylock-result")
		vAssert(len(m.ch) == 1, "C05.mu.trylock-token")
	case 2:
		m.unlock()
		vReach("C05.mu.unlock")
		vAssert(len(m.ch) == 0, "C05.mu.unlock-releases")
		m.unlock() // a second unlock is a no-op, never blocks
		vAssert(len(m.ch) == 0, "C05.mu.unlock-idempotent")
	}
	cancel()
	c.CloseNow()
	vObserve("mu", held, closedBefore, ctxDone)
}

// C05.frame-atomic + C05.msg-lock: on every path through a write program (both roles, transport failing at any write),
// every byte reaches the transport while the caller holds writeFrameMu, the token is back afterwards, and msgWriter.mu
// is held exactly from Writer() to the successful Close() (released by Write on the single-frame path).
func verifC05_locks() {
	client := vParam("client", 1) == 1
	vInstallRand()
	t := vNewTransport(nil)
	t.endMode = vEndBlock
	c := vNewConn(t, client, nil, 16, 16)
	t.probe = func() int { return len(c.writeFrameMu.ch)*2 + len(c.msgWriter.mu.ch) }
	t.writeErrAt = vChoose("failAt", 4) // 0: never
	api := vChoose("api", 3)
	n := vChoose("n", vParam("maxN", 14)+1)
	p := vBytes("p", n)
	var err error
	switch api {
	case 0:
		err = c.Write(vBG, MessageBinary, p)
	case 1:
		var w interface {
			Write([]byte) (int, error)
			Close() error
		}
		w, err = c.Writer(vBG, MessageText)
		if err == nil {
			vAssert(len(c.msgWriter.mu.ch) == 1, "C05.msg-lock.held-after-Writer")
			cut := vChoose("cut", n+1)
			_, err = w.Write(p[:cut])
			if err == nil {
				vAssert(len(c.msgWriter.mu.ch) == 1, "C05.msg-lock.held-between-chunks")
				_, err = w.Write(p[cut:])
			}
			if err == nil {
				err = w.Close()
			}
		}
	case 2:
		ctx, cancel := context.WithCancel(vBG)
		cancel()
		err = c.Ping(ctx) // the frame may or may not be written; either way atomically
	}
	vReach("C05.locks.done")
	ok := true
	for _, pr := range t.probes {
		ok = vAnd(ok, pr&2 == 2)
		if api != 2 {
			ok = vAnd(ok, pr&1 == 1)
		}
	}
	vAssert(ok, "C05.frame-atomic.lock-held-at-every-transport-write")
	if len(t.probes) > 1 {
		vReach("C05.locks.multi-write-frame")
	}
	if vIsOpen(c) {
		// (once the connection is closed the close path keeps the token for good)
		vAssert(len(c.writeFrameMu.ch) == 0, "C05.frame-atomic.token-released")
	}
	if err == nil {
		vReach("C05.locks.success")
		vAssert(len(c.msgWriter.mu.ch) == 0, "C05.msg-lock.released-after-success")
	}
	c.CloseNow()
	vObserve("locks", api, err == nil, t.probes)
}

// C05.msg-lock.parked: while one message is being written (its transport write is held up) a second writer parks on the
// message lock; once the first message is done the parked writer owns the lock alone: a third writer must wait for it.
func verifC05_parked() {
	client := vParam("client", 1) == 1
	vInstallRand()
	t := vNewTransport(nil)
	t.endMode = vEndBlock
	c := vNewConn(t, client, vCopts(vParam("deflate", 0)), 16, 256)
	c.flateThreshold = 4
	t.holdWrites = 1
	firstDone := make(chan error, 1)
	data := []byte("aaaaaaaabbbbbbbbaaaaaaaa") // above the threshold: takes the compression path when negotiated
	go func() {
		if vParam("firstViaWriter", 0) == 1 {
			w, err := c.Writer(vBG, MessageText)
			if err == nil {
				_, err = w.Write(data)
			}
			if err == nil {
				err = w.Close()
			}
			firstDone <- err
			return
		}
		firstDone <- c.Write(vBG, MessageText, data)
	}()
	vGhostSettle() // the first writer is now stuck in its transport write, holding the message lock
	second := make(chan interface{ Close() error }, 1)
	go func() {
		w, err := c.Writer(vBG, MessageBinary)
		if err != nil {
			second <- nil
			return
		}
		second <- w
	}()
	vGhostSettle() // the second writer is parked on the message lock
	close(t.release)
	err1 := <-firstDone
	w2 := <-second
	vReach("C05.parked.second-has-writer")
	vAssert(vAnd(err1 == nil, w2 != nil), "C05.parked.setup")
	if frs, ok := vParseWritten(t.out); ok && len(frs) > 0 && frs[0].rsv1 {
		vReach("C05.parked.first-message-compressed")
	}
	// the second writer is open: nobody else may get a writer now
	ctx, cancel := context.WithTimeout(vBG, time.Second)
	w3, err3 := c.Writer(ctx, MessageText)
	cancel()
	vAssert(err3 != nil, "C05.parked.third-writer-must-wait")
	_ = w3
	if w2 != nil {
		w2.Close()
	}
	c.CloseNow()
	vObserve("parked", err3 != nil)
}

// C05.sched (exploration mode): two writers (one Write, one streaming Writer with two chunks) and optionally a pinger run
// concurrently; every interleaving at synchronisation operations within the preemption bound is explored, every select
// choice forked. The wire must decode to well-formed frames, frames of the two messages never interleave, and each
// received message equals one written message.
func verifC05_sched() {
	client := vParam("client", 1) == 1
	vInstallRand()
	t := vNewTransport(nil)
	t.endMode = vEndBlock
	c := vNewConn(t, client, nil, 16, 16)
	a := vBytes("a", 2)
	// b1len=5 makes the header of the streaming writer's second frame straddle the 16-byte write buffer at a client: the
	// frame is then written to the transport in two pieces, with a scheduling point in the middle of it
	b1, b2 := vBytes("b", vParam("b1len", 1)), vBytes("b", 1)
	withPing := vParam("ping", 0) == 1
	both := vParam("writers", 2) == 2
	done := make(chan error, 3)
	vGhostExplore(vParam("preempt", 2))
	if both {
		go func() {
			done <- c.Write(vBG, MessageBinary, a)
		}()
	} else {
		done <- nil
	}
	go func() {
		w, err := c.Writer(vBG, MessageText)
		if err == nil {
			_, err = w.Write(b1)
		}
		if err == nil {
			_, err = w.Write(b2)
		}
		if err == nil {
			err = w.Close()
		}
		done <- err
	}()
	n := 2
	if withPing {
		n = 3
		go func() {
			ctx, cancel := context.WithCancel(vBG)
			cancel()
			c.Ping(ctx)
			done <- nil
		}()
	}
	ok := true
	for i := 0; i < n; i++ {
		ok = vAnd(ok, <-done == nil)
	}
	vGhostExploreOff()
	vReach("C05.sched.finished")
	if withPing {
		// a ping with a cancelled context closes the connection: writers may legitimately fail afterwards
		ok = true
	}
	vAssert(ok, "C05.sched.writers-succeed")
	frames, wf := vParseWritten(t.out)
	// (a connection closed under a writer -- the cancelled ping does that -- may leave a cut frame at the very end)
	vAssert(vOr(wf, withPing && !vIsOpen(c)), "C05.sched.wellformed")
	var msgs [][]byte
	var types []uint8
	var cur []byte
	inMsg := false
	good := true
	for _, f := range frames {
		good = vAnd(good, vAnd(f.masked == client, vNot(vOr(f.rsv1, vOr(f.rsv2, f.rsv3)))))
		switch {
		case f.opcode >= 8:
			good = vAnd(good, f.fin)
			continue
		case f.opcode == 0:
			good = vAnd(good, inMsg)
			cur = append(cur, f.payload...)
		default:
			good = vAnd(good, vNot(inMsg))
			inMsg = true
			types = append(types, f.opcode)
			cur = append([]byte{}, f.payload...)
		}
		if f.fin {
			msgs = append(msgs, cur)
			inMsg = false
		}
	}
	vAssert(good, "C05.sched.frames-not-interleaved")
	if !withPing {
		vAssert(vAnd(len(msgs) == 2, !inMsg), "C05.sched.message-count")
	}
	bb := append(append([]byte{}, b1...), b2...)
	for i, m := range msgs {
		if types[i] == 2 {
			vAssert(vEqBytes(m, a), "C05.sched.message-equals-written")
		} else {
			vAssert(vEqBytes(m, bb), "C05.sched.message-equals-written")
		}
	}
	c.CloseNow()
	vObserve("sched", len(msgs))
}

// vWireSequenceOK checks that the data frames on the wire form whole messages one after the other (control frames may
// sit between fragments): no message starts inside another, no continuation without a start.
func vWireSequenceOK(frames []vFrame, client bool) (good bool, inMsg bool, nMsgs int) {
	good = true
	for _, f := range frames {
		good = vAnd(good, f.masked == client)
		switch {
		case f.opcode >= 8:
			good = vAnd(good, f.fin)
			continue
		case f.opcode == 0:
			good = vAnd(good, inMsg)
		default:
			good = vAnd(good, vNot(inMsg))
			inMsg = true
		}
		if f.fin {
			inMsg = false
			nMsgs++
		}
	}
	return
}

// C05.abandoned: a streaming writer whose context ends before its Close went through leaves its message unfinished on
// the wire. As long as the connection stays open nobody else may start a message (it would land inside the unfinished
// one): a second writer must fail or wait, and whatever reached the wire is still a sequence of whole messages followed
// by at most one unfinished one. Every choice Go's select may make at the lock acquisitions is explored.
func verifC05_abandoned() {
	client := vParam("client", 1) == 1
	vInstallRand()
	t := vNewTransport(nil)
	t.endMode = vEndBlock
	c := vNewConn(t, client, vCopts(vParam("deflate", 0)), 16, 32)
	a := vBytes("a", 2)
	b := vBytes("b", 2)
	ctx1, cancel1 := context.WithCancel(vBG)
	w, err := c.Writer(ctx1, MessageText)
	vAssert(err == nil, "C05.abandoned.setup")
	_, err = w.Write(a)
	vAssert(err == nil, "C05.abandoned.setup")
	when := vChoose("cancel", 3)
	if when == 1 {
		cancel1()
	}
	var cerr error
	if when != 2 {
		cerr = w.Close()
	} // when == 2: the application simply never closes its writer
	ctx2, cancel2 := context.WithTimeout(vBG, time.Second)
	err2 := c.Write(ctx2, MessageBinary, b)
	cancel2()
	cancel1()
	vReach("C05.abandoned.second-write-returned")
	frames, wf := vParseWritten(t.out)
	vAssert(wf, "C05.abandoned.wellformed")
	good, inMsg, n := vWireSequenceOK(frames, client)
	vAssert(good, "C05.abandoned.no-message-inside-another")
	if when == 0 {
		vAssert(vAnd(cerr == nil, err2 == nil), "C05.abandoned.closed-writer-lets-the-next-in")
		vAssert(vAnd(n == 2, !inMsg), "C05.abandoned.both-messages-whole")
	}
	if (when == 1 && cerr != nil) || when == 2 {
		vReach("C05.abandoned.first-message-unfinished")
		// (whether the second writer fails, waits, or the library finishes / aborts the first message for it is the
		// implementation's choice: the property is about the wire, asserted above)
		if err2 == nil {
			vReach("C05.abandoned.second-writer-went-ahead")
		}
	}
	c.CloseNow()
	vObserve("abandoned", when, cerr == nil, err2 == nil)
}

// C05.midframe: a streaming writer is held up inside a transport write at every point of its message (its frames are
// written in several pieces because the write buffer is small), and while it is stuck another goroutine tries to ping,
// to write, or to start a message with a context that ends; then the writer goes on. The peer must receive exactly the
// writer's message: whatever the other call does while it queues for the frame lock must not leak into the frame in
// progress (the scratch header, the masking key and the write buffer are shared by all writers).
func verifC05_midframe() {
	client := vParam("client", 1) == 1
	vInstallRand()
	t := vNewTransport(nil)
	t.endMode = vEndBlock
	c := vNewConn(t, client, nil, 16, 16)
	b1, b2 := vBytes("b", 5), vBytes("b", 12)
	t.holdAt = 1 + vChoose("holdAt", 3)
	done := make(chan error, 1)
	go func() {
		w, err := c.Writer(vBG, MessageText)
		if err == nil {
			_, err = w.Write(b1)
		}
		if err == nil {
			_, err = w.Write(b2)
		}
		if err == nil {
			err = w.Close()
		}
		done <- err
	}()
	vGhostSettle() // the writer is stuck in the transport, in the middle of a frame, holding the frame lock
	ctx, cancel := context.WithCancel(vBG)
	cancel()
	other := vChoose("other", 3)
	var oerr error
	switch other {
	case 0:
		oerr = c.Ping(ctx)
	case 1:
		oerr = c.Write(ctx, MessageBinary, vBytes("o", 1))
	case 2:
		ctx2, cancel2 := context.WithTimeout(vBG, time.Second)
		oerr = c.Ping(ctx2)
		cancel2()
	}
	if vIsOpen(c) && len(done) == 0 && len(t.writes) == t.holdAt-1 {
		// the other call gave up waiting; the writer is still held in the middle of its frame (its held transport write
		// has not returned) and must still hold the frame lock: a call that failed to get the lock has nothing to release
		vAssert(len(c.writeFrameMu.ch) == 1, "C05.midframe.frame-lock-still-held-by-the-writer")
	}
	close(t.release)
	werr := <-done
	vReach("C05.midframe.done")
	frames, wf := vParseWritten(t.out)
	if vIsOpen(c) {
		vReach("C05.midframe.still-open")
		vAssert(werr == nil, "C05.midframe.writer-succeeds")
		vAssert(wf, "C05.midframe.wellformed")
	}
	want := append(append([]byte{}, b1...), b2...)
	var got []byte
	good := true
	finSeen := false
	for _, f := range frames {
		if f.opcode >= 8 {
			continue
		}
		good = vAnd(good, vAnd(f.masked == client, vNot(finSeen)))
		good = vAnd(good, vNot(vOr(f.rsv1, vOr(f.rsv2, f.rsv3))))
		got = append(got, f.payload...)
		if f.fin {
			finSeen = true
		}
	}
	vAssert(good, "C05.midframe.frames")
	vAssert(vIsPrefix(got, want), "C05.midframe.payload-is-the-writers")
	if werr == nil {
		vAssert(vAnd(finSeen, vEqBytes(got, want)), "C05.midframe.whole-message")
	}
	_ = oerr
	c.CloseNow()
	vObserve("midframe", t.holdAt, other, werr == nil)
}

// C05.pair: what one library endpoint emits when it pings, writes a message and closes (in a fixed order here; the
// interleavings are C05.sched's subject) is handed to a library endpoint of the other role by a transport that splits it
// into pieces of a chosen size. The receiving side must get exactly the message written, answer the Ping with the same
// payload, and see the close status and reason that were sent, wherever the pieces end.
func verifC05_pair() {
	client := vParam("client", 1) == 1 // role of the sender
	vInstallRand()
	// the peer's only contribution: the Pong for the sender's ping, delivered once the ping is on the wire
	pong := vFrame{fin: true, opcode: 10, masked: !client, payload: []byte("10")}
	if pong.masked {
		copy(pong.key[:], vBytes("key", 4))
	}
	ta := vNewTransport(vEncodeFrame(pong))
	ta.endMode = vEndBlock
	ta.vGate(0, 1)
	a := vNewConn(ta, client, nil, 16, 64)
	data := vBytes("data", 3)
	a.pingCounter = 9 // the next ping carries the two-byte payload "10"
	a.CloseRead(vBG)
	vAssert(a.Ping(vBG) == nil, "C05.pair.setup")
	w, err := a.Writer(vBG, MessageText)
	vAssert(err == nil, "C05.pair.setup")
	w.Write(data[:1])
	w.Write(data[1:])
	vAssert(w.Close() == nil, "C05.pair.setup")
	reason := vBytes("reason", 3)
	go a.Close(StatusGoingAway, string(reason))
	vGhostSettle() // the Close frame is out; Close now waits for an answer that will not come
	wire := append([]byte{}, ta.out...)
	sent, ok := vParseWritten(wire)
	vAssert(ok, "C05.pair.sender-wellformed")
	var pings [][]byte
	for _, f := range sent {
		if f.opcode == 9 {
			pings = append(pings, f.payload)
		}
	}
	// the receiving library endpoint
	tb := vNewTransport(wire)
	tb.step = 1 + vChoose("step", vParam("steps", 3))
	tb.first = vChoose("first", 3)
	tb.endMode = vEndBlock
	b := vNewConn(tb, !client, nil, 16, 256)
	g := vReadLoop(b, 2, 2)
	vReach("C05.pair.received")
	okm := len(g.msgs) == 1
	if okm {
		okm = vAnd(g.types[0] == MessageText, vEqBytes(g.msgs[0], data))
	}
	vAssert(okm, "C05.pair.message-equals-written")
	var ce CloseError
	if errors.As(g.err, &ce) {
		vAssert(vAnd(ce.Code == StatusGoingAway, vEqStr(ce.Reason, string(reason))), "C05.pair.close-status-and-reason")
	} else {
		vAssert(false, "C05.pair.close-received")
	}
	vCheckControlReplies(tb, vExpect{pongs: pings, closeRecv: true, closeCode: int(StatusGoingAway), closeReason: reason}, !client, "C05.pair")
	a.CloseNow()
	b.CloseNow()
	vObserve("pair", len(g.msgs), vWireSummary(tb.out))
}

// C05.read-vs-close: a reader is in the middle of a message (it has read part of the first frame's payload) when another
// goroutine calls Close. The close handshake takes over the read side: it discards the rest of the frame and reads on.
// The peer then finishes its message and answers the Close frame, or answers at once, or violates the protocol and
// keeps sending. Conn.Close is casClosing(); closeHandshake(); close(); waitGoroutines(): the harness runs these steps
// itself and lets the reader's pending Read run between any two of them (the schedule in which the reader goroutine is
// the one that runs at that statement boundary). The reader either completes its message correctly or fails, and every
// byte it got is a prefix of its message.
func verifC05_read_vs_close() {
	client := vParam("client", 1) == 1
	vInstallRand()
	mk := func(f vFrame) vFrame {
		f.masked = !client
		if f.masked {
			copy(f.key[:], vBytes("key", 4))
		}
		return f
	}
	msg := vBytes("m", 4)
	f1 := mk(vFrame{fin: false, opcode: 2, payload: msg[:3]})
	f2 := mk(vFrame{fin: true, opcode: 0, payload: msg[3:]})
	var after []vFrame
	peer := vChoose("peer", 3)
	switch peer {
	case 0: // a correct peer: finishes its message, then answers the Close frame
		after = []vFrame{f2, mk(vFrame{fin: true, opcode: 8, payload: []byte{0x03, 0xe8}})}
	case 1: // answers the Close frame at once (its message stays unfinished)
		after = []vFrame{mk(vFrame{fin: true, opcode: 8, payload: []byte{0x03, 0xe8}})}
	case 2: // violates the protocol after our Close frame (reserved bit) and keeps sending
		after = []vFrame{mk(vFrame{fin: true, rsv2: true, opcode: 2, payload: vBytes("junk", 2)}), mk(vFrame{fin: true, opcode: 2, payload: vBytes("junk", 3)})}
	}
	wire := vEncodeFrame(f1)
	gateAt := len(wire)
	wire = append(wire, vEncodeFrames(after)...)
	t := vNewTransport(wire)
	t.endMode = vEndBlock
	t.vGate(gateAt, 1) // what follows the first frame arrives once our Close frame is on the wire
	c := vNewConn(t, client, nil, 16, 64)
	_, r, err := c.Reader(vBG)
	vAssert(err == nil, "C05.read-vs-close.setup")
	p := make([]byte, 1)
	n, err := r.Read(p)
	vAssert(vAnd(err == nil, n == 1), "C05.read-vs-close.setup")
	got := append([]byte{}, p[:n]...)
	var rerr error
	readerRuns := func() {
		for i := 0; i < 4 && rerr == nil; i++ {
			q := make([]byte, 2)
			k, e := r.Read(q)
			got = append(got, q[:k]...)
			rerr = e
		}
	}
	at := 1 + vChoose("readerRunsAfter", 2)
	// --- Conn.Close, statement by statement ---
	vAssert(c.casClosing(), "C05.read-vs-close.setup")
	c.closeHandshake(StatusNormalClosure, "")
	if at == 1 {
		readerRuns()
	}
	c.close()
	if at == 2 {
		readerRuns()
	}
	c.waitGoroutines()
	vReach("C05.read-vs-close.done")
	switch peer {
	case 0:
		vClassify("peer", "finishes-message-then-closes")
	case 1:
		vClassify("peer", "closes-at-once")
	case 2:
		vClassify("peer", "protocol-violation-after-our-close")
	}
	vClassify("reader-runs", []string{"before-handshake", "between-handshake-and-close", "after-close"}[at])
	vAssert(vIsPrefix(got, msg), "C05.read-vs-close.bytes-are-a-prefix-of-the-message")
	if rerr == errEOFBare {
		vReach("C05.read-vs-close.completed")
		vAssert(vEqBytes(got, msg), "C05.read-vs-close.clean-end-only-when-complete")
	}
	c.CloseNow()
	vObserve("read-vs-close", peer, at, len(got))
}

// C05.read-interrupted: a reader is blocked in the middle of a frame (header or payload arrived only in part) when the
// connection is closed locally (CloseNow, Close) or the read's context ends. The read fails, and whatever bytes it hands
// out with the failure are a prefix of the message.
func verifC05_read_interrupted() {
	client := vParam("client", 1) == 1
	vInstallRand()
	mk := func(f vFrame) vFrame {
		f.masked = !client
		if f.masked {
			copy(f.key[:], vBytes("key", 4))
		}
		return f
	}
	first := vBytes("m", 2)
	second := vBytes("m", 4)
	two := vChoose("fragments", 2) == 1
	var wire []byte
	var full []byte
	if two {
		wire = vEncodeFrame(mk(vFrame{fin: false, opcode: 2, payload: first}))
		full = append(full, first...)
		wire = append(wire, vEncodeFrame(mk(vFrame{fin: true, opcode: 0, payload: second}))...)
	} else {
		wire = vEncodeFrame(mk(vFrame{fin: true, opcode: 2, payload: second}))
	}
	full = append(full, second...)
	cut := 1 + vChoose("arrived", len(wire)-1) // at least one byte, never everything
	t := vNewTransport(wire[:cut])
	t.endMode = vEndBlock
	c := vNewConn(t, client, nil, 16, 64)
	ctx, cancel := context.WithCancel(vBG)
	how := vChoose("how", 3)
	vClassify("interrupted-by", []string{"CloseNow", "Close", "context"}[how])
	go func() {
		time.Sleep(time.Second)
		switch how {
		case 0:
			c.CloseNow()
		case 1:
			c.Close(StatusNormalClosure, "")
		default:
			cancel()
		}
	}()
	var got []byte
	_, r, err := c.Reader(ctx)
	if err == nil {
		got, err = vReadAll(r, 1+vChoose("buf", 2)*7)
	}
	vReach("C05.read-interrupted.returned")
	vAssert(err != nil, "C05.read-interrupted.fails")
	vAssert(vIsPrefix(got, full), "C05.read-interrupted.bytes-are-a-prefix")
	cancel()
	c.CloseNow()
	vObserve("c05ri", two, cut, how, len(got))
}

// C05.close-vs-compress: a compressed message is being written (the compressor emits it in several frames, so the writer
// passes through the frame lock more than once while it is inside the compressor) when another goroutine calls CloseNow.
// Every interleaving at synchronisation operations within the preemption bound: the pooled compressor is not handed back
// to the pool while the writer is still using it (pool monitor), and what reached the wire is a prefix of frames.
func verifC05_close_vs_compress() {
	client := vParam("client", 1) == 1
	vInstallRand().concrete = true
	vGhostPoolMode(0)
	vGhostPoolMonitor(true)
	t := vNewTransport(nil)
	t.endMode = vEndBlock
	c := vNewConn(t, client, vCopts(1+vChoose("mode", 2)), 16, 32)
	c.flateThreshold = 8
	doc := []byte(vCorpus[0])
	done := make(chan error, 1)
	vGhostExplore(vParam("preempt", 1))
	go func() {
		done <- c.Write(vBG, MessageText, doc)
	}()
	c.CloseNow()
	<-done
	vGhostExploreOff()
	vReach("C05.close-vs-compress.done")
	vAssertGhost(vGhostPoolViolations() == 0, "C05.pool.compressor-not-pooled-while-in-use")
	vObserve("c05cvc", len(t.out))
}

// C05.stale-race: the io.WriteCloser of a finished message is used again (it must fail: C02.stale-writer) while another
// goroutine writes the next message. "No data race occurs inside the library": whatever the stale call reads must be
// ordered with what the new message's writer sets up. The engine's happens-before analysis reports an unordered pair of
// accesses on any path that executes both, so one sequential schedule per variant is enough; the counterexample is
// confirmed natively under the Go race detector.
func verifC05_stale_race() {
	client := vParam("client", 1) == 1
	vInstallRand()
	t := vNewTransport(nil)
	t.endMode = vEndBlock
	c := vNewConn(t, client, vCopts(vParam("deflate", 0)), 16, 64)
	w, err := c.Writer(vBG, MessageText)
	vAssert(err == nil, "C05.stale-race.setup")
	_, err = w.Write(vBytes("a", 1))
	vAssert(err == nil, "C05.stale-race.setup")
	vAssert(w.Close() == nil, "C05.stale-race.setup")
	staleClose := vChoose("staleOp", 2) == 1
	done := make(chan error, 1)
	go func() {
		ctx, cancel := context.WithTimeout(vBG, time.Second)
		defer cancel()
		if vParam("streamed", 0) == 1 {
			w2, err := c.Writer(ctx, MessageBinary)
			if err == nil {
				_, err = w2.Write([]byte{1})
				if err == nil {
					err = w2.Close()
				}
			}
			done <- err
			return
		}
		done <- c.Write(ctx, MessageBinary, []byte{1})
	}()
	var serr error
	if staleClose {
		serr = w.Close()
	} else {
		_, serr = w.Write([]byte{2})
	}
	vAssert(serr != nil, "C05.stale-race.stale-call-fails")
	vAssert(<-done == nil, "C05.stale-race.fresh-write-succeeds")
	vReach("C05.stale-race.done")
	frames, ok := vParseWritten(t.out)
	good, inMsg, n := vWireSequenceOK(frames, client)
	vAssert(ok && good && !inMsg && n == 2, "C05.stale-race.wire")
	c.CloseNow()
	vObserve("c05stale", len(t.out))
}

// C05.stale-reader: the application has read every payload byte of a message without having seen its end yet (it knew
// the length: io.ReadFull) and then the next message is begun behind its back - by its own next Reader call, or by the
// CloseRead goroutine when the peer sends another message. Reading the first message's reader again must report its end
// (or fail): the bytes of the next message are not bytes of this one. With CloseRead the second reader runs in a library
// goroutine: the accesses of the two must also be ordered (no data race).
func verifC05_stale_reader() {
	client := vParam("client", 1) == 1
	vInstallRand()
	mk := func(f vFrame) vFrame {
		f.masked = !client
		if f.masked {
			copy(f.key[:], vBytes("key", 4))
		}
		return f
	}
	m1 := vBytes("m1", 2)
	m2 := vBytes("m2", 3)
	compressed := vParam("deflate", 0) != 0
	first := vFrame{fin: true, opcode: 2, payload: m1}
	take := 2
	if compressed {
		// a compressed message: the decompressor has taken in the whole frame as soon as the first byte is out, so the
		// application may be anywhere in the message when the frame is "consumed"
		first = vFrame{fin: true, opcode: 2, rsv1: true, payload: vStored(m1, []int{2}, false)}
		take = 1 + vChoose("take", 2)
	}
	t := vNewTransport(vEncodeFrame(mk(first)))
	t.endMode = vEndBlock
	if vParam("peerStalls", 0) == 1 {
		t.writeBlock = true // the peer does not read: the CloseRead goroutine's 1008 Close frame blocks
	}
	c := vNewConn(t, client, vCopts(vParam("deflate", 0)), 32, 64)
	_, r, err := c.Reader(vBG)
	vAssert(err == nil, "C05.stale-reader.setup")
	p := make([]byte, take)
	n, err := io.ReadFull(r, p)
	vAssert(err == nil && n == take && vEqBytes(p, m1[:take]), "C05.stale-reader.first-message")
	how := vChoose("next", 2)
	if how == 0 {
		vClassify("next-message-begun-by", "Reader")
		t.vFeed(vEncodeFrame(mk(vFrame{fin: true, opcode: 2, payload: m2})))
		_, _, err = c.Reader(vBG)
		if take == 2 {
			vAssert(err == nil, "C05.stale-reader.second-reader")
		}
	} else {
		vClassify("next-message-begun-by", "CloseRead")
		c.CloseRead(vBG)
		vGhostSettle()
		t.vFeed(vEncodeFrame(mk(vFrame{fin: true, opcode: 2, payload: m2})))
		vGhostSettle()
	}
	q := make([]byte, 8)
	n, err = r.Read(q)
	vReach("C05.stale-reader.read-again")
	if take == 2 {
		vAssert(n == 0 && err != nil, "C05.stale-reader.finished-message-yields-no-more-bytes")
	} else {
		// the application had not got the whole message yet: whatever it is handed now is the next byte of that message,
		// and a clean end is reported only once every byte has been handed out (C04)
		vAssert(vIsPrefix(q[:n], m1[take:]), "C05.stale-reader.bytes-are-the-messages-own")
		if err == io.EOF {
			vAssert(take+n == 2, "C04.clean-end-only-after-every-byte-was-delivered")
		}
	}
	c.CloseNow()
	vObserve("c05stalereader", n, err == io.EOF)
}

// C05.big-chunk: a streamed writer whose chunk is as large as the write buffer (4096 bytes and more) while another
// goroutine sends a Ping: everything the two write goes through the connection's one buffered writer, so every access
// to it must be ordered by the frame lock (engine: happens-before analysis; natively the Go race detector), and the
// wire carries the message and the Ping frame whole.
func verifC05_big_chunk() {
	client := vParam("client", 1) == 1
	vInstallRand().concrete = true
	t := vNewTransport(nil)
	t.endMode = vEndBlock
	c := newConn(connConfig{rwc: t, client: client, br: bufio.NewReaderSize(t, 64), bw: bufio.NewWriterSize(t, 4096)})
	n := 4096 + vChoose("extra", 2)*1000
	chunk := make([]byte, n)
	for i := range chunk {
		chunk[i] = byte('a' + i%7)
	}
	wdone := make(chan error, 1)
	cont := make(chan struct{})
	go func() {
		w, err := c.Writer(vBG, MessageBinary)
		if err == nil {
			_, err = w.Write(chunk)
		}
		<-cont
		if err == nil {
			err = w.Close()
		}
		wdone <- err
	}()
	// the Ping is sent after the chunk has been written and before the message is closed: nothing orders the two
	// goroutines but the library's own locks
	vGhostSettle()
	ctx, cancel := context.WithTimeout(vBG, time.Second)
	c.Ping(ctx)
	cancel()
	close(cont)
	vAssert(<-wdone == nil, "C05.big-chunk.writer-ok")
	vReach("C05.big-chunk.done")
	frames, ok := vParseWritten(t.out)
	good, inMsg, nMsgs := vWireSequenceOK(frames, client)
	vAssert(ok && good && !inMsg && nMsgs == 1, "C05.big-chunk.wire")
	var got []byte
	for _, f := range frames {
		if f.opcode < 8 {
			got = append(got, f.payload...)
		}
	}
	vAssert(vEqBytes(got, chunk), "C05.big-chunk.message")
	c.CloseNow()
	vObserve("c05bigchunk", len(t.out))
}
