package websocket

import (
	"context"
	"errors"
	"net"
	"time"
)

// C05.mu: one step of mu.lock / tryLock / unlock / forceLock from an arbitrary state (token present or not, connection
// closed or not, context done or not), under every choice Go's select may make: lock returning nil means the caller
// holds the token and the connection was open at the re-check; lock returning an error means no token was taken.
func verifC05_mu() {
	vInstallRand()
	t := vNewTransport(nil)
	t.endMode = vEndBlock
	c := vNewConn(t, true, nil, 16, 16)
	m := newMu(c)
	held := vChoose("held", 2) == 1
	closedBefore := vChoose("closed", 2) == 1
	ctxDone := vChoose("ctxDone", 2) == 1
	if held {
		m.forceLock()
	}
	if closedBefore {
		c.CloseNow()
	}
	ctx, cancel := context.WithCancel(vBG)
	if ctxDone {
		cancel()
	}
	switch vChoose("opn", 3) {
	case 0:
		if held && !closedBefore && !ctxDone {
			// would block forever (correctly): bound it
			ctx2, cancel2 := context.WithTimeout(vBG, time.Second)
			ctx = ctx2
			defer cancel2()
		}
		err := m.lock(ctx)
		vReach("C05.mu.lock")
		if err == nil {
			vReach("C05.mu.lock-ok")
			vAssert(len(m.ch) == 1, "C05.mu.lock-holds-token")
			vAssert(vNot(held), "C05.mu.lock-exclusive")
			vAssert(vNot(closedBefore), "C05.mu.lock-not-on-closed")
		} else {
			vReach("C05.mu.lock-err")
			want := 0
			if held {
				want = 1
			}
			vAssert(len(m.ch) == want, "C05.mu.lock-error-takes-nothing")
			if closedBefore && !ctxDone {
				vAssert(errors.Is(err, net.ErrClosed), "C05.mu.lock-closed-error")
			}
		}
	case 1:
		ok := m.tryLock()
		vReach("C05.mu.trylock")
		vAssert(ok == !held, "C05.mu.trylock-result")
		vAssert(len(m.ch) == 1, "C05.mu.trylock-token")
	case 2:
		m.unlock()
		vReach("C05.mu.unlock")
		vAssert(len(m.ch) == 0, "C05.mu.unlock-releases")
		m.unlock() // a second unlock is a no-op, never blocks
		vAssert(len(m.ch) == 0, "C05.mu.unlock-idempotent")
	}
	cancel()
	c.CloseNow()
	vObserve("mu", held, closedBefore, ctxDone)
}

// C05.frame-atomic + C05.msg-lock: on every path through a write program (both roles, transport failing at any write),
// every byte reaches the transport while the caller holds writeFrameMu, the token is back afterwards, and msgWriter.mu
// is held exactly from Writer() to the successful Close() (released by Write on the single-frame path).
func verifC05_locks() {
	client := vParam("client", 1) == 1
	vInstallRand()
	t := vNewTransport(nil)
	t.endMode = vEndBlock
	c := vNewConn(t, client, nil, 16, 16)
	t.probe = func() int { return len(c.writeFrameMu.ch)*2 + len(c.msgWriter.mu.ch) }
	t.writeErrAt = vChoose("failAt", 4) // 0: never
	api := vChoose("api", 3)
	n := vChoose("n", vParam("maxN", 14)+1)
	p := vBytes("p", n)
	var err error
	switch api {
	case 0:
		err = c.Write(vBG, MessageBinary, p)
	case 1:
		var w interface {
			Write([]byte) (int, error)
			Close() error
		}
		w, err = c.Writer(vBG, MessageText)
		if err == nil {
			vAssert(len(c.msgWriter.mu.ch) == 1, "C05.msg-lock.held-after-Writer")
			cut := vChoose("cut", n+1)
			_, err = w.Write(p[:cut])
			if err == nil {
				vAssert(len(c.msgWriter.mu.ch) == 1, "C05.msg-lock.held-between-chunks")
				_, err = w.Write(p[cut:])
			}
			if err == nil {
				err = w.Close()
			}
		}
	case 2:
		ctx, cancel := context.WithCancel(vBG)
		cancel()
		err = c.Ping(ctx) // the frame may or may not be written; either way atomically
	}
	vReach("C05.locks.done")
	ok := true
	for _, pr := range t.probes {
		ok = vAnd(ok, pr&2 == 2)
		if api != 2 {
			ok = vAnd(ok, pr&1 == 1)
		}
	}
	vAssert(ok, "C05.frame-atomic.lock-held-at-every-transport-write")
	if len(t.probes) > 1 {
		vReach("C05.locks.multi-write-frame")
	}
	if vIsOpen(c) {
		// (once the connection is closed the close path keeps the token for good)
		vAssert(len(c.writeFrameMu.ch) == 0, "C05.frame-atomic.token-released")
	}
	if err == nil {
		vReach("C05.locks.success")
		vAssert(len(c.msgWriter.mu.ch) == 0, "C05.msg-lock.released-after-success")
	}
	c.CloseNow()
	vObserve("locks", api, err == nil, t.probes)
}

// C05.msg-lock.parked: while one message is being written (its transport write is held up) a second writer parks on the
// message lock; once the first message is done the parked writer owns the lock alone: a third writer must wait for it.
func verifC05_parked() {
	client := vParam("client", 1) == 1
	vInstallRand()
	t := vNewTransport(nil)
	t.endMode = vEndBlock
	c := vNewConn(t, client, vCopts(vParam("deflate", 0)), 16, 256)
	c.flateThreshold = 4
	t.holdWrites = 1
	firstDone := make(chan error, 1)
	data := []byte("aaaaaaaabbbbbbbbaaaaaaaa") // above the threshold: takes the compression path when negotiated
	go func() {
		if vParam("firstViaWriter", 0) == 1 {
			w, err := c.Writer(vBG, MessageText)
			if err == nil {
				_, err = w.Write(data)
			}
			if err == nil {
				err = w.Close()
			}
			firstDone <- err
			return
		}
		firstDone <- c.Write(vBG, MessageText, data)
	}()
	vGhostSettle() // the first writer is now stuck in its transport write, holding the message lock
	second := make(chan interface{ Close() error }, 1)
	go func() {
		w, err := c.Writer(vBG, MessageBinary)
		if err != nil {
			second <- nil
			return
		}
		second <- w
	}()
	vGhostSettle() // the second writer is parked on the message lock
	close(t.release)
	err1 := <-firstDone
	w2 := <-second
	vReach("C05.parked.second-has-writer")
	vAssert(vAnd(err1 == nil, w2 != nil), "C05.parked.setup")
	if frs, ok := vParseWritten(t.out); ok && len(frs) > 0 && frs[0].rsv1 {
		vReach("C05.parked.first-message-compressed")
	}
	// the second writer is open: nobody else may get a writer now
	ctx, cancel := context.WithTimeout(vBG, time.Second)
	w3, err3 := c.Writer(ctx, MessageText)
	cancel()
	vAssert(err3 != nil, "C05.parked.third-writer-must-wait")
	_ = w3
	if w2 != nil {
		w2.Close()
	}
	c.CloseNow()
	vObserve("parked", err3 != nil)
}

// C05.sched (exploration mode): two writers (one Write, one streaming Writer with two chunks) and optionally a pinger run
// concurrently; every interleaving at synchronisation operations within the preemption bound is explored, every select
// choice forked. The wire must decode to well-formed frames, frames of the two messages never interleave, and each
// received message equals one written message.
func verifC05_sched() {
	client := vParam("client", 1) == 1
	vInstallRand()
	t := vNewTransport(nil)
	t.endMode = vEndBlock
	c := vNewConn(t, client, nil, 16, 16)
	a := vBytes("a", 2)
	b1, b2 := vBytes("b", 1), vBytes("b", 1)
	withPing := vParam("ping", 0) == 1
	done := make(chan error, 3)
	vGhostExplore(vParam("preempt", 2))
	go func() {
		done <- c.Write(vBG, MessageBinary, a)
	}()
	go func() {
		w, err := c.Writer(vBG, MessageText)
		if err == nil {
			_, err = w.Write(b1)
		}
		if err == nil {
			_, err = w.Write(b2)
		}
		if err == nil {
			err = w.Close()
		}
		done <- err
	}()
	n := 2
	if withPing {
		n = 3
		go func() {
			ctx, cancel := context.WithCancel(vBG)
			cancel()
			c.Ping(ctx)
			done <- nil
		}()
	}
	ok := true
	for i := 0; i < n; i++ {
		ok = vAnd(ok, <-done == nil)
	}
	vGhostExploreOff()
	vReach("C05.sched.finished")
	if withPing {
		// a ping with a cancelled context closes the connection: writers may legitimately fail afterwards
		ok = true
	}
	vAssert(ok, "C05.sched.writers-succeed")
	frames, wf := vParseWritten(t.out)
	vAssert(wf, "C05.sched.wellformed")
	var msgs [][]byte
	var types []uint8
	var cur []byte
	inMsg := false
	good := true
	for _, f := range frames {
		good = vAnd(good, vAnd(f.masked == client, vNot(vOr(f.rsv1, vOr(f.rsv2, f.rsv3)))))
		switch {
		case f.opcode >= 8:
			good = vAnd(good, f.fin)
			continue
		case f.opcode == 0:
			good = vAnd(good, inMsg)
			cur = append(cur, f.payload...)
		default:
			good = vAnd(good, vNot(inMsg))
			inMsg = true
			types = append(types, f.opcode)
			cur = append([]byte{}, f.payload...)
		}
		if f.fin {
			msgs = append(msgs, cur)
			inMsg = false
		}
	}
	vAssert(good, "C05.sched.frames-not-interleaved")
	if !withPing {
		vAssert(vAnd(len(msgs) == 2, !inMsg), "C05.sched.message-count")
	}
	bb := []byte{b1[0], b2[0]}
	for i, m := range msgs {
		if types[i] == 2 {
			vAssert(vEqBytes(m, a), "C05.sched.message-equals-written")
		} else {
			vAssert(vEqBytes(m, bb), "C05.sched.message-equals-written")
		}
	}
	c.CloseNow()
	vObserve("sched", len(msgs))
}
