package websocket

import (
	"context"
	"time"
)

// C09.close: Close / CloseNow against an adversarial peer in every local state; both must return within their
// documented bounds on the ghost clock (timers fire on time, closing the transport releases blocked I/O), and every
// call blocked on the connection returns once it is closed.
func verifC09_close() {
	client := vParam("client", 1) == 1
	vInstallRand()
	mk := func(f vFrame) vFrame {
		f.masked = !client
		if f.masked {
			copy(f.key[:], vBytes("key", 4))
		}
		return f
	}
	state := vChoose("state", 6)
	peer := vChoose("peer", 7)
	stateName := []string{"idle", "message-half-read", "reader-blocked", "closeread-active", "writer-blocked", "after-protocol-error"}[state]
	peerName := []string{"silent", "stalls-inside-frame", "floods-data-never-closes", "never-reads", "eof", "control-frame-then-partial-header", "stalls-inside-control-frame"}[peer]
	vClassify("state", stateName)
	vClassify("peer", peerName)
	var wire []byte
	if state == 5 {
		// a frame with a reserved bit: the application's read fails and the library answers with its own Close frame
		wire = append(wire, vEncodeFrame(mk(vFrame{fin: true, rsv2: true, opcode: 2, payload: vBytes("m", 1)}))...)
	}
	if state == 1 {
		// a two-fragment message whose first fragment is complete; the application reads only part of it
		wire = append(wire, vEncodeFrame(mk(vFrame{fin: false, opcode: 2, payload: vBytes("m", 3)}))...)
	}
	switch peer {
	case 1:
		f := vEncodeFrame(mk(vFrame{fin: state != 1, opcode: uint8(vIteInt(state == 1, 0, 2)), payload: vBytes("m", 4)}))
		k := 1 + vChoose("stallAt", len(f)-1)
		wire = append(wire, f[:k]...)
	case 6:
		// a Close frame (or a Ping) of which only a part arrives: cut anywhere after its first byte, also inside the payload
		cf := mk(vFrame{fin: true, opcode: 8, payload: []byte{0x03, 0xe8, 'o', 'k'}})
		if vChoose("stalledControl", 2) == 1 {
			cf = mk(vFrame{fin: true, opcode: 9, payload: vBytes("m", 3)})
		}
		f := vEncodeFrame(cf)
		k := 1 + vChoose("stallAt", len(f)-1)
		wire = append(wire, f[:k]...)
	case 5:
		// one segment: a complete Pong followed by the first byte(s) of the next frame header, then nothing
		wire = append(wire, vEncodeFrame(mk(vFrame{fin: true, opcode: 10, payload: vBytes("m", 2)}))...)
		next := vEncodeFrame(mk(vFrame{fin: true, opcode: 9, payload: vBytes("m", 1)}))
		wire = append(wire, next[:1+vChoose("hdrPrefix", 1)]...)
	case 2:
		op := uint8(2)
		if state == 1 {
			op = 0
		}
		wire = append(wire, vEncodeFrame(mk(vFrame{fin: true, opcode: op, payload: vBytes("m", 2)}))...)
		wire = append(wire, vEncodeFrame(mk(vFrame{fin: true, opcode: 1, payload: vBytes("m", 1)}))...)
	}
	t := vNewTransport(wire)
	t.endMode = vEndBlock
	if peer == 4 {
		t.endMode = vEndEOF
	}
	if peer == 3 {
		t.writeBlock = true
	}
	c := vNewConn(t, client, nil, 32, 64)
	blocked := make(chan error, 2)
	nBlocked := 0
	switch state {
	case 5:
		_, _, err := c.Read(vBG)
		vAssert(err != nil, "C09.close.setup-violation")
	case 1:
		_, r, err := c.Reader(vBG)
		vAssert(err == nil, "C09.close.setup-reader")
		if err == nil {
			p := make([]byte, 1)
			r.Read(p)
		}
	case 2:
		nBlocked++
		go func() {
			for {
				if _, _, err := c.Read(vBG); err != nil {
					blocked <- err
					return
				}
			}
		}()
		vGhostSettle()
	case 3:
		c.CloseRead(vBG)
		vGhostSettle()
	case 4:
		nBlocked++
		t.writeBlock = true
		go func() {
			blocked <- c.Write(vBG, MessageBinary, vBytes("w", 2))
		}()
		vGhostSettle()
	}
	useCloseNow := vChoose("closenow", 2) == 1
	start := vGhostElapsed()
	var err error
	if useCloseNow {
		vClassify("call", "CloseNow")
		err = c.CloseNow()
	} else {
		vClassify("call", "Close")
		err = c.Close(StatusNormalClosure, "")
	}
	took := vGhostElapsed() - start
	vReach("C09.close.returned")
	if useCloseNow {
		vAssert(took < time.Second+vSlack(), "C09.close.closenow-prompt")
	} else {
		vAssert(took <= 10*time.Second+time.Second+vSlack(), "C09.close.within-documented-bound")
	}
	// every call that was blocked on the connection has returned (with an error)
	for i := 0; i < nBlocked; i++ {
		select {
		case e := <-blocked:
			vAssert(e != nil, "C09.close.blocked-call-error")
		case <-time.After(time.Second):
			vAssert(false, "C09.close.blocked-call-returns")
		}
	}
	vAssert(vNot(vIsOpen(c)), "C09.close.closed")
	// C20: when Close/CloseNow returned without error no goroutine of the connection is left
	if err == nil {
		vReach("C09.close.nil")
		vAssert(vGhostGoroutines() == 0, "C20.exit.no-goroutine-left")
	}
	vObserve("c09", state, peer, useCloseNow)
}

// C09.closeread: the context returned by CloseRead is cancelled promptly once the connection closes, whoever closes it.
func verifC09_closeread() {
	client := vParam("client", 1) == 1
	vInstallRand()
	mk := func(f vFrame) vFrame {
		f.masked = !client
		if f.masked {
			copy(f.key[:], vBytes("key", 4))
		}
		return f
	}
	how := vChoose("how", 5)
	howName := []string{"data-message", "peer-close", "local-closenow", "transport-eof", "protocol-error"}[how]
	vClassify("closed-by", howName)
	var wire []byte
	switch how {
	case 0:
		wire = vEncodeFrame(mk(vFrame{fin: true, opcode: 1, payload: vBytes("m", 1)}))
	case 1:
		wire = vEncodeFrame(mk(vFrame{fin: true, opcode: 8, payload: []byte{0x03, 0xe8}}))
	case 4:
		wire = vEncodeFrame(mk(vFrame{fin: true, opcode: 5}))
	}
	t := vNewTransport(wire)
	t.endMode = vEndBlock
	if how == 3 {
		t.endMode = vEndEOF
	}
	c := vNewConn(t, client, nil, 32, 64)
	ctx := c.CloseRead(vBG)
	if how == 2 {
		vGhostSettle()
		c.CloseNow()
	}
	select {
	case <-c.closed:
	case <-time.After(60 * time.Second):
		vAssert(false, "C09.closeread.connection-closes")
	}
	start := vGhostElapsed()
	select {
	case <-ctx.Done():
	case <-time.After(60 * time.Second):
		vAssert(false, "C09.closeread.cancelled-at-all")
	}
	took := vGhostElapsed() - start
	vReach("C09.closeread.done")
	vAssert(took < time.Second+vSlack(), "C09.closeread.prompt")
	c.CloseNow()
	vAssert(vGhostGoroutines() == 0, "C20.exit.closeread-goroutine-gone")
	vObserve("closeread", how)
}

// C09.late-closeread: the connection has already ended - closed by the library itself when a write's context expired
// against a peer that does not read, by a read that met the peer's Close frame or the end of the transport, or by the
// application - and only then CloseRead is called for the first time. Its context is cancelled promptly, and the
// Close / CloseNow that follows returns promptly (there is nothing to wait for) and leaves no goroutine.
func verifC09_late_closeread() {
	client := vParam("client", 1) == 1
	vInstallRand()
	mk := func(f vFrame) vFrame {
		f.masked = !client
		if f.masked {
			copy(f.key[:], vBytes("key", 4))
		}
		return f
	}
	how := vChoose("how", 4)
	vClassify("ended-by", []string{"write-context-expiry", "peer-close-read", "transport-eof-read", "closenow"}[how])
	var wire []byte
	if how == 1 {
		wire = vEncodeFrame(mk(vFrame{fin: true, opcode: 8, payload: []byte{0x03, 0xe8}}))
	}
	t := vNewTransport(wire)
	t.endMode = vEndBlock
	if how == 2 {
		t.endMode = vEndEOF
	}
	if how == 0 {
		t.writeBlock = true
	}
	c := vNewConn(t, client, nil, 32, 64)
	switch how {
	case 0:
		ctx, cancel := context.WithTimeout(vBG, time.Second)
		err := c.Write(ctx, MessageBinary, vBytes("w", 2))
		cancel()
		vAssert(err != nil, "C09.late-closeread.setup")
	case 1, 2:
		_, _, err := c.Read(vBG)
		vAssert(err != nil, "C09.late-closeread.setup")
	case 3:
		c.CloseNow()
	}
	vGhostSettle()
	if how != 2 {
		// (a read that met the end of the transport fails and ends the read side; the connection itself is closed by the
		// CloseRead reader, which fails at once)
		vAssert(!vIsOpen(c), "C09.late-closeread.setup-connection-over")
	}
	start := vGhostElapsed()
	ctx := c.CloseRead(vBG)
	select {
	case <-ctx.Done():
	case <-time.After(8 * time.Second):
		vAssert(false, "C09.closeread.cancelled-at-all")
	}
	vAssert(vGhostElapsed()-start < time.Second+vSlack(), "C09.closeread.prompt")
	start = vGhostElapsed()
	if vChoose("final", 2) == 1 {
		c.Close(StatusNormalClosure, "")
	} else {
		c.CloseNow()
	}
	vReach("C09.late-closeread.done")
	vAssert(vGhostElapsed()-start < time.Second+vSlack(), "C09.closenow.prompt-after-the-connection-is-over")
	vAssert(vGhostGoroutines() == 0, "C20.exit.closeread-goroutine-gone")
	vObserve("latecloseread", how)
}

// C09.double-pong: a Ping is registered and stuck writing its frame (the peer does not read); the peer sends the Pong
// for it twice (peers can predict counter payloads; duplicates happen). Whatever the reader does with the second one,
// it must not get stuck holding the read lock: CloseNow returns promptly and the Ping and the CloseRead context end.
func verifC09_double_pong() {
	client := vParam("client", 1) == 1
	vInstallRand()
	mk := func(f vFrame) vFrame {
		f.masked = !client
		if f.masked {
			copy(f.key[:], vBytes("key", 4))
		}
		return f
	}
	t := vNewTransport(nil)
	t.endMode = vEndBlock
	t.holdAt = 1
	c := vNewConn(t, client, nil, 32, 64)
	rctx := c.CloseRead(vBG)
	pdone := make(chan error, 1)
	go func() { pdone <- c.Ping(vBG) }()
	vGhostSettle() // the Ping is registered and its frame is held in the transport
	for i := 0; i < 2+vChoose("more", 2); i++ {
		for _, pl := range []string{"1", "0"} {
			t.vFeed(vEncodeFrame(mk(vFrame{fin: true, opcode: 10, payload: []byte(pl)})))
		}
		vGhostSettle()
	}
	start := vGhostElapsed()
	done := make(chan struct{})
	go func() {
		c.CloseNow()
		close(done)
	}()
	select {
	case <-done:
	case <-time.After(8 * time.Second):
		vAssert(false, "C09.closenow.returns")
	}
	vReach("C09.double-pong.closed")
	vAssert(vGhostElapsed()-start < time.Second+vSlack(), "C09.closenow.prompt")
	select {
	case <-pdone:
	case <-time.After(5 * time.Second):
		vAssert(false, "C09.blocked-calls-return-once-closed")
	}
	select {
	case <-rctx.Done():
	case <-time.After(5 * time.Second):
		vAssert(false, "C09.closeread.cancelled-at-all")
	}
	vObserve("c09doublepong", 0)
}
