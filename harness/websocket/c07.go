package websocket

// C07.own: bounded histories on two connections that share the package-level pools (LIFO hits, monitored): every byte a
// connection's reads return was sent on that connection, nothing pooled is used after it was put, nothing is put twice,
// and a connection that reuses pooled state starts from a clean slate.

func vGhostPoolMonitor(on bool) {}

// vBackrefProbe is a DEFLATE fixed-Huffman block consisting of one match (length 3, distance 1) and end-of-block,
// followed by the header of the empty stored block that the stripped 00 00 ff ff tail completes. At the very start of a
// stream the match reaches before the stream: it is only decodable if foreign history was left in the window.
var vBackrefProbe = []byte{0x02, 0x02, 0x00, 0x00}

type vC07Conn struct {
	c       *Conn
	t       *vTransport
	data    []byte // plaintext of its compressed message
	r       interface{ Read([]byte) (int, error) }
	got     []byte
	done    bool
	probe   bool
	gotErr  bool
	started bool
}

func vC07Build(client bool, mode int, tag string, n int, midEvent int, probe bool) *vC07Conn {
	x := &vC07Conn{probe: probe}
	var frames []vFrame
	if probe {
		frames = vDataFrames(vBackrefProbe, nil, 2, true, client)
	} else {
		x.data = vBytes(tag, n)
		payload := vStored(x.data, []int{n}, false)
		switch midEvent {
		case 0:
			if vParam("bfinal", 1) == 1 && vChoose("bfinal", 2) == 1 {
				// the peer ends its DEFLATE stream with a final block (other implementations do): another way to the
				// end of the message through the reader's resource handling
				payload = vStored(x.data, []int{n}, true)
			}
			frames = vDataFrames(payload, nil, 2, true, client)
		case 1: // fragmented with a peer Close frame in the middle of the message
			fs := vDataFrames(payload, []int{len(payload) - 2}, 2, true, client)
			cl := vFrame{fin: true, opcode: 8, masked: !client, payload: []byte{0x03, 0xe8}}
			if cl.masked {
				copy(cl.key[:], vBytes("key", 4))
			}
			frames = []vFrame{fs[0], cl, fs[1]}
		case 2: // fragmented with a protocol violation (reserved opcode) in the middle
			fs := vDataFrames(payload, []int{len(payload) - 2}, 2, true, client)
			bad := vFrame{fin: true, opcode: 3, masked: !client}
			if bad.masked {
				copy(bad.key[:], vBytes("key", 4))
			}
			frames = []vFrame{fs[0], bad, fs[1]}
		}
	}
	// a second plain message keeps the stream going
	frames = append(frames, vDataFrames(vBytes(tag+"2", 1), nil, 1, false, client)...)
	x.t = vNewTransport(vEncodeFrames(frames))
	x.t.endMode = vEndBlock
	x.c = vNewConn(x.t, client, vCopts(mode), 64, 256)
	return x
}

func (x *vC07Conn) open() {
	if x.r != nil || x.done {
		return
	}
	_, r, err := x.c.Reader(vBG)
	x.started = true
	if err != nil {
		x.done = true
		x.gotErr = true
		return
	}
	x.r = r
}

func (x *vC07Conn) read(n int) {
	x.open()
	if x.r == nil {
		return
	}
	p := make([]byte, n)
	k, err := x.r.Read(p)
	x.got = append(x.got, p[:k]...)
	if err != nil {
		x.done = true
		if err.Error() != "EOF" {
			x.gotErr = true
		}
	}
}

func (x *vC07Conn) check(id string) {
	if x.probe {
		// nothing decodable was sent: no byte may come out
		vAssert(len(x.got) == 0, id+".probe-yields-nothing")
		return
	}
	vAssert(vIsPrefix(x.got, x.data), id+".only-own-bytes")
}

func verifC07_own() {
	client := vParam("client", 1) == 1
	mode := vParam("deflate", 1)
	vInstallRand()
	vGhostPoolMode(0)
	vGhostPoolMonitor(true)
	midA := vChoose("midA", 3)
	a := vC07Build(client, mode, "a", 3, midA, false)
	probeB := vChoose("probeB", 2) == 1
	var b *vC07Conn
	nOps := vParam("ops", 4)
	seq := ""
	for i := 0; i < nOps; i++ {
		op := vChoose("op", 7)
		switch op {
		case 0:
			seq += "a1 "
			a.read(1)
		case 1:
			seq += "aAll "
			for k := 0; k < 6 && !a.done; k++ {
				a.read(2)
			}
		case 2: // read again on a reader that already reported its end
			if a.r != nil && a.done {
				seq += "aAgain "
				vReach("C07.own.read-after-end")
				p := make([]byte, 4)
				k, _ := a.r.Read(p)
				a.got = append(a.got, p[:k]...)
			}
		case 3:
			seq += "aCloseNow "
			a.c.CloseNow()
			a.done = true
		case 4:
			seq += "aClose "
			a.c.Close(StatusNormalClosure, "")
			a.done = true
		case 5, 6: // the second connection comes to life / makes progress, taking whatever the pools offer
			if b == nil {
				b = vC07Build(client, mode, "b", 3, 0, probeB)
				vReach("C07.own.second-connection")
			}
			if op == 5 {
				seq += "b1 "
				b.read(1)
			} else {
				seq += "bAll "
				for k := 0; k < 6 && !b.done; k++ {
					b.read(2)
				}
			}
			if b.c.msgReader.dict != nil && !probeB && b.started {
				// with context takeover the window of B holds B's own bytes only
				vAssert(vIsPrefix(b.c.msgReader.dict.buf, b.data), "C07.own.window-holds-own-history")
				vReach("C07.own.window-checked")
			}
		}
	}
	vReach("C07.own.done")
	switch midA {
	case 1:
		vClassify("mid", "peer-close-inside-message")
	case 2:
		vClassify("mid", "violation-inside-message")
	default:
		vClassify("mid", "none")
	}
	a.check("C07.own.A")
	if b != nil {
		b.check("C07.own.B")
	}
	vAssertGhost(vGhostPoolViolations() == 0, "C07.own.pool-discipline")
	a.c.CloseNow()
	if b != nil {
		b.c.CloseNow()
	}
	vObserve("c07", seq, a.got)
}

// C07.inflight: a client connection is closed from one goroutine while a frame of a large uncompressed Write is in flight
// in another (the transport write already in progress still completes: a kernel write). Whatever the library hands back
// to its pools at close, nothing of connection A may surface on a connection B that is opened in that window: B's
// transport carries exactly what B writes.
func verifC07_inflight() {
	vInstallRand().concrete = true
	vGhostPoolMode(0)
	vGhostPoolMonitor(true)
	vGhostPoolDeterministic()
	tA := vNewTransport(nil)
	tA.endMode = vEndBlock
	tA.holdAt = 1
	tA.holdSurvivesClose = true
	a := newConn(connConfig{rwc: tA, client: true, br: getBufioReader(tA), bw: getBufioWriter(tA)})
	payload := make([]byte, 5000)
	for i := range payload {
		payload[i] = 'A'
	}
	done := make(chan error, 1)
	go func() { done <- a.Write(vBG, MessageBinary, payload) }()
	vGhostSettle() // A's writer is inside its frame, in the transport
	cdone := make(chan struct{})
	go func() {
		a.CloseNow()
		close(cdone)
	}()
	vGhostSettle()
	tB := vNewTransport(nil)
	tB.endMode = vEndBlock
	b := newConn(connConfig{rwc: tB, client: true, br: getBufioReader(tB), bw: getBufioWriter(tB)})
	close(tA.release)
	<-done
	<-cdone
	vGhostSettle()
	vReach("C07.inflight.closed")
	vAssert(len(tB.out) == 0 && tB.writesAfterClose == 0, "C07.inflight.nothing-of-A-on-B")
	vAssert(b.Write(vBG, MessageBinary, []byte("B")) == nil, "C07.inflight.B-works")
	frames, ok := vParseWritten(tB.out)
	vAssert(ok && len(frames) == 1 && len(frames[0].payload) == 1 && frames[0].payload[0] == 'B', "C07.inflight.B-carries-exactly-its-own-message")
	vAssertGhost(vGhostPoolViolations() == 0, "C07.inflight.pool-discipline")
	b.CloseNow()
	vObserve("c07inflight", len(tB.out))
}
