package websocket

// C15.isolate: one step of the Pong handler from an arbitrary set of registered pings (distinct symbolic payloads):
// exactly the ping registered under the received payload is signalled, unknown payloads signal nothing.
func verifC15_isolate() {
	client := vParam("client", 1) == 1
	vInstallRand()
	n := 1 + vChoose("active", vParam("maxActive", 3))
	klen := vChoose("klen", 3)
	keys := make([][]byte, n)
	chans := make([]chan struct{}, n)
	for i := range keys {
		keys[i] = vBytes("pk", klen)
		for j := 0; j < i; j++ {
			vAssume(vNot(vEqBytes(keys[i], keys[j])))
		}
	}
	pong := vBytes("pong", klen)
	f := vFrame{fin: true, opcode: 10, payload: pong, masked: !client}
	if f.masked {
		copy(f.key[:], vBytes("key", 4))
	}
	t := vNewTransport(vEncodeFrame(f))
	c := vNewConn(t, client, nil, 16, 64)
	for i := range keys {
		chans[i] = make(chan struct{}, 1)
		c.activePingsMu.Lock()
		c.activePings[string(keys[i])] = chans[i]
		c.activePingsMu.Unlock()
	}
	_, _, err := c.Reader(vBG)
	vAssert(err != nil, "C15.isolate.read-ends")
	vReach("C15.isolate.handled")
	for i := range keys {
		signalled := len(chans[i]) == 1
		vAssert(signalled == vEqBytes(keys[i], pong), "C15.isolate.exact-match")
	}
	c.CloseNow()
	vObserve("isolate", pong, len(chans[0]))
}
