package websocket

import (
	"bufio"
	"context"
	"errors"
	"io"
	"net"
	"time"
)

// C18.stream: bytes written through one NetConn arrive, concatenated and unchanged, through the other for every
// sequence of write sizes (empty writes included) and read buffer sizes.
func verifC18_stream() {
	client := vParam("client", 1) == 1
	vInstallRand()
	ts := vNewTransport(nil)
	ts.endMode = vEndBlock
	bwSize := 32
	if vParam("big", 0) == 1 {
		bwSize = 4096
	}
	snd := vNewConn(ts, client, nil, 16, bwSize)
	big := vParam("big", 0) == 1
	typ := MessageBinary
	nw := 1
	if !big {
		typ = MessageType(1 + vChoose("typ", 2))
		nw = 1 + vChoose("writes", vParam("maxWrites", 3))
	}
	ncs := NetConn(vBG, snd, typ)
	var all []byte
	for i := 0; i < nw; i++ {
		n := vChoose("wlen", vParam("maxLen", 3)+1)
		if big {
			// sizes around the write buffer and the 16-bit length boundary
			n = []int{4095, 4096, 4097, 65535, 65536, 65537}[vChoose("bigLen", 6)]
		}
		p := vBytes("w", n)
		pc := append([]byte{}, p...)
		n, err := ncs.Write(p)
		vAssert(vAnd(err == nil, n == len(p)), "C18.stream.write-result")
		vAssert(vEqBytes(p, pc), "C18.stream.caller-buffer")
		all = append(all, pc...)
		if len(p) == 0 {
			vReach("C18.stream.empty-message")
		}
	}
	tr := vNewTransport(ts.out)
	bufSize := 0
	if big {
		tr.step = 1500 // segment-sized transport reads
		bufSize = []int{1000, 70000}[vChoose("bigBuf", 2)]
	} else {
		tr.step = vChoose("step", 2)
		bufSize = 1 + vChoose("buf", 3)
	}
	rcv := vNewConn(tr, !client, nil, bwSize, 32)
	ncr := NetConn(vBG, rcv, typ)
	var got []byte
	p := make([]byte, bufSize)
	for len(got) < len(all) {
		n, err := ncr.Read(p)
		vAssert(n > 0 || err != nil, "C18.stream.no-zero-read")
		got = append(got, p[:n]...)
		if err != nil {
			break
		}
	}
	vReach("C18.stream.read")
	vAssert(vEqBytes(got, all), "C18.stream.concatenation")
	snd.CloseNow()
	rcv.CloseNow()
	vObserve("stream", got)
}

// C18.eof / C18.type: a peer close with 1000/1001 reads as a sticky io.EOF, any other code as another error; a message
// of the wrong type fails the read and closes the connection with 1003.
func verifC18_end() {
	client := vParam("client", 1) == 1
	vInstallRand()
	mk := func(f vFrame) vFrame {
		f.masked = !client
		if f.masked {
			copy(f.key[:], vBytes("key", 4))
		}
		return f
	}
	var in []vFrame
	in = append(in, mk(vFrame{fin: true, opcode: 2, payload: vBytes("m", 2)}))
	wrongType := vChoose("wrongType", 2) == 1
	var code int64
	if wrongType {
		in = append(in, mk(vFrame{fin: true, opcode: 1, payload: vBytes("m", 1)}))
	} else if vChoose("statusless", 2) == 1 {
		// a Close frame without a payload (what a browser's plain ws.close() sends): status 1005, not a normal closure
		code = 1005
		in = append(in, mk(vFrame{fin: true, opcode: 8}))
		vReach("C18.eof.statusless-close")
	} else {
		pc := vBytes("code", 2)
		code = int64(pc[0])<<8 | int64(pc[1])
		vAssume(vRefValidWireCode(code))
		payload := append(append([]byte{}, pc...), vBytes("reason", vChoose("reasonLen", 2)*3)...)
		in = append(in, mk(vFrame{fin: true, opcode: 8, payload: payload}))
	}
	t := vNewTransport(vEncodeFrames(in))
	t.endMode = vEndBlock
	var c *Conn
	if wrongType && vChoose("peerAddr", 2) == 1 {
		// the transport is a net.Conn whose peer address prints long (a full IPv6 address with port, a unix socket path):
		// whatever the library tells the peer about the failure, the Close frame with 1003 still goes out
		ac := &vAddrConn{vNetConn{t}, vLongAddr("[2a02:8108:8ac0:3a5c:d9f3:4a1c:7be2:91aa]:51234/a/rather/long/unix/socket/path/of/a/peer/that/connected/through/a/proxy")}
		c = newConn(connConfig{rwc: ac, client: client, br: bufio.NewReaderSize(ac, 32), bw: bufio.NewWriterSize(ac, 64)})
	} else {
		c = vNewConn(t, client, nil, 32, 64)
	}
	nc := NetConn(vBG, c, MessageBinary)
	p := make([]byte, 4)
	n, err := nc.Read(p)
	vAssert(vAnd(err == nil, n == 2), "C18.end.first-message")
	n, err = nc.Read(p)
	vReach("C18.end.second-read")
	if wrongType {
		vReach("C18.type.wrong")
		vAssert(vAnd(err != nil, err != io.EOF), "C18.type.read-fails")
		first, nClose, _, _ := vCloseFrames(t.out)
		if nClose == 1 && len(first) >= 2 {
			vAssert(int(first[0])<<8|int(first[1]) == 1003, "C18.type.close-1003")
		} else {
			vAssert(false, "C18.type.close-1003")
		}
		vAssert(vNot(vIsOpen(c)), "C18.type.closed")
	} else {
		isNormal := vOr(code == 1000, code == 1001)
		if err == io.EOF {
			vReach("C18.eof.eof")
			vAssert(isNormal, "C18.eof.only-normal-codes")
			_, err2 := nc.Read(p)
			vAssert(err2 == io.EOF, "C18.eof.sticky")
		} else {
			vReach("C18.eof.error")
			vAssert(vAnd(err != nil, vNot(isNormal)), "C18.eof.normal-codes-are-eof")
		}
		vAssert(n == 0, "C18.eof.no-bytes")
	}
	c.CloseNow()
	vObserve("end", wrongType, code, err == io.EOF)
}

// C18.deadline: a deadline that passes while no call is active makes later calls fail with a deadline error, leaves the
// connection open and usable again after a reset; a deadline that fires during an active call fails that call and
// closes the connection.
func verifC18_deadline() {
	client := vParam("client", 1) == 1
	vInstallRand()
	mk := func(f vFrame) vFrame {
		f.masked = !client
		if f.masked {
			copy(f.key[:], vBytes("key", 4))
		}
		return f
	}
	t := vNewTransport(vEncodeFrame(mk(vFrame{fin: true, opcode: 2, payload: vBytes("m", 2)})))
	t.endMode = vEndBlock
	c := vNewConn(t, client, nil, 32, 64)
	nc := NetConn(vBG, c, MessageBinary)
	side := vChoose("side", 2) // 0 read, 1 write
	// 0 past, 1 future that passes while idle, 2 fires during an active call, 3 past deadline set during an active call,
	// 4 future deadline withdrawn (zero / far future) before it passes, then idle and active use beyond the old instant,
	// 5 a deadline of the other direction is withdrawn: this direction's pending deadline still holds
	when := vChoose("when", 6)
	setDL := func(tm time.Time) {
		if side == 0 {
			nc.SetReadDeadline(tm)
		} else {
			nc.SetWriteDeadline(tm)
		}
	}
	call := func() error {
		if side == 0 {
			p := make([]byte, 2)
			_, err := nc.Read(p)
			return err
		}
		_, err := nc.Write(vBytes("w", 1))
		return err
	}
	switch when {
	case 4:
		setDL(time.Now().Add(time.Second))
		if vChoose("withdraw", 2) == 0 {
			setDL(time.Time{})
		} else {
			setDL(time.Now().Add(time.Hour))
		}
		time.Sleep(2 * time.Second) // idle beyond the withdrawn deadline
		vAssert(call() == nil, "C18.deadline.withdrawn-deadline-does-not-expire")
		// ... and a call that is active beyond another withdrawn deadline stays blocked, the connection open
		if side == 1 {
			t.writeBlock = true
		}
		setDL(time.Now().Add(time.Second))
		setDL(time.Time{})
		res := make(chan error, 1)
		go func() { res <- call() }()
		select {
		case <-res:
			vAssert(false, "C18.deadline.withdrawn-deadline-does-not-interrupt")
		case <-time.After(3 * time.Second):
		}
		vReach("C18.deadline.withdrawn")
		vAssert(vIsOpen(c), "C18.deadline.withdrawn-deadline-leaves-open")
		c.CloseNow()
		<-res
	case 5:
		// this direction has a pending deadline; the other direction's deadline is set and withdrawn meanwhile
		if side == 0 {
			p := make([]byte, 2)
			nc.Read(p) // consume the only message: the next read blocks
		} else {
			t.writeBlock = true
		}
		setDL(time.Now().Add(time.Second))
		if side == 0 {
			nc.SetWriteDeadline(time.Now().Add(time.Hour))
			nc.SetWriteDeadline(time.Time{})
		} else {
			nc.SetReadDeadline(time.Now().Add(time.Hour))
			nc.SetReadDeadline(time.Time{})
		}
		start := vGhostElapsed()
		err := call()
		took := vGhostElapsed() - start
		vReach("C18.deadline.other-direction-withdrawn")
		vAssert(vAnd(err != nil, took < 2*time.Second+vSlack()), "C18.deadline.own-deadline-still-fires")
	case 0, 1:
		mid := side == 0 && vChoose("midMessage", 2) == 1
		if mid {
			// part of the message has been read when the deadline passes: the rest must wait for a reset as well
			p := make([]byte, 1)
			nc.Read(p)
			vReach("C18.deadline.mid-message")
		}
		if when == 0 {
			setDL(time.Now().Add(-time.Second))
		} else {
			setDL(time.Now().Add(time.Second))
		}
		time.Sleep(2 * time.Second) // idle while the deadline passes
		err := call()
		vReach("C18.deadline.idle-expired")
		vAssert(vAnd(err != nil, errors.Is(err, context.DeadlineExceeded)), "C18.deadline.idle-expired-error")
		vAssert(vIsOpen(c), "C18.deadline.idle-expired-still-open")
		err = call()
		vAssert(errors.Is(err, context.DeadlineExceeded), "C18.deadline.stays-expired")
		// reset: zero or a future deadline
		if vChoose("reset", 2) == 0 {
			setDL(time.Time{})
		} else {
			setDL(time.Now().Add(time.Hour))
		}
		err = call()
		vAssert(err == nil, "C18.deadline.usable-after-reset")
	case 3:
		if side == 0 {
			p := make([]byte, 2)
			nc.Read(p)
		} else {
			t.writeBlock = true
		}
		res := make(chan error, 1)
		go func() { res <- call() }()
		vGhostSettle() // the call is now blocked on the transport
		start := vGhostElapsed()
		setDL(time.Now().Add(-time.Second))
		var err error
		select {
		case err = <-res:
		case <-time.After(5 * time.Second):
			vAssert(false, "C18.deadline.past-deadline-interrupts-active-call")
		}
		took := vGhostElapsed() - start
		vReach("C18.deadline.past-during-active")
		vAssert(vAnd(err != nil, took < time.Second+vSlack()), "C18.deadline.past-deadline-interrupts-active-call")
		vGhostSettle()
		vAssert(vNot(vIsOpen(c)), "C18.deadline.active-closes")
	case 2:
		if side == 0 {
			// make the read block: consume the only message first
			p := make([]byte, 2)
			nc.Read(p)
		} else {
			t.writeBlock = true
		}
		setDL(time.Now().Add(time.Second))
		start := vGhostElapsed()
		err := call()
		took := vGhostElapsed() - start
		vReach("C18.deadline.active-expired")
		vAssert(err != nil, "C18.deadline.active-call-fails")
		vAssert(vAnd(took >= time.Second-50*time.Millisecond, took < 2*time.Second+vSlack()), "C18.deadline.active-call-prompt")
		vGhostSettle()
		vAssert(vNot(vIsOpen(c)), "C18.deadline.active-closes")
	}
	c.CloseNow()
	vObserve("deadline", side, when)
}

// C18.stream over a connection with permessage-deflate: compressed messages (DEFLATE stored blocks with symbolic data,
// so the real inflater runs) read through the adapter with buffers smaller than a message: the inflater holds bytes of a
// message back after the last byte of its last frame has been taken off the wire; nothing of the stream may get lost.
func verifC18_stream_deflate() {
	client := vParam("client", 1) == 1
	vInstallRand()
	mode := 1 + vChoose("mode", 2)
	var frames []vFrame
	var all []byte
	nMsgs := 1 + vChoose("msgs", 2)
	for i := 0; i < nMsgs; i++ {
		n := 2 + vChoose("len", 3)
		d := vBytes("d", n)
		all = append(all, d...)
		frames = append(frames, vDataFrames(vStored(d, []int{n}, false), nil, 2, true, client)...)
	}
	tr := vNewTransport(vEncodeFrames(frames))
	tr.endMode = vEndEOF // (a reader that lost part of the stream runs into the end of the transport instead of waiting)
	rcv := vNewConn(tr, client, vCopts(mode), 64, 32)
	ncr := NetConn(vBG, rcv, MessageBinary)
	p := make([]byte, 1+vChoose("buf", 3))
	var got []byte
	for len(got) < len(all) {
		n, err := ncr.Read(p)
		vAssert(n > 0 || err != nil, "C18.stream.no-zero-read")
		got = append(got, p[:n]...)
		if err != nil {
			break
		}
	}
	vReach("C18.stream-deflate.read")
	vAssert(vEqBytes(got, all), "C18.stream.concatenation")
	rcv.CloseNow()
	vObserve("stream-deflate", got)
}

type vLongAddr string

func (a vLongAddr) Network() string { return "tcp" }
func (a vLongAddr) String() string  { return string(a) }

// vAddrConn is a net.Conn over the scripted transport with a chosen peer address.
type vAddrConn struct {
	vNetConn
	remote net.Addr
}

func (c *vAddrConn) RemoteAddr() net.Addr { return c.remote }

// C18.program: the net.Conn adapter driven by a program of steps - Write (0/1/3 bytes), Read (buffer 1/2/8), the peer
// sending a binary message (0/1/3 bytes), a text message (the wrong type), a Close frame (1000, 1001 with reason, 1002,
// without status), time passing, read and write deadlines set in the future / in the past / withdrawn, Close - against a
// model of the byte stream: every Read that has data hands out the next bytes of the concatenation of the peer's
// messages (empty ones skipped), a normal or going-away close reads as io.EOF (for good), anything else is an error; a
// deadline that passed while idle fails the calls of its direction with a deadline error until it is reset, and leaves
// the connection usable; a Read that waits into its deadline fails and the connection is closed; what was written is, in
// order, what the wire carries as binary messages. Reads are only issued when the model knows they return (data, an
// event, or an armed deadline).
func verifC18_program() {
	client := vParam("client", 1) == 1
	steps := vParam("steps", 3)
	lean := vParam("lean", 0)
	vInstallRand()
	mk := func(f vFrame) vFrame {
		f.masked = !client
		if f.masked {
			copy(f.key[:], vBytes("key", 4))
		}
		return f
	}
	t := vNewTransport(nil)
	t.endMode = vEndBlock
	c := vNewConn(t, client, vCopts(vParam("deflate", 0)), 16, 32)
	nc := NetConn(vBG, c, MessageBinary)
	feed := func(f vFrame) { t.vFeed(vEncodeFrame(mk(f))) }
	type ev struct {
		kind int // 0 bytes, 1 wrong type, 2 close
		b    []byte
		code int
	}
	var in []ev
	var written []byte
	open := true             // the connection is usable
	eof := false             // a normal close has been read
	var rd, wd time.Duration // read / write deadline as ghost instants (0: none)
	rdSet, wdSet := false, false
	trace := ""
	lens := []int{0, 1, 3}
	isDeadline := func(err error) bool { return err != nil && errors.Is(err, context.DeadlineExceeded) }
	for i := 0; i < steps; i++ {
		now := vGhostElapsed()
		op := 0
		pick := func(tag string, n, fixed int) int {
			if lean > 0 {
				return fixed
			}
			return vChoose(tag, n)
		}
		switch lean {
		case 1:
			// depth over breadth, read side: Read (1-byte buffer), a 3-byte message, time, the three read-deadline steps, Close 1000
			op = []int{1, 2, 5, 6, 7, 8, 4}[vChoose("op", 7)]
		case 2:
			// write side: Write, time, the three write-deadline steps, a message and a Read
			op = []int{0, 5, 9, 10, 11, 2, 1}[vChoose("op", 7)]
		default:
			op = vChoose("op", 12)
		}
		switch op {
		case 0:
			trace += "W"
			p := vBytes("w", lens[pick("wlen", 3, 1)])
			n, err := nc.Write(p)
			switch {
			case !open:
				vAssert(err != nil, "C18.program.write-fails-on-a-closed-connection")
			case wdSet && now >= wd:
				vAssert(isDeadline(err), "C18.deadline.idle-expiry-fails-writes-with-a-deadline-error")
			default:
				vAssert(err == nil && n == len(p), "C18.program.write-succeeds")
				written = append(written, p...)
			}
		case 1:
			// Read, if the model knows it returns
			bufN := []int{1, 2, 8}[pick("buf", 3, 0)]
			for len(in) > 0 && in[0].kind == 0 && len(in[0].b) == 0 {
				in = in[1:]
			}
			expired := rdSet && now >= rd
			if open && !eof && !expired && len(in) == 0 && !rdSet {
				continue // it would block for ever
			}
			trace += "R"
			p := make([]byte, bufN)
			n, err := nc.Read(p)
			switch {
			case eof && expired:
				// both clauses apply (the stream has ended; the deadline has passed): either report is right
				vAssert(n == 0 && (err == io.EOF || isDeadline(err)), "C18.eof.sticky")
			case eof:
				vAssert(err == io.EOF && n == 0, "C18.eof.sticky")
			case !open:
				vAssert(err != nil && err != io.EOF, "C18.program.read-fails-on-a-closed-connection")
			case expired:
				vAssert(isDeadline(err) && n == 0, "C18.deadline.idle-expiry-fails-reads-with-a-deadline-error")
				vAssert(vIsOpen(c), "C18.deadline.idle-expiry-leaves-the-connection-usable")
			case len(in) == 0:
				// waits into its deadline: the call fails and the connection is closed
				vAssert(err != nil && err != io.EOF, "C18.deadline.active-call-fails")
				vAssert(!vIsOpen(c), "C18.deadline.active-call-closes-the-connection")
				open = false
			case in[0].kind == 0:
				vAssert(err == nil && n >= 1 && n <= len(in[0].b), "C18.stream.read-returns-data")
				if err == nil && n >= 1 && n <= len(in[0].b) {
					vAssert(vEqBytes(p[:n], in[0].b[:n]), "C18.stream.bytes-in-order")
					in[0].b = in[0].b[n:]
					if len(in[0].b) == 0 {
						in = in[1:]
					}
				}
			case in[0].kind == 1:
				vAssert(err != nil && err != io.EOF, "C18.type.read-fails")
				vAssert(!vIsOpen(c), "C18.type.closed")
				open = false
			default:
				if in[0].code == 1000 || in[0].code == 1001 {
					vAssert(err == io.EOF && n == 0, "C18.eof.normal-codes-are-eof")
					eof = true
				} else {
					vAssert(err != nil && err != io.EOF, "C18.eof.only-normal-codes")
				}
				open = false
				in = nil
			}
		case 2:
			trace += "m"
			p := vBytes("m", lens[pick("mlen", 3, 2)])
			feed(vFrame{fin: true, opcode: 2, payload: p})
			in = append(in, ev{kind: 0, b: p})
		case 3:
			trace += "t"
			feed(vFrame{fin: true, opcode: 1, payload: vBytes("t", 1)})
			in = append(in, ev{kind: 1})
		case 4:
			trace += "c"
			switch pick("code", 4, 0) {
			case 0:
				feed(vFrame{fin: true, opcode: 8, payload: []byte{0x03, 0xe8}})
				in = append(in, ev{kind: 2, code: 1000})
			case 1:
				feed(vFrame{fin: true, opcode: 8, payload: []byte{0x03, 0xe9, 'b', 'y', 'e'}})
				in = append(in, ev{kind: 2, code: 1001})
			case 2:
				feed(vFrame{fin: true, opcode: 8, payload: []byte{0x03, 0xea}})
				in = append(in, ev{kind: 2, code: 1002})
			default:
				feed(vFrame{fin: true, opcode: 8})
				in = append(in, ev{kind: 2, code: 1005})
			}
		case 5:
			trace += "s"
			time.Sleep(time.Second)
		case 6:
			trace += "D" // read deadline 1.5 s from now
			nc.SetReadDeadline(time.Now().Add(1500 * time.Millisecond))
			rd, rdSet = now+1500*time.Millisecond, true
		case 7:
			trace += "P" // read deadline already past
			nc.SetReadDeadline(time.Now().Add(-time.Second))
			rd, rdSet = 0, true
		case 8:
			trace += "Z" // read deadline withdrawn
			nc.SetReadDeadline(time.Time{})
			rdSet = false
		case 9:
			trace += "d"
			nc.SetWriteDeadline(time.Now().Add(1500 * time.Millisecond))
			wd, wdSet = now+1500*time.Millisecond, true
		case 10:
			trace += "p"
			nc.SetWriteDeadline(time.Now().Add(-time.Second))
			wd, wdSet = 0, true
		case 11:
			trace += "z"
			nc.SetWriteDeadline(time.Time{})
			wdSet = false
		}
	}
	vReach("C18.program.done")
	c.CloseNow()
	// the wire: binary messages whose payloads, concatenated, are what was written
	frames, ok := vParseWritten(t.out)
	vAssert(ok, "C18.program.wire-wellformed")
	var sent []byte
	for _, f := range frames {
		if f.opcode < 8 {
			vAssert(f.opcode == 2 || f.opcode == 0, "C18.stream.binary-messages")
			sent = append(sent, f.payload...)
		}
	}
	vAssert(vEqBytes(sent, written), "C18.stream.written-bytes-on-the-wire-in-order")
	vAssert(vGhostGoroutines() == 0, "C20.exit.no-goroutine-left")
	vClassify("program", trace)
	vObserve("c18program", trace, vWireSummary(t.out))
}

// C18.midframe-deadline: the peer sends a frame header together with part of its payload and stalls; a read deadline
// fires during the Read that waits for the rest: the call fails and the connection is closed (as for a Read that waits
// for a header).
func verifC18_midframe_deadline() {
	client := vParam("client", 1) == 1
	vInstallRand()
	f := vFrame{fin: true, opcode: 2, masked: !client, payload: vBytes("m", 4)}
	if f.masked {
		copy(f.key[:], vBytes("key", 4))
	}
	enc := vEncodeFrame(f)
	cut := len(enc) - 1 - vChoose("missing", 3) // 1..3 payload bytes never arrive
	t := vNewTransport(enc[:cut])
	t.endMode = vEndBlock
	c := vNewConn(t, client, nil, 32, 64)
	nc := NetConn(vBG, c, MessageBinary)
	nc.SetReadDeadline(time.Now().Add(time.Second))
	start := vGhostElapsed()
	type res struct {
		n   int
		err error
	}
	done := make(chan res, 1)
	go func() {
		p := make([]byte, 8)
		n, err := nc.Read(p)
		done <- res{n, err}
	}()
	select {
	case r := <-done:
		vAssert(r.err != nil && r.err != io.EOF, "C18.deadline.active-call-fails")
	case <-time.After(10 * time.Second):
		vAssert(false, "C18.deadline.active-call-fails")
	}
	vReach("C18.midframe-deadline.returned")
	vAssert(vGhostElapsed()-start < 2*time.Second+vSlack(), "C18.deadline.active-call-fails-at-the-deadline")
	vGhostSettle()
	vAssert(!vIsOpen(c), "C18.deadline.active-call-closes-the-connection")
	c.CloseNow()
	vObserve("c18midframe", cut)
}
