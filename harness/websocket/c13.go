package websocket

import (
	"context"
	"io"
	"net/http"
	"strings"
)

// vExtChoices: concrete Sec-WebSocket-Extensions responses (header lines) and whether a client that offered
// permessage-deflate may accept them (never, if it did not offer it).
var vExtChoices = []struct {
	lines []string
	ok    bool
}{
	{[]string{"permessage-deflate"}, true},
	{[]string{"permessage-deflate; client_no_context_takeover"}, true},
	{[]string{"x-other"}, false},
	{[]string{"permessage-deflate, x-custom-mux"}, false},
	{[]string{"permessage-deflate", "x-other"}, false},
	{[]string{"x-other, permessage-deflate"}, false},
	{[]string{"permessage-deflate; bogus"}, false},
	{[]string{"permessage-deflate, permessage-deflate; client_max_window_bits=9"}, false},
	{[]string{"permessage-deflate; server_no_context_takeover=0"}, false},
	{[]string{"permessage-deflate; client_no_context_takeover=1"}, false},
	{[]string{"permessage-deflate; server_no_context_takeover; server_no_context_takeover"}, false},
}

// C13.response: verifyServerResponse on an arbitrary response (status, header strings, requested subprotocols, client
// compression mode): nil iff status 101, Connection/Upgrade name upgrade/websocket, the Accept value matches the key that
// was sent, the subprotocol is one that was asked for (or none), and the extensions are acceptable (C14.client).
func verifC13_response() {
	mode := CompressionMode(vChoose("mode", vParam("modes", 3)))
	var copts *compressionOptions
	if mode != CompressionDisabled {
		copts = mode.opts()
	}
	opts := &DialOptions{}
	for i := 0; i < vChoose("nasked", vParam("maxAsked", 2)+1); i++ {
		opts.Subprotocols = append(opts.Subprotocols, vString("asked"))
	}
	key := vString("key")
	if vParam("symKey", 1) == 0 {
		key = "dGhlIHNhbXBsZSBub25jZQ==" // concrete key: SHA-1/base64 run for real, counterexamples replay natively
	}
	resp := &http.Response{StatusCode: vInt("status", 100, 599), Header: http.Header{}}
	accFocus := vParam("accFocus", 0) == 1
	extFocus := vParam("extFocus", 0) == 1 || accFocus || vParam("protoFocus", 0) == 1
	if extFocus {
		// everything but the extension header is a fixed valid response
		resp.StatusCode = 101
	}
	conn := vSymValues("connection", 1)
	if extFocus {
		conn = []string{"Upgrade"}
	}
	upg := []string{"websocket"}
	if vParam("symUpgrade", 1) == 1 {
		upg = vSymValues("upgrade", 1)
	}
	acc := vSymValues("accept", 1)
	if vParam("symKey", 1) == 0 && (extFocus || vChoose("rightAccept", 2) == 1) {
		acc = []string{vRefAcceptKey(key)}
	}
	if accFocus {
		// everything but the Accept value is a fixed valid response; the value is the right one or a near miss: another
		// base64 spelling of the same digest (unused low bits of the last symbol set), unpadded, over-padded, upper-cased,
		// given twice. Only the exact text base64(SHA-1(key + GUID)) matches the key (RFC 6455 4.1).
		a := vRefAcceptKey(key)
		switch vChoose("accVariant", 7) {
		case 0:
			acc = []string{a}
		case 1:
			acc = []string{a[:26] + string([]byte{a[26] + 1}) + "="}
		case 2:
			acc = []string{a[:26] + string([]byte{a[26] + 3}) + "="}
		case 3:
			acc = []string{a[:27]}
		case 4:
			acc = []string{a + "="}
		case 5:
			acc = []string{strings.ToUpper(a)}
		case 6:
			acc = []string{a + "x", a}
		}
	}
	proto := vSymValues("proto", 1)
	if extFocus {
		proto = nil
	}
	if vParam("protoFocus", 0) == 1 {
		// everything but the subprotocol is a fixed valid response: asked for "kafka"/"soap", answered with the same, in
		// another case, with a look-alike equal only under Unicode case folding, with something else, with nothing
		opts.Subprotocols = []string{"kafka", "soap"}
		proto = [][]string{{"kafka"}, {"SOAP"}, {"\u212aafka"}, {"\u017foap"}, {"mqtt"}, nil}[vChoose("protoVariant", 6)]
	}
	var ext []string
	extKnown, extHonourable := false, true // concrete responses: whether a client that offered compression may accept them
	if vParam("symExt", 1) == 1 {
		ext = vSymValues("ext", 1)
	} else if k := vChoose("extChoice", vParam("extChoices", 3)+1); k > 0 {
		ext = vExtChoices[k-1].lines
		extKnown, extHonourable = true, vExtChoices[k-1].ok && copts != nil
	}
	vSetHeader(resp.Header, "Connection", conn)
	vSetHeader(resp.Header, "Upgrade", upg)
	vSetHeader(resp.Header, "Sec-Websocket-Accept", acc)
	vSetHeader(resp.Header, "Sec-Websocket-Protocol", proto)
	vSetHeader(resp.Header, "Sec-Websocket-Extensions", ext)
	got, err := verifyServerResponse(opts, copts, key, resp)
	vReach("C13.response.decided")
	first := func(v []string) string {
		if len(v) > 0 {
			return v[0]
		}
		return ""
	}
	ok := resp.StatusCode == 101
	ok = vAnd(ok, vRefHasToken(conn, "upgrade"))
	ok = vAnd(ok, vRefHasToken(upg, "websocket"))
	ok = vAnd(ok, vEqStr(first(acc), vRefAcceptKey(key)))
	p := first(proto)
	protoOK := vEqStr(p, "")
	for _, a := range opts.Subprotocols {
		if vParam("protoFocus", 0) == 1 {
			protoOK = vOr(protoOK, vAsciiEqualFold(a, p))
		} else {
			protoOK = vOr(protoOK, strings.EqualFold(a, p))
		}
	}
	ok = vAnd(ok, protoOK)
	wantOpts, extErr := verifyServerExtensions(copts, resp.Header)
	if err == nil {
		vReach("C13.response.accepted")
		vAssert(ok, "C13.response.accepts-only-valid")
		vAssert(extErr == nil, "C13.response.accepts-only-honourable-extensions")
		if extKnown {
			vAssert(extHonourable, "C13.response.accepts-only-honourable-extensions")
		}
		vAssert((got == nil) == (wantOpts == nil), "C13.response.options")
		if got != nil && wantOpts != nil {
			vAssert(*got == *wantOpts, "C13.response.options")
		}
	} else {
		vReach("C13.response.rejected")
		vAssert(vOr(vNot(ok), extErr != nil), "C13.response.rejects-only-invalid")
		vAssert(got == nil, "C13.response.no-options-on-error")
	}
	vObserve("response", err == nil)
}

// vRoundTripper is the transport of the http.Client handed to dial: it records the request and answers with a scripted
// response whose body is the byte stream of the connection.
type vRoundTripper struct {
	reqs []*http.Request
	resp func(req *http.Request) (*http.Response, error)
}

func (rt *vRoundTripper) RoundTrip(req *http.Request) (*http.Response, error) {
	rt.reqs = append(rt.reqs, req)
	return rt.resp(req)
}

type vBody struct{ *vTransport }

// C13.request + C13.dial: dial() with the HTTP layer stubbed at the RoundTripper: the request that goes out is a
// well-formed upgrade request (mandatory headers replacing caller supplied ones, caller's other headers and Host override
// preserved, subprotocols and the extension offer rendered, a key made of exactly the 16 random bytes of this attempt), and
// a connection is returned iff the response verifies; every error path returns no connection.
func verifC13_dial() {
	// lean=1 pins every dimension except the one a focused run is about (to its first / valid value)
	lean := vParam("lean", 0) == 1
	ch := func(tag string, n int, leanVal int) int {
		if lean {
			return leanVal
		}
		return vChoose(tag, n)
	}
	rnd := vInstallRand()
	rnd.concrete = true // (base64 of arbitrary bytes is a table lookup per character: concrete pattern, two variants)
	rnd.variant = ch("randVariant", 2, 0)
	opts := &DialOptions{HTTPHeader: http.Header{}}
	custom := vString("custom")
	opts.HTTPHeader.Set("X-Custom", custom)
	if ch("callerSetsConnection", 2, 0) == 1 {
		opts.HTTPHeader.Set("Connection", vString("callerConnection"))
		opts.HTTPHeader.Set("Sec-WebSocket-Key", vString("callerKey"))
	}
	hostOverride := ch("hostOverride", 2, 0) == 1
	if hostOverride {
		opts.Host = "override.example"
	}
	nproto := ch("protos", 3, 0)
	for i := 0; i < nproto; i++ {
		opts.Subprotocols = append(opts.Subprotocols, []string{"chat", "superchat"}[i])
	}
	opts.CompressionMode = CompressionMode(ch("mode", 3, 0))
	// the server's answer
	status := vInt("status", 100, 599)
	goodAccept := ch("goodAccept", 2, 1) == 1
	respProto := []string{"", "chat", "other"}[ch("respProto", 3, 0)]
	respConn, respUpg := "Upgrade", "websocket"
	tokensOK := true
	if vParam("tokens", 0) == 1 {
		// token lists in the response's Connection / Upgrade headers: exact tokens (any case, among others) versus
		// near misses that merely contain the word
		conns := []string{"Upgrade", "keep-alive, UPGRADE", "notUpgrade", "keep-alive, upgrade-insecure-requests", "keep-alive"}
		upgs := []string{"websocket", "h2c, WebSocket", "notWebSocket", "h2c, websockets2"}
		ci, ui := vChoose("respConn", len(conns)), vChoose("respUpg", len(upgs))
		respConn, respUpg = conns[ci], upgs[ui]
		tokensOK = ci <= 1 && ui <= 1
	}
	respExt := []string{"", "permessage-deflate", "permessage-deflate; server_no_context_takeover", "x-unknown",
		// a parameter the client did not offer and cannot honour (its compressor's window is fixed)
		"permessage-deflate; client_max_window_bits=10"}[ch("respExt", 5, 0)]
	body := &vBody{vNewTransport(nil)}
	body.endMode = vEndBlock
	rt := &vRoundTripper{}
	rt.resp = func(req *http.Request) (*http.Response, error) {
		h := http.Header{}
		h.Set("Connection", respConn)
		h.Set("Upgrade", respUpg)
		if goodAccept {
			h.Set("Sec-WebSocket-Accept", vRefAcceptKey(req.Header.Get("Sec-WebSocket-Key")))
		} else {
			h.Set("Sec-WebSocket-Accept", vRefAcceptKey("dGhlIHNhbXBsZSBub25jZQ=="))
		}
		if respProto != "" {
			h.Set("Sec-WebSocket-Protocol", respProto)
		}
		if respExt != "" {
			h.Set("Sec-WebSocket-Extensions", respExt)
		}
		return &http.Response{StatusCode: status, Header: h, Body: body}, nil
	}
	opts.HTTPClient = &http.Client{Transport: rt}
	callerKeys := len(opts.HTTPHeader)
	c, resp, err := dial(context.Background(), "ws://example.com/socket?x=1", opts, nil)
	vReach("C13.dial.returned")
	vAssert(len(rt.reqs) == 1, "C13.request.one-request")
	if len(rt.reqs) != 1 {
		return
	}
	req := rt.reqs[0]
	h := req.Header
	vAssert(req.Method == "GET", "C13.request.method")
	vAssert(vAnd(len(h["Connection"]) == 1, vEqStr(h.Get("Connection"), "Upgrade")), "C13.request.connection-replaces-callers")
	vAssert(vEqStr(h.Get("Upgrade"), "websocket"), "C13.request.upgrade")
	vAssert(vEqStr(h.Get("Sec-WebSocket-Version"), "13"), "C13.request.version")
	vAssert(vEqStr(h.Get("X-Custom"), custom), "C13.request.caller-headers-preserved")
	vAssert(vAnd(len(rnd.log) == 16, vAnd(len(h["Sec-Websocket-Key"]) == 1, vEqStr(h.Get("Sec-WebSocket-Key"), vUFStr("b64", string(rnd.log))))), "C13.request.fresh-key")
	if hostOverride {
		vAssert(req.Host == "override.example", "C13.request.host-override")
	} else {
		vAssert(req.Host == "example.com", "C13.request.host-from-url")
	}
	vAssert(vAnd(req.URL.Scheme == "http", req.URL.Host == "example.com"), "C13.request.scheme-translated")
	wantProto := strings.Join(opts.Subprotocols, ",")
	vAssert(vEqStr(h.Get("Sec-WebSocket-Protocol"), wantProto), "C13.request.subprotocols")
	wantExt := ""
	if opts.CompressionMode != CompressionDisabled {
		wantExt = opts.CompressionMode.opts().String()
	}
	vAssert(vEqStr(h.Get("Sec-WebSocket-Extensions"), wantExt), "C13.request.extension-offer")
	// the caller's option struct is not modified
	vAssert(vEqStr(opts.HTTPHeader.Get("X-Custom"), custom), "C13.request.options-not-modified")
	// ... nor the header map it points to: the handshake headers are set on the request's own copy (what is left behind
	// in the caller's map would be sent again by the caller's next Dial, asked for or not)
	vAssert(len(opts.HTTPHeader) == callerKeys, "C13.request.callers-header-map-not-modified")
	// C13.dial
	protoOK := respProto == "" || (respProto == "chat" && nproto >= 1)
	extOK := respExt == "" || (respExt != "x-unknown" && !strings.Contains(respExt, "client_max_window_bits") && opts.CompressionMode != CompressionDisabled)
	want := vAnd(status == 101, goodAccept && protoOK && extOK && tokensOK)
	if err == nil {
		vReach("C13.dial.connected")
		vAssert(want, "C13.dial.connects-only-on-valid-response")
		vAssert(c != nil, "C13.dial.conn-returned")
		if c != nil {
			vAssert(c.Subprotocol() == respProto, "C13.dial.subprotocol")
			vAssert((c.copts != nil) == (respExt != ""), "C13.dial.compression-as-negotiated")
			c.CloseNow()
		}
	} else {
		vReach("C13.dial.failed")
		vAssert(vNot(want), "C13.dial.fails-only-on-invalid-response")
		vAssert(c == nil, "C13.dial.no-conn-on-error")
	}
	_ = resp
	vObserve("dial", err == nil, status)
}

var _ = io.EOF
