package websocket

import (
	"bufio"
	"net/http"
	"strings"
)

// vRefGlob: reference matcher for the patterns used below: '*' matches any run of non-'/' bytes, everything else is
// literal; a '[' makes the pattern malformed (bad = true).
func vRefGlob(pattern, s string) (matched, bad bool) {
	if strings.Contains(pattern, "[") {
		return false, true
	}
	var rec func(p, t string) bool
	rec = func(p, t string) bool {
		if p == "" {
			return t == ""
		}
		if p[0] == '*' {
			for i := 0; i <= len(t); i++ {
				if i > 0 && t[i-1] == '/' {
					break
				}
				if rec(p[1:], t[i:]) {
					return true
				}
			}
			return false
		}
		return t != "" && p[0] == t[0] && rec(p[1:], t[1:])
	}
	return rec(pattern, s), false
}

// C12.grammar: origins built from a grammar (scheme, userinfo tricks, look-alike hosts, ports, the authorised host hidden
// in path / query / fragment, mixed case, "null") against Hosts and pattern sets, executed through the real accept()
// with the real url.Parse and filepath.Match interpreted from their SSA. The oracle knows the true origin host by
// construction. (Concrete enumeration inside the engine: it complements C12.origin, where url.Parse is uninterpreted.)
func verifC12_grammar() {
	// (the request Host is compared literally: glob metacharacters in it mean nothing, and an IPv6 literal is just a host)
	// (sk.example: its letters are the ones Unicode case folding maps non-ASCII characters onto - U+017F LONG S folds to s,
	// U+212A KELVIN SIGN to k. Host names are compared ASCII-case-insensitively: such a host is a different host.)
	reqHosts := []string{"example.com", "Example.COM", "example.com:8080", "*", "[::1]:8080", "sk.example", "app.example.com", "example.com:*", "e?il.com"}
	schemes := []string{"https://", "capacitor://", "http://", "HTTPS://", "wss://", "chrome-extension://"} // (any scheme: the comparison is about the host)
	userinfos := []string{"", "user@", "example.com@", "example.com:pw@"}
	ohosts := []string{"example.com", "EXAMPLE.com", "evil.com", "example.com.evil.com", "evilexample.com", "app.example.com", "[::1]", "SK.example", "\u017fk.example", "s\u212a.example", "app.s\u212a.example"}
	ports := []string{"", ":8080", ":443"}
	tails := []string{"", "/example.com", "?example.com", "#example.com", "?.example.com", "/?x=.example.com", "/@example.com", "?u@app.example.com", "#@example.com:8080"}
	patternSets := [][]string{nil, {"*.example.com"}, {"example.com"}, {"https://*.example.com"}, {"evil.*"}, {"[bad", "evil.com"}, {"EXAMPLE.com:*"}, {"*.sk.example"}}

	if vParam("small", 0) == 1 {
		// quick tier: a sub-grammar that still contains every trick once
		reqHosts = reqHosts[:6]
		schemes = schemes[:2]
		userinfos = []string{"", "example.com@"}
		ohosts = []string{"example.com", "evil.com", "example.com.evil.com", "app.example.com", "[::1]", "\u017fk.example", "app.s\u212a.example"}
		patternSets = append(patternSets[:4:4], patternSets[5:]...)
		ports = ports[:2]
		tails = []string{"", "?.example.com", "/@example.com", "#@example.com:8080"}
	}
	reqHost := reqHosts[vChoose("reqHost", len(reqHosts))]
	kind := vChoose("originKind", 4) // 0 built from the grammar, 1 absent, 2 "null", 3 a scheme without an authority
	origin, trueHost := "", ""
	switch kind {
	case 0:
		oh := ohosts[vChoose("ohost", len(ohosts))]
		port := ports[vChoose("port", len(ports))]
		origin = schemes[vChoose("scheme", len(schemes))] + userinfos[vChoose("userinfo", len(userinfos))] + oh + port + tails[vChoose("tail", len(tails))]
		trueHost = oh + port
	case 2:
		origin = "null"
	case 3:
		// present, with a scheme, naming no host at all: not "no Origin header"
		origin = []string{"file://", "https:evil.com", "https:/evil.com", "about:blank", "evil.com:8080"}[vChoose("hostless", 5)]
	}
	patterns := patternSets[vChoose("patterns", len(patternSets))]
	skip := vChoose("skipVerify", 2) == 1

	r := &http.Request{Method: "GET", ProtoMajor: 1, ProtoMinor: 1, Header: http.Header{}, Host: reqHost}
	r.Header.Set("Connection", "Upgrade")
	r.Header.Set("Upgrade", "websocket")
	r.Header.Set("Sec-WebSocket-Version", "13")
	r.Header.Set("Sec-WebSocket-Key", "dGhlIHNhbXBsZSBub25jZQ==")
	if kind != 1 {
		r.Header.Set("Origin", origin)
	}
	if kind == 0 && vChoose("hostClaims", 2) == 1 {
		// the request also carries every other header in which a client can merely CLAIM a host: the comparison is with
		// the request's Host and nothing else
		r.Header.Set("X-Forwarded-Host", trueHost)
		r.Header.Set("Forwarded", "host="+trueHost)
		r.Header.Set("X-Original-Host", trueHost)
		r.Header.Set("X-Host", trueHost)
		vReach("C12.grammar.host-claims")
	}
	t := vNewTransport(nil)
	t.endMode = vEndBlock
	w := &vRespWriter{hdr: http.Header{}, conn: &vNetConn{t}}
	w.brw = bufio.NewReadWriter(bufio.NewReaderSize(w.conn, 16), bufio.NewWriterSize(w.conn, 16))
	c, err := accept(w, r, &AcceptOptions{InsecureSkipVerify: skip, OriginPatterns: patterns})
	vReach("C12.grammar.decided")

	want := skip || kind == 1
	if !want {
		if kind == 0 && vAsciiEqualFold(reqHost, trueHost) {
			want = true
		} else {
			for _, p := range patterns {
				m, bad := vRefGlob(vAsciiLower(p), vAsciiLower(trueHost))
				if bad {
					break
				}
				if m {
					want = true
					break
				}
			}
		}
	}
	if want {
		vReach("C12.grammar.authorised")
		vAssert(vAnd(err == nil, w.code == 101), "C12.grammar.authorised-origin-accepted")
	} else {
		vReach("C12.grammar.cross-origin")
		vAssert(err != nil, "C12.grammar.cross-origin-refused")
		vAssert(vAnd(w.code == 403, w.hijacks == 0), "C12.grammar.refused-with-403-no-takeover")
	}
	if c != nil {
		c.CloseNow()
	}
	vObserve("grammar", origin, reqHost, err == nil, w.code)
}
