package websocket

// Reference receiver (DESIGN.md appendix A) and frame generation. Independent of the library.

type vFrame struct {
	fin, rsv1, rsv2, rsv3 bool
	opcode                uint8
	masked                bool
	key                   [4]byte
	payload               []byte // unmasked
	// hugeLen: the header declares a 64-bit payload length with the top bit set (no payload follows): a violation
	hugeLen bool
}

func vEncodeFrame(f vFrame) []byte {
	if f.hugeLen {
		b0 := f.opcode & 0x0f
		if f.fin {
			b0 |= 0x80
		}
		if f.rsv1 {
			b0 |= 0x40
		}
		if f.rsv2 {
			b0 |= 0x20
		}
		if f.rsv3 {
			b0 |= 0x10
		}
		b1 := uint8(127)
		if f.masked {
			b1 |= 0x80
		}
		out := []byte{b0, b1, 0x80, 0, 0, 0, 0, 0, 0, 7}
		if f.masked {
			out = append(out, f.key[:]...)
		}
		return out
	}
	h := vRefHeader{fin: f.fin, rsv1: f.rsv1, rsv2: f.rsv2, rsv3: f.rsv3, opcode: f.opcode, masked: f.masked, length: uint64(len(f.payload)), key: f.key}
	out := vRefEncodeHeader(h)
	for i, b := range f.payload {
		out = append(out, b^vIteU8(f.masked, f.key[i%4], 0))
	}
	return out
}

func vEncodeFrames(fs []vFrame) []byte {
	var out []byte
	for _, f := range fs {
		out = append(out, vEncodeFrame(f)...)
	}
	return out
}

type vExpect struct {
	types   []MessageType
	msgs    [][]byte
	partial []byte // payload bytes of an unfinished message received before the stream ended or failed
	pongs   [][]byte
	failed  bool // a protocol violation was met: the read in progress must fail
	failAt  int  // index of the violating frame

	closeRecv   bool
	closeCode   int
	closeReason []byte
	inMsg       bool // stream ended inside a message
}

// vRefReceive applies the RFC 6455 receiver rules to a frame sequence. client: the receiving endpoint is a client.
func vRefReceive(frames []vFrame, client bool, deflate bool) vExpect {
	var e vExpect
	var cur []byte
	var curTyp MessageType
	for i, f := range frames {
		fail := func() vExpect {
			e.failed = true
			e.failAt = i
			e.partial = cur
			return e
		}
		if f.rsv2 || f.rsv3 || f.hugeLen {
			return fail()
		}
		if f.rsv1 {
			if !deflate || !(f.opcode == 1 || f.opcode == 2) {
				return fail()
			}
		}
		if f.masked == client {
			return fail()
		}
		switch {
		case f.opcode == 8 || f.opcode == 9 || f.opcode == 10:
			if len(f.payload) > 125 || !f.fin {
				return fail()
			}
			switch f.opcode {
			case 9:
				e.pongs = append(e.pongs, f.payload)
			case 10:
			case 8:
				if len(f.payload) == 1 {
					return fail()
				}
				if len(f.payload) == 0 {
					e.closeRecv = true
					e.closeCode = 1005
					e.partial = cur
					return e
				}
				code := int64(f.payload[0])<<8 | int64(f.payload[1])
				if !vRefValidWireCode(code) {
					return fail()
				}
				e.closeRecv = true
				e.closeCode = int(code)
				e.closeReason = f.payload[2:]
				e.partial = cur
				return e
			}
		case f.opcode == 0:
			if !e.inMsg {
				return fail()
			}
			cur = append(cur, f.payload...)
			if f.fin {
				e.types = append(e.types, curTyp)
				e.msgs = append(e.msgs, cur)
				cur = nil
				e.inMsg = false
			}
		case f.opcode == 1 || f.opcode == 2:
			if e.inMsg {
				return fail()
			}
			curTyp = MessageType(f.opcode)
			cur = append([]byte{}, f.payload...)
			if f.fin {
				e.types = append(e.types, curTyp)
				e.msgs = append(e.msgs, cur)
				cur = nil
			} else {
				e.inMsg = true
			}
		default:
			return fail()
		}
	}
	e.partial = cur
	return e
}

// vParseWritten decodes what the endpoint wrote (concrete structure, possibly symbolic keys/payload).
func vParseWritten(out []byte) (frames []vFrame, ok bool) {
	pos := 0
	for pos < len(out) {
		h, size, st := vRefDecodeHeader(out[pos:])
		if st != vRefOK {
			return frames, false
		}
		pos += size
		if uint64(len(out)-pos) < h.length {
			return frames, false
		}
		n := int(h.length)
		f := vFrame{fin: h.fin, rsv1: h.rsv1, rsv2: h.rsv2, rsv3: h.rsv3, opcode: h.opcode, masked: h.masked, key: h.key}
		f.payload = make([]byte, n)
		for i := 0; i < n; i++ {
			f.payload[i] = out[pos+i] ^ vIteU8(h.masked, h.key[i%4], 0)
		}
		pos += n
		frames = append(frames, f)
	}
	return frames, true
}

// vWireSummary renders what an endpoint wrote for witness comparison: opcode and payload of every frame, except that
// only the status code of a Close frame is kept (the reason of an error close is free text the oracles never compare).
func vWireSummary(out []byte) []byte {
	frames, ok := vParseWritten(out)
	var s []byte
	for _, f := range frames {
		s = append(s, 0xF0|f.opcode)
		if f.opcode == 8 {
			if len(f.payload) >= 2 {
				s = append(s, f.payload[0], f.payload[1])
			}
			continue
		}
		s = append(s, byte(len(f.payload)))
		s = append(s, f.payload...)
	}
	if !ok {
		s = append(s, 0xEE)
	}
	return s
}
