package websocket

// Harnesses in which TIME IS A SOLVER VARIABLE: the peer's reaction delays are arbitrary durations inside a stated
// range; the engine's ghost clock is a 64-bit term and every ordering of the peer's reactions against the library's
// own timers (5 s close-frame write, 5 s wait for the peer's Close frame, the caller's context, NetConn deadlines)
// is a solver decision. "Returns within its bound whatever the peer does" is then an assertion over the symbolic
// elapsed time that the solver must refute for every delay - not for the handful of delays a scripted peer samples.

import (
	"context"
	"errors"
	"net"
	"time"
)

// vDelay is an arbitrary duration in [0, max].
func vDelay(tag string, max time.Duration) time.Duration {
	d := time.Duration(vI64(tag))
	vAssume(vAnd(d >= 0, d <= max))
	return d
}

// C09.timed: Close against a peer that is merely slow, by an arbitrary amount: it stops reading for d1 (the Close
// frame's write is held that long) and/or sends its own Close frame d2 after ours arrived. Whatever d1 and d2 are,
// Close returns no later than 5 s (write) + 5 s (wait) after it was called; when the peer is inside both limits Close
// returns nil at the very instant the peer's Close frame arrives; the connection is closed for good afterwards and no
// goroutine is left.
func verifC09_timed() {
	client := vParam("client", 1) == 1
	vInstallRand()
	mk := func(f vFrame) vFrame {
		f.masked = !client
		if f.masked {
			copy(f.key[:], vBytes("key", 4))
		}
		return f
	}
	peer := vChoose("peer", 5)
	vClassify("peer", []string{"echo-after-d2", "write-held-d1-then-echo", "write-held-d1-echo-after-d2", "data-frames-every-d2-never-a-close", "never-reads"}[peer])
	state := vChoose("state", 4)
	vClassify("state", []string{"idle", "reader-blocked", "closeread-active", "second-writer-queued-with-a-short-deadline"}[state])
	var d1, d2 time.Duration
	if peer == 1 || peer == 2 {
		d1 = vDelay("d1", 12*time.Second)
	}
	if peer == 0 || peer == 2 {
		d2 = vDelay("d2", 12*time.Second)
	}
	echo := vEncodeFrame(mk(vFrame{fin: true, opcode: 8, payload: []byte{0x03, 0xe8}}))
	const nFlood = 4
	var floodGates []chan struct{}
	if peer == 3 {
		// the peer never closes: it keeps sending data frames, one every d2 (any spacing up to 4 s)
		d2 = vDelay("d2", 4*time.Second)
		vAssume(d2 > 0)
		echo = nil
		for i := 0; i < nFlood; i++ {
			echo = append(echo, vEncodeFrame(mk(vFrame{fin: true, opcode: 2, payload: vBytes("flood", 1)}))...)
		}
	}
	t := vNewTransport(echo)
	t.endMode = vEndBlock
	gate := t.vTimedGate(0)
	if peer == 3 {
		per := len(echo) / nFlood
		for i := 1; i < nFlood; i++ {
			floodGates = append(floodGates, t.vTimedGate(i*per))
		}
	}
	wrote := t.vNotifyAt(1)
	if peer == 1 || peer == 2 {
		t.holdAt = 1
	}
	if peer == 4 {
		t.writeBlock = true
	}
	c := vNewConn(t, client, nil, 32, 64)
	blocked := make(chan error, 1)
	nBlocked := 0
	switch state {
	case 1:
		nBlocked++
		go func() {
			_, _, err := c.Read(vBG)
			blocked <- err
		}()
		vGhostSettle()
	case 2:
		c.CloseRead(vBG)
		vGhostSettle()
	case 3:
		// another goroutine writes with a deadline of its own; it queues behind the Close frame's write and gives up
		nBlocked++
		go func() {
			time.Sleep(10 * time.Millisecond)
			ctx, cancel := context.WithTimeout(vBG, time.Second)
			defer cancel()
			blocked <- c.Write(ctx, MessageBinary, []byte("w"))
		}()
	}
	// the peer
	go func() {
		if d1 > 0 {
			time.Sleep(d1)
		}
		if t.holdAt != 0 {
			close(t.release) // the peer reads again: the held write goes through
		}
		select {
		case <-wrote: // our Close frame is on the wire
		case <-t.closed:
			return
		}
		if d2 > 0 {
			time.Sleep(d2)
		}
		t.vOpenGate(gate) // the peer's Close frame (or its first data frame) arrives
		for _, g := range floodGates {
			time.Sleep(d2)
			t.vOpenGate(g)
		}
	}()
	start := vGhostElapsed()
	err := c.Close(StatusNormalClosure, "")
	took := vGhostElapsed() - start
	vReach("C09.timed.returned")
	lim := 5 * time.Second
	vAssert(took <= 2*lim+vSlack(), "C09.timed.within-documented-bound")
	inTime := vAnd(vAnd(d1 < lim, d2 < lim), peer <= 2)
	if peer == 3 {
		vReach("C09.timed.flood")
	}
	if state == 3 && peer != 4 {
		// the second writer is not asserted to fail when the peer does read
		nBlocked--
		select {
		case <-blocked:
		case <-time.After(2 * time.Second):
		}
	}
	if inTime {
		vReach("C09.timed.peer-in-time")
		vAssert(err == nil, "C09.timed.nil-when-peer-answers-in-time")
		vAssert(took <= d1+d2+vSlack(), "C09.timed.returns-when-the-echo-arrives")
	}
	if vAnd(d1 > lim, peer != 0) {
		vReach("C09.timed.write-timeout")
		// (what Close returns here is not asserted: the library reports the connection it closed itself as a
		// normal end, and the property only bounds the time)
		vAssert(took <= lim+vSlack(), "C09.timed.gives-up-writing-after-5s")
	}
	if vAnd(vAnd(d1 < lim, d2 > lim), peer <= 2) {
		vReach("C09.timed.wait-timeout")
		vAssert(took <= d1+lim+vSlack(), "C09.timed.gives-up-waiting-after-5s")
	}
	for i := 0; i < nBlocked; i++ {
		select {
		case e := <-blocked:
			vAssert(e != nil, "C09.timed.blocked-call-error")
		case <-time.After(2 * time.Second):
			vAssert(false, "C09.timed.blocked-call-returns")
		}
	}
	vAssert(vNot(vIsOpen(c)), "C09.timed.closed")
	if err == nil {
		vAssert(vGhostGoroutines() == 0, "C20.exit.no-goroutine-left")
	}
	e2 := c.Write(vBG, MessageText, []byte("x"))
	vAssert(e2 != nil, "C06.after.write-fails")
	e3 := c.Close(StatusNormalClosure, "")
	vAssert(vAnd(e3 != nil, errors.Is(e3, net.ErrClosed)), "C06.after.second-close-errclosed")
	vObserve("c09timed", peer, state, err == nil)
}

// C10.timed: a call bounded by its own context (timeout T) against a peer whose reaction comes after an arbitrary delay
// d. d < T: the call succeeds, and neither the later expiry of its context nor the passing of time affects the
// connection or a later call. d > T: the call fails at instant T (not later) and the connection is closed.
func verifC10_timed() {
	client := vParam("client", 1) == 1
	vInstallRand()
	mk := func(f vFrame) vFrame {
		f.masked = !client
		if f.masked {
			copy(f.key[:], vBytes("key", 4))
		}
		return f
	}
	op := vChoose("op", 4)
	vClassify("op", []string{"read-message-arrives-late", "read-second-fragment-late", "ping-pong-late", "write-drained-late"}[op])
	T := 3 * time.Second
	d := vDelay("d", 8*time.Second)
	vAssume(d != T) // at the very instant of the deadline either outcome is right
	var wire []byte
	gatePos := 0
	switch op {
	case 0:
		wire = vEncodeFrame(mk(vFrame{fin: true, opcode: 2, payload: vBytes("m", 2)}))
	case 1:
		wire = vEncodeFrame(mk(vFrame{fin: false, opcode: 2, payload: vBytes("m", 1)}))
		gatePos = len(wire)
		wire = append(wire, vEncodeFrame(mk(vFrame{fin: true, opcode: 0, payload: vBytes("m", 2)}))...)
	case 2:
		wire = vEncodeFrame(mk(vFrame{fin: true, opcode: 10, payload: []byte("1")}))
	}
	// a second message, available at once after the first: the follow-up call reads it
	follow := vEncodeFrame(mk(vFrame{fin: true, opcode: 1, payload: vBytes("f", 1)}))
	followPos := len(wire)
	wire = append(wire, follow...)
	t := vNewTransport(wire)
	t.endMode = vEndBlock
	var gate chan struct{}
	if op != 3 {
		gate = t.vTimedGate(gatePos)
	} else {
		t.holdAt = 1
	}
	c := vNewConn(t, client, nil, 32, 64)
	if op == 2 {
		// somebody must be reading for the pong to be seen
		go func() {
			for {
				if _, _, err := c.Read(vBG); err != nil {
					return
				}
			}
		}()
		_ = followPos
	}
	go func() {
		time.Sleep(d)
		if gate != nil {
			t.vOpenGate(gate)
		} else {
			close(t.release)
		}
	}()
	ctx, cancel := context.WithTimeout(vBG, T)
	start := vGhostElapsed()
	var err error
	var got []byte
	switch op {
	case 0, 1:
		_, got, err = c.Read(ctx)
	case 2:
		err = c.Ping(ctx)
	case 3:
		err = c.Write(ctx, MessageBinary, vBytes("w", 2))
	}
	took := vGhostElapsed() - start
	vReach("C10.timed.returned")
	if d < T {
		vReach("C10.timed.in-time")
		vAssert(err == nil, "C10.timed.success-when-peer-in-time")
		vAssert(took <= d+vSlack(), "C10.timed.returns-when-the-peer-reacts")
		if vAnd(err == nil, op <= 1) {
			vAssert(len(got) == op+2, "C10.timed.whole-message")
		}
		// the context expires later on its own; much later the connection still works
		time.Sleep(T + time.Second)
		cancel()
		time.Sleep(6 * time.Second)
		vAssert(vIsOpen(c), "C10.harmless.still-open-after-expiry")
		if op != 2 {
			ctx2, cancel2 := context.WithTimeout(vBG, time.Second)
			e2 := c.Write(ctx2, MessageText, []byte("y"))
			vAssert(e2 == nil, "C10.harmless.next-write-works")
			_, f, e3 := c.Read(ctx2)
			vAssert(vAnd(e3 == nil, len(f) == 1), "C10.harmless.next-read-works")
			cancel2()
		}
	} else {
		vReach("C10.timed.late")
		vAssert(err != nil, "C10.cancel.error-when-context-expires-first")
		vAssert(took <= T+vSlack(), "C10.cancel.returns-at-the-deadline")
		vGhostSettle()
		if op != 2 {
			// (a Ping whose frame is written and which only waits for its pong is not documented to close the
			// connection when its context ends; the existing C10.cancel covers a Ping blocked in writing)
			vAssert(vNot(vIsOpen(c)), "C10.cancel.connection-closed")
		}
		cancel()
	}
	c.CloseNow()
	vObserve("c10timed", op, err == nil)
}

// C18.timed: NetConn deadlines against a peer whose data arrives after an arbitrary delay d, with the read deadline at
// instant D. d < D: the read succeeds; when the deadline then passes while no call is active, reads fail with a deadline
// error, the connection stays open, and after the deadline is reset the next message is read. d > D: the deadline fires
// during the active read, which fails at instant D, and the connection is closed.
func verifC18_timed() {
	client := vParam("client", 1) == 1
	vInstallRand()
	mk := func(f vFrame) vFrame {
		f.masked = !client
		if f.masked {
			copy(f.key[:], vBytes("key", 4))
		}
		return f
	}
	D := 3 * time.Second
	d := vDelay("d", 8*time.Second)
	vAssume(d != D)
	wire := vEncodeFrame(mk(vFrame{fin: true, opcode: 2, payload: vBytes("m", 2)}))
	pos2 := len(wire)
	wire = append(wire, vEncodeFrame(mk(vFrame{fin: true, opcode: 2, payload: vBytes("n", 1)}))...)
	t := vNewTransport(wire)
	t.endMode = vEndBlock
	gate := t.vTimedGate(0)
	gate2 := t.vTimedGate(pos2)
	c := vNewConn(t, client, nil, 32, 64)
	nc := NetConn(vBG, c, MessageBinary)
	go func() {
		time.Sleep(d)
		t.vOpenGate(gate)
	}()
	start := vGhostElapsed()
	deadline := time.Now().Add(D)
	nc.SetReadDeadline(deadline)
	p := make([]byte, 4)
	n, err := nc.Read(p)
	took := vGhostElapsed() - start
	vReach("C18.timed.returned")
	if d < D {
		vReach("C18.timed.data-first")
		vAssert(vAnd(err == nil, n == 2), "C18.timed.read-succeeds-before-deadline")
		vAssert(took <= d+vSlack(), "C18.timed.returns-when-data-arrives")
		// the deadline passes while idle
		time.Sleep(D + time.Second)
		vAssert(vIsOpen(c), "C18.deadline.idle-expiry-keeps-connection")
		_, e2 := nc.Read(p)
		vAssert(vAnd(e2 != nil, errors.Is(e2, context.DeadlineExceeded)), "C18.deadline.idle-expiry-fails-reads")
		vAssert(vIsOpen(c), "C18.deadline.still-open-after-failed-read")
		// setting the very same (by now passed) deadline again changes nothing: calls keep failing
		nc.SetReadDeadline(deadline)
		again := make(chan error, 1)
		go func() {
			_, e := nc.Read(p)
			again <- e
		}()
		select {
		case e := <-again:
			vAssert(vAnd(e != nil, errors.Is(e, context.DeadlineExceeded)), "C18.deadline.same-passed-deadline-again-still-fails")
		case <-time.After(2 * time.Second):
			vAssert(false, "C18.deadline.same-passed-deadline-again-still-fails")
			nc.SetReadDeadline(time.Now().Add(-time.Second))
			<-again
		}
		vAssert(vIsOpen(c), "C18.deadline.still-open-after-failed-read")
		nc.SetReadDeadline(time.Time{})
		t.vOpenGate(gate2)
		n3, e3 := nc.Read(p)
		vAssert(vAnd(e3 == nil, n3 == 1), "C18.deadline.usable-after-reset")
	} else {
		vReach("C18.timed.deadline-first")
		vAssert(err != nil, "C18.deadline.active-call-fails")
		vAssert(took <= D+vSlack(), "C18.deadline.active-call-fails-at-the-deadline")
		vGhostSettle()
		vAssert(vNot(vIsOpen(c)), "C18.deadline.active-expiry-closes")
	}
	nc.Close()
	c.CloseNow()
	vObserve("c18timed", err == nil)
}

// C18.reset-race: a deadline is withdrawn (or moved into the future) at the very moment it expires. Real time passes
// while code runs, so the deadline timer may fire between any two steps of SetRead/WriteDeadline and its callback may run
// at any later point: in exploration mode the engine lets a timer that is due within a microsecond fire at every
// scheduling point, and schedules the callback goroutine against the caller. Whatever the interleaving, once the
// deadline has been reset the next call must not fail with a deadline error ("...until the deadline is reset").
func verifC18_reset_race() {
	client := vParam("client", 1) == 1
	vInstallRand()
	mk := func(f vFrame) vFrame {
		f.masked = !client
		if f.masked {
			copy(f.key[:], vBytes("key", 4))
		}
		return f
	}
	wire := vEncodeFrame(mk(vFrame{fin: true, opcode: 2, payload: vBytes("m", 2)}))
	t := vNewTransport(wire)
	t.endMode = vEndBlock
	c := vNewConn(t, client, nil, 32, 64)
	nc := NetConn(vBG, c, MessageBinary)
	write := vChoose("dir", 2) == 1
	how := vChoose("how", 2)
	vClassify("dir", []string{"read", "write"}[vChoose0(write)])
	vClassify("how", []string{"past-deadline-then-reset", "reset-at-the-instant-of-expiry"}[how])
	to := time.Time{}
	if vChoose("to", 2) == 1 {
		to = time.Now().Add(time.Hour)
	}
	set := nc.SetReadDeadline
	if write {
		set = nc.SetWriteDeadline
	}
	if how == 1 {
		set(time.Now().Add(time.Second))
		time.Sleep(time.Second - time.Nanosecond)
	}
	vGhostTimeSlip(1000)
	vGhostExplore(2)
	if how == 0 {
		set(time.Now().Add(-time.Second)) // already past: expires "immediately"
	}
	set(to) // withdrawn / moved an hour ahead
	vGhostExploreOff()
	vGhostTimeSlip(0)
	time.Sleep(10 * time.Millisecond) // whatever callback was in flight has run by now
	vReach("C18.reset-race.reset-done")
	var err error
	if write {
		_, err = nc.Write([]byte("x"))
	} else {
		p := make([]byte, 4)
		_, err = nc.Read(p)
	}
	vAssert(err == nil, "C18.deadline.reset-clears-expiry")
	vAssert(vIsOpen(c), "C18.deadline.reset-keeps-connection")
	c.CloseNow()
	vObserve("c18reset", write, how, err == nil)
}

func vChoose0(b bool) int {
	if b {
		return 1
	}
	return 0
}

// C10.queued: a write A is blocked on a peer that does not read; a second call B (Write or Ping) with a context of its
// own queues behind it. A context bounds only its own call: when A's context is cancelled, A returns at once (and the
// connection is closed) although B's context is still alive - and the other way round, the end of B's context while it
// merely queues does not disturb A.
func verifC10_queued() {
	client := vParam("client", 1) == 1
	vInstallRand()
	t := vNewTransport(nil)
	t.endMode = vEndBlock
	t.writeBlock = true
	c := vNewConn(t, client, nil, 32, 64)
	ctxA, cancelA := context.WithCancel(vBG)
	errA := make(chan error, 1)
	go func() { errA <- c.Write(ctxA, MessageBinary, vBytes("a", 2)) }()
	vGhostSettle()
	which := vChoose("second", 2)
	first := vChoose("cancelled-first", 2)
	vClassify("second", []string{"write", "ping"}[which])
	vClassify("cancelled", []string{"the-blocked-writer", "the-queued-call"}[first])
	ctxB, cancelB := context.WithCancel(vBG)
	errB := make(chan error, 1)
	go func() {
		if which == 0 {
			errB <- c.Write(ctxB, MessageText, []byte("b"))
		} else {
			errB <- c.Ping(ctxB)
		}
	}()
	vGhostSettle()
	start := vGhostElapsed()
	if first == 0 {
		cancelA()
		select {
		case e := <-errA:
			vAssert(e != nil, "C10.queued.blocked-writer-fails")
		case <-time.After(3 * time.Second):
			vAssert(false, "C10.cancel.blocked-writer-returns-when-its-context-ends")
		}
		vAssert(vGhostElapsed()-start < time.Second+vSlack(), "C10.cancel.prompt")
		vGhostSettle()
		vAssert(vNot(vIsOpen(c)), "C10.cancel.closed")
	} else {
		cancelB()
		select {
		case e := <-errB:
			vAssert(e != nil, "C10.queued.queued-call-fails")
		case <-time.After(3 * time.Second):
			vAssert(false, "C10.cancel.queued-call-returns-when-its-context-ends")
		}
		// A is still blocked, and still bounded by its own context
		cancelA()
		select {
		case e := <-errA:
			vAssert(e != nil, "C10.queued.blocked-writer-fails")
		case <-time.After(3 * time.Second):
			vAssert(false, "C10.cancel.blocked-writer-returns-when-its-context-ends")
		}
	}
	vReach("C10.queued.done")
	cancelA()
	cancelB()
	c.CloseNow()
	vObserve("c10queued", which, first)
}

// C10.bfinal: a compressed message whose DEFLATE stream ends with a final block, with payload left over behind it (the
// RFC 7692 trailing octet in a final frame of its own, or padding), is read completely with its own context; cancelling
// that context afterwards is harmless and the next message is read with a fresh one.
func verifC10_bfinal() {
	client := vParam("client", 1) == 1
	vInstallRand()
	data := vBytes("data", 2)
	stored := vStored(data, []int{2}, true)
	shape := vChoose("shape", 3)
	vClassify("shape", []string{"trailing-octet-in-own-final-frame", "trailing-octet-same-frame", "padding-behind-the-stream"}[shape])
	var frames []vFrame
	switch shape {
	case 0:
		frames = vDataFrames(append(append([]byte{}, stored...), 0x00), []int{len(stored)}, 2, true, client)
	case 1:
		frames = vDataFrames(append(append([]byte{}, stored...), 0x00), nil, 2, true, client)
	default:
		pad := make([]byte, 70)
		frames = vDataFrames(append(append([]byte{}, stored...), pad...), nil, 2, true, client)
	}
	next := vBytes("next", 1)
	frames = append(frames, vDataFrames(next, nil, 1, false, client)...)
	t := vNewTransport(vEncodeFrames(frames))
	t.endMode = vEndBlock
	c := vNewConn(t, client, vCopts(1+vChoose("mode", 2)), 64, 64)
	ctx, cancel := context.WithCancel(vBG)
	_, b, err := c.Read(ctx)
	vReach("C10.bfinal.read")
	vAssert(vAnd(err == nil, vEqBytes(b, data)), "C10.bfinal.first-read-ok")
	cancel()
	vGhostSettle()
	time.Sleep(time.Second)
	vAssert(vIsOpen(c), "C10.harmless.still-open-after-cancel")
	_, b2, err2 := c.Read(vBG)
	vAssert(vAnd(err2 == nil, vEqBytes(b2, next)), "C10.harmless.next-read-works")
	c.CloseNow()
	vObserve("c10bfinal", shape, err == nil, err2 == nil)
}

// C18.past-idle: a deadline that is already in the past is set while no call is active, and the call follows at once
// (no pause in between: the idiom `SetReadDeadline(t); Read(p)` with a t that has just passed). The deadline passed while
// no call was active: the call fails with a deadline error, the connection stays usable, and after the deadline is reset
// the next call works.
func verifC18_past_idle() {
	client := vParam("client", 1) == 1
	vInstallRand()
	mk := func(f vFrame) vFrame {
		f.masked = !client
		if f.masked {
			copy(f.key[:], vBytes("key", 4))
		}
		return f
	}
	wire := vEncodeFrame(mk(vFrame{fin: true, opcode: 2, payload: vBytes("m", 2)}))
	t := vNewTransport(wire)
	t.endMode = vEndBlock
	gate := t.vTimedGate(0)
	c := vNewConn(t, client, nil, 32, 64)
	nc := NetConn(vBG, c, MessageBinary)
	write := vChoose("dir", 2) == 1
	vClassify("dir", []string{"read", "write"}[vChoose0(write)])
	ago := []time.Duration{time.Second, time.Nanosecond, 0}[vChoose("ago", 3)]
	p := make([]byte, 4)
	var err error
	if write {
		nc.SetWriteDeadline(time.Now().Add(-ago))
		_, err = nc.Write([]byte("x"))
	} else {
		nc.SetReadDeadline(time.Now().Add(-ago))
		_, err = nc.Read(p)
	}
	vReach("C18.past-idle.called")
	vAssert(vAnd(err != nil, errors.Is(err, context.DeadlineExceeded)), "C18.deadline.idle-expiry-fails-calls-with-a-deadline-error")
	vGhostSettle()
	vAssert(vIsOpen(c), "C18.deadline.idle-expiry-keeps-connection")
	t.vOpenGate(gate)
	if write {
		nc.SetWriteDeadline(time.Time{})
		_, err = nc.Write([]byte("y"))
		vAssert(err == nil, "C18.deadline.usable-after-reset")
	} else {
		nc.SetReadDeadline(time.Time{})
		n, e := nc.Read(p)
		vAssert(vAnd(e == nil, n == 2), "C18.deadline.usable-after-reset")
	}
	c.CloseNow()
	vObserve("c18pastidle", write, err == nil)
}

// C10.compressed-writes: two messages that are compressed (at or above the threshold), each written with a context of its
// own (Write, or a streaming Writer). The first context is cancelled after its call has succeeded: the connection stays
// open and the second message goes out under its own context; and the second call is bounded by ITS context: when the
// peer stops reading, it fails when that context ends, whatever became of the first.
func verifC10_compressed_writes() {
	client := vParam("client", 1) == 1
	vInstallRand().concrete = true
	t := vNewTransport(nil)
	t.endMode = vEndBlock
	c := vNewConn(t, client, vCopts(1+vChoose("mode", 2)), 32, 4096)
	c.flateThreshold = 8
	doc := []byte(vCorpus[0])
	streamed := vChoose("streamed", 2) == 1
	write := func(ctx context.Context) error {
		if !streamed {
			return c.Write(ctx, MessageText, doc)
		}
		w, err := c.Writer(ctx, MessageText)
		if err != nil {
			return err
		}
		if _, err := w.Write(doc[:len(doc)/2]); err != nil {
			return err
		}
		if _, err := w.Write(doc[len(doc)/2:]); err != nil {
			return err
		}
		return w.Close()
	}
	ctx1, cancel1 := context.WithCancel(vBG)
	vAssert(write(ctx1) == nil, "C10.compressed.first-write-ok")
	cancel1()
	vGhostSettle()
	time.Sleep(time.Second)
	vAssert(vIsOpen(c), "C10.harmless.still-open-after-cancel")
	before := len(t.out)
	second := vChoose("second", 2)
	vClassify("second", []string{"peer-reads", "peer-stops-reading"}[second])
	if second == 0 {
		ctx2, cancel2 := context.WithTimeout(vBG, 10*time.Second)
		vAssert(write(ctx2) == nil, "C10.harmless.next-write-works")
		vAssert(len(t.out) > before, "C10.harmless.next-write-reaches-the-wire")
		cancel2()
	} else {
		t.writeBlock = true
		ctx2, cancel2 := context.WithTimeout(vBG, time.Second)
		start := vGhostElapsed()
		err := write(ctx2)
		took := vGhostElapsed() - start
		vAssert(err != nil, "C10.cancel.error")
		vAssert(took < 2*time.Second+vSlack(), "C10.cancel.prompt")
		cancel2()
	}
	vReach("C10.compressed.done")
	c.CloseNow()
	vObserve("c10cw", streamed, second)
}
