package websocket

import "errors"

var vLenSet = []int{0, 1, 2, 3, 125, 126}

// vSymFrame builds one frame with symbolic header fields and payload; the length comes from a small set.
func vSymFrame(i int, nLens int) vFrame {
	f := vFrame{
		fin:    vBool("fin"),
		rsv1:   vBool("rsv1"),
		rsv2:   vBool("rsv2"),
		rsv3:   vBool("rsv3"),
		opcode: vU8("opcode") & 0x0f,
		masked: vBool("masked"),
	}
	copy(f.key[:], vBytes("key", 4))
	n := vLenSet[vChoose("len", nLens)]
	f.payload = vBytes("payload", n)
	if vParam("huge", 0) == 1 && vChoose("hugeLen", 2) == 1 {
		// the frame declares a 64-bit length with the top bit set instead
		f.hugeLen = true
		f.payload = nil
	}
	return f
}

type vGot struct {
	types []MessageType
	msgs  [][]byte
	tail  []byte // bytes handed out by the reader that failed
	err   error
	// atReader: the error came from Conn.Reader (no message could be started), not from reading a started message
	atReader bool
	// afterMsgs: messages delivered by further read attempts made after the first failure (an application that
	// retries); a reference receiver delivers nothing after the first violation / Close / end of the stream
	afterMsgs int
}

// vRetries: how often the application tries again after its first failed read.
var vRetries = 2

func vRetryReads(c *Conn, bufSize int, g *vGot) {
	for j := 0; j < vRetries; j++ {
		_, r, err := c.Reader(vBG)
		if err != nil {
			continue
		}
		if _, err := vReadAll(r, bufSize); err == nil {
			g.afterMsgs++
		}
	}
}

// vReadLoop is the application: read messages until an error.
func vReadLoop(c *Conn, bufSize int, max int) vGot {
	var g vGot
	for i := 0; i < max; i++ {
		if vParam("readapi", 0) == 1 {
			// the application uses Conn.Read: what it returns together with an error is what was handed to the caller
			typ, b, err := c.Read(vBG)
			if err != nil {
				g.tail = b
				g.err = err
				vRetryReads(c, bufSize, &g)
				return g
			}
			g.types = append(g.types, typ)
			g.msgs = append(g.msgs, b)
			continue
		}
		typ, r, err := c.Reader(vBG)
		if err != nil {
			g.err = err
			g.atReader = true
			vRetryReads(c, bufSize, &g)
			return g
		}
		b, err := vReadAll(r, bufSize)
		if err != nil {
			g.tail = b
			g.err = err
			vRetryReads(c, bufSize, &g)
			return g
		}
		g.types = append(g.types, typ)
		g.msgs = append(g.msgs, b)
	}
	return g
}

func vIsPrefix(p, full []byte) bool {
	if len(p) > len(full) {
		return false
	}
	return vEqBytes(p, full[:len(p)])
}

// vCheckDelivered: what the application got equals what the reference receiver delivers.
func vCheckDelivered(g vGot, e vExpect, id string) {
	ok := len(g.msgs) == len(e.msgs)
	if ok {
		for i := range g.msgs {
			ok = vAnd(ok, vAnd(g.types[i] == e.types[i], vEqBytes(g.msgs[i], e.msgs[i])))
		}
	}
	vAssert(ok, id+".messages")
	vAssert(vIsPrefix(g.tail, e.partial), id+".partial-prefix")
}

// vCheckControlReplies: pongs mirror pings in order; a received Close is echoed with the same code (and reason).
func vCheckControlReplies(t *vTransport, e vExpect, client bool, id string) {
	frames, ok := vParseWritten(t.out)
	vAssert(ok, id+".written-wellformed")
	var pongs [][]byte
	var closes []vFrame
	for _, f := range frames {
		switch f.opcode {
		case 10:
			pongs = append(pongs, f.payload)
		case 8:
			closes = append(closes, f)
		}
		if f.opcode >= 8 {
			vAssert(vAnd(f.masked == client, vAnd(f.fin, vNot(vOr(f.rsv1, vOr(f.rsv2, f.rsv3))))), id+".written-control-shape")
		}
	}
	pk := len(pongs) == len(e.pongs)
	if pk {
		for i := range pongs {
			pk = vAnd(pk, vEqBytes(pongs[i], e.pongs[i]))
		}
	}
	vAssert(pk, id+".pongs")
	if e.closeRecv {
		ck := len(closes) >= 1
		if ck {
			p := closes[0].payload
			if e.closeCode == 1005 {
				ck = len(p) == 0
			} else {
				ck = len(p) == 2+len(e.closeReason)
				if ck {
					ck = vAnd(int(p[0])<<8|int(p[1]) == e.closeCode, vEqBytes(p[2:], e.closeReason))
				}
			}
		}
		vAssert(ck, id+".close-echo")
	}
}

// C03.struct: up to k frames with symbolic header fields against the reference receiver.
func verifC03_struct() {
	k := vParam("frames", 2)
	nLens := vParam("lens", 4)
	client := vParam("client", 1) == 1
	deflate := vParam("deflate", 0)
	vInstallRand()
	var frames []vFrame
	for i := 0; i < k; i++ {
		frames = append(frames, vSymFrame(i, nLens))
	}
	if deflate != 0 {
		// compressed payloads are C03.deflate's subject; here RSV1 may appear wherever it is a violation
		for _, f := range frames {
			vAssume(vNot(vAnd(f.rsv1, vOr(f.opcode == 1, f.opcode == 2))))
		}
	}
	wire := vEncodeFrames(frames)
	t := vNewTransport(wire)
	t.step = vParam("step", 0)
	c := vNewConn(t, client, vCopts(deflate), 16, 64)
	g := vReadLoop(c, vParam("buf", 3), k+1)
	e := vRefReceive(frames, client, deflate != 0)
	// a stream that simply ends inside a message is C04's subject, not a protocol violation
	vAssume(vOr(e.failed, vOr(e.closeRecv, vNot(e.inMsg))))
	vReach("C03.struct.compared")
	if client {
		vClassify("role", "client")
	} else {
		vClassify("role", "server")
	}
	if e.failed {
		vReach("C03.struct.violation")
		f := frames[e.failAt]
		switch {
		case f.rsv2 || f.rsv3 || f.rsv1:
			vClassify("viol", "rsv")
		case f.masked == client:
			vClassify("viol", "masking")
		case f.opcode >= 8:
			vClassify("viol", "control")
		default:
			vClassify("viol", "sequence-or-opcode")
		}
	} else {
		vClassify("viol", "none")
	}
	if e.closeRecv {
		vReach("C03.struct.close")
	}
	if len(e.msgs) > 0 {
		vReach("C03.struct.message")
	}
	if len(e.pongs) > 0 {
		vReach("C03.struct.ping")
	}
	vAssert(g.err != nil, "C03.struct.ends-with-error")
	vAssert(g.afterMsgs == 0, "C03.struct.nothing-delivered-after-the-failure")
	vCheckDelivered(g, e, "C03.struct")
	if e.failed {
		// a protocol violation is reported as a failure, never as a Close frame received from the peer (an
		// application would take that for an orderly shutdown), and is not answered by an echo of the peer's bytes
		vAssert(CloseStatus(g.err) == -1, "C03.struct.violation-is-not-a-peer-close")
	}
	if e.closeRecv {
		var ce CloseError
		isCE := errors.As(g.err, &ce)
		vAssert(vAnd(isCE, int(ce.Code) == e.closeCode), "C03.struct.close-status")
		if isCE {
			vAssert(vEqStr(ce.Reason, string(e.closeReason)), "C03.struct.close-reason")
		}
	}
	if !e.failed {
		vCheckControlReplies(t, e, client, "C03.struct")
	} else {
		// pongs for pings that preceded the violation must still be there, in order (a Close frame may follow)
		frs, ok := vParseWritten(t.out)
		vAssert(ok, "C03.struct.written-wellformed")
		var pongs [][]byte
		for _, f := range frs {
			if f.opcode == 10 {
				pongs = append(pongs, f.payload)
			}
		}
		pk := len(pongs) == len(e.pongs)
		if pk {
			for i := range pongs {
				pk = vAnd(pk, vEqBytes(pongs[i], e.pongs[i]))
			}
		}
		vAssert(pk, "C03.struct.pongs")
	}
	c.CloseNow()
	vObserve("struct", wire, len(g.msgs), g.err != nil, vWireSummary(t.out))
}

// C03.deflate: compressed messages given as DEFLATE stored blocks with symbolic data (so the real inflate code runs with
// concrete control flow), ending in a sync flush (tail stripped) or in a BFINAL=1 block, split over two frames at every
// offset (including an empty final fragment), optionally with a Ping between the fragments, followed by a second message.
func verifC03_deflate() {
	client := vParam("client", 1) == 1
	mode := vParam("deflate", 1)
	vInstallRand()
	n := vChoose("n", vParam("maxN", 3)+1)
	data := vBytes("data", n)
	final := vChoose("bfinal", 2) == 1
	var blocks []int
	if n > 1 && vChoose("blocks", 2) == 1 {
		b1 := 1 + vChoose("b1", n-1)
		blocks = []int{b1, n - b1}
	} else {
		blocks = []int{n}
	}
	payload := vStored(data, blocks, final)
	rfcOctet := false
	if final && vChoose("rfcExtraOctet", 2) == 1 {
		// RFC 7692 7.2.3.4: a BFINAL=1 message carries one more 0x00 octet (an empty stored block header) so that the
		// receiver's 00 00 ff ff completes a block
		payload = append(payload, 0x00)
		rfcOctet = true
	}
	var cuts []int
	cutAtEnd := false
	if vChoose("frag", 2) == 1 {
		k := vChoose("cutAt", len(payload)+1)
		cuts = []int{k}
		cutAtEnd = k == len(payload)
	}
	frames := vDataFrames(payload, cuts, 2, true, client)
	var pings [][]byte
	if len(frames) == 2 && vChoose("ping", 2) == 1 {
		p := vFrame{fin: true, opcode: 9, masked: !client, payload: vBytes("pingp", 1)}
		if p.masked {
			copy(p.key[:], vBytes("key", 4))
		}
		pings = append(pings, p.payload)
		frames = []vFrame{frames[0], p, frames[1]}
	}
	// second message: compressed again (exercises reader reuse / context takeover bookkeeping) or plain
	second := vBytes("second", 2)
	takeover := (client && (mode == 1 || mode == 3)) || (!client && (mode == 1 || mode == 4))
	negProbe := false
	var third []byte
	switch k := vChoose("secondKind", 3); {
	case k == 1:
		frames = append(frames, vDataFrames(vStored(second, []int{2}, false), nil, 1, true, client)...)
	case k == 2 && takeover && n >= 1:
		// with context takeover the peer may refer back into the previous message: a match of length 3 at distance 1
		frames = append(frames, vDataFrames(vBackrefProbe, nil, 1, true, client)...)
		second = []byte{data[n-1], data[n-1], data[n-1]}
		vReach("C03.deflate.backref-into-previous-message")
	case k == 2 && !takeover:
		// without context takeover for this direction nothing of the previous message may remain in the window: a
		// message that starts with a back-reference is not decodable and must not yield a message
		frames = append(frames, vDataFrames(vBackrefProbe, nil, 1, true, client)...)
		negProbe = true
		vReach("C03.deflate.backref-without-takeover")
	case k == 0 && takeover && n >= 1 && vChoose("third", 2) == 1:
		// an UNCOMPRESSED message between two compressed ones is no part of the compression history: a third message
		// that refers back at distance 1 still finds the last byte of the first
		frames = append(frames, vDataFrames(second, nil, 1, false, client)...)
		frames = append(frames, vDataFrames(vBackrefProbe, nil, 2, true, client)...)
		third = []byte{data[n-1], data[n-1], data[n-1]}
		vReach("C03.deflate.backref-across-an-uncompressed-message")
	default:
		frames = append(frames, vDataFrames(second, nil, 1, false, client)...)
	}
	t := vNewTransport(vEncodeFrames(frames))
	t.step = vChoose("step", 2)
	c := vNewConn(t, client, vCopts(mode), 64, 256)
	g := vReadLoop(c, 1+vChoose("buf", 2)*5, 4)
	vReach("C03.deflate.read")
	if client {
		vClassify("role", "client")
	} else {
		vClassify("role", "server")
	}
	if final {
		vReach("C03.deflate.bfinal1")
		if rfcOctet {
			vClassify("shape", "bfinal1-with-rfc7692-trailing-octet")
		} else if cutAtEnd {
			vClassify("shape", "bfinal1-block-ends-at-nonfinal-frame-end")
		} else {
			vClassify("shape", "bfinal1")
		}
	} else {
		vClassify("shape", "sync-flush")
	}
	ok := len(g.msgs) == 2
	if third != nil {
		ok = len(g.msgs) == 3
		if ok {
			ok = vAnd(vAnd(g.types[0] == MessageBinary, vEqBytes(g.msgs[0], data)), vAnd(g.types[1] == MessageText, vEqBytes(g.msgs[1], second)))
			ok = vAnd(ok, vAnd(g.types[2] == MessageBinary, vEqBytes(g.msgs[2], third)))
		}
	} else if negProbe {
		// the probe message itself must be what fails: it starts (its header is fine) and cannot be decoded
		ok = len(g.msgs) == 1 && !g.atReader
		if ok {
			ok = vAnd(g.types[0] == MessageBinary, vEqBytes(g.msgs[0], data))
		}
		vAssert(len(g.tail) == 0, "C03.deflate.no-bytes-from-foreign-history")
	} else if ok {
		ok = vAnd(vAnd(g.types[0] == MessageBinary, vEqBytes(g.msgs[0], data)), vAnd(g.types[1] == MessageText, vEqBytes(g.msgs[1], second)))
	}
	vAssert(ok, "C03.deflate.messages")
	vCheckControlReplies(t, vExpect{pongs: pings}, client, "C03.deflate")
	c.CloseNow()
	vObserve("deflate", len(g.msgs), vWireSummary(t.out))
}

// C03.raw: an endpoint reads an arbitrary byte string of N bytes (then the transport ends) in a chosen chunking; what it
// delivers, answers and where it fails is compared with the reference receiver applied to the frames an independent
// parser finds in those bytes. Non-minimal length encodings are excluded (the property leaves them unspecified).
func verifC03_raw() {
	client := vParam("client", 1) == 1
	deflate := vParam("deflate", 0)
	vInstallRand()
	N := vChoose("N", vParam("maxN", 4)+1)
	raw := vBytes("raw", N)
	// reference parse
	var frames []vFrame
	var extraPartial []byte
	pos := 0
	incomplete := false
	for pos < N {
		h, size, st := vRefDecodeHeader(raw[pos:])
		if st == vRefIncomplete {
			incomplete = true
			break
		}
		if st == vRefBadLength {
			// a violation on its own: a frame with an impossible length
			frames = append(frames, vFrame{fin: true, opcode: 3})
			break
		}
		// minimal encoding only
		if (raw[pos+1]&0x7f) == 126 && h.length < 126 || (raw[pos+1]&0x7f) == 127 && h.length < 65536 {
			vAssume(false)
		}
		if h.length > uint64(N-pos-size) {
			// the header is complete but the payload is not: the reference stops here; only header-level violations count
			f := vFrame{fin: h.fin, rsv1: h.rsv1, rsv2: h.rsv2, rsv3: h.rsv3, opcode: h.opcode, masked: h.masked, key: h.key}
			hv := vRefReceive(append(append([]vFrame{}, frames...), f), client, deflate != 0)
			if hv.failed && hv.failAt == len(frames) && !(f.opcode == 8) {
				frames = append(frames, f)
			} else {
				incomplete = true
				if f.opcode < 8 {
					// the payload bytes that did arrive are a legitimate prefix of the message in progress
					for i := pos + size; i < N; i++ {
						extraPartial = append(extraPartial, raw[i]^vIteU8(h.masked, h.key[(i-pos-size)%4], 0))
					}
				}
			}
			break
		}
		n := int(h.length)
		f := vFrame{fin: h.fin, rsv1: h.rsv1, rsv2: h.rsv2, rsv3: h.rsv3, opcode: h.opcode, masked: h.masked, key: h.key}
		f.payload = make([]byte, n)
		for i := 0; i < n; i++ {
			f.payload[i] = raw[pos+size+i] ^ vIteU8(h.masked, h.key[i%4], 0)
		}
		frames = append(frames, f)
		pos += size + n
	}
	t := vNewTransport(raw)
	t.step = vChoose("step", 2)
	c := vNewConn(t, client, vCopts(deflate), 16, 256)
	g := vReadLoop(c, 3, N+1)
	e := vRefReceive(frames, client, deflate != 0)
	if !e.failed && !e.closeRecv {
		e.partial = append(append([]byte{}, e.partial...), extraPartial...)
	}
	vReach("C03.raw.compared")
	vAssert(g.err != nil, "C03.raw.ends-with-error")
	vAssert(g.afterMsgs == 0, "C03.raw.nothing-delivered-after-the-failure")
	if len(e.msgs) > 0 {
		vReach("C03.raw.message")
	}
	if e.failed {
		vReach("C03.raw.violation")
		vAssert(CloseStatus(g.err) == -1, "C03.raw.violation-is-not-a-peer-close")
	}
	_ = incomplete
	// compressed payloads made of arbitrary bytes are malformed DEFLATE almost surely: only termination and no panic there
	compressedSeen := false
	for _, f := range frames {
		if f.rsv1 {
			compressedSeen = true
		}
	}
	if !compressedSeen {
		vCheckDelivered(g, e, "C03.raw")
		frs, ok := vParseWritten(t.out)
		vAssert(ok, "C03.raw.written-wellformed")
		var pongs [][]byte
		for _, f := range frs {
			if f.opcode == 10 {
				pongs = append(pongs, f.payload)
			}
		}
		pk := len(pongs) == len(e.pongs)
		if pk {
			for i := range pongs {
				pk = vAnd(pk, vEqBytes(pongs[i], e.pongs[i]))
			}
		}
		vAssert(pk, "C03.raw.pongs")
	}
	c.CloseNow()
	vObserve("raw", raw, len(g.msgs), vWireSummary(t.out))
}

// C03.abandon: the application reads only a part of a message and asks for the next one. The endpoint either refuses
// (the previous message was not read to its end) or skips the rest; what it may never do is take the unread payload of
// the abandoned frame for frames: a message it returns afterwards is the peer's next message, whatever the payload bytes
// of the abandoned one look like (they are arbitrary - the solver looks for bytes that parse as a frame).
func verifC03_abandon() {
	client := vParam("client", 1) == 1
	vInstallRand()
	mk := func(f vFrame) vFrame {
		f.masked = !client
		if f.masked {
			copy(f.key[:], vBytes("key", 4))
		}
		return f
	}
	n := 3 + vChoose("len", vParam("maxLen", 6))
	first := vBytes("first", n)
	next := vBytes("next", 1)
	frag := vChoose("fragmented", 2) == 1
	var frames []vFrame
	if frag {
		frames = append(frames, mk(vFrame{fin: false, opcode: 2, payload: first[:1]}), mk(vFrame{fin: true, opcode: 0, payload: first[1:]}))
	} else {
		frames = append(frames, mk(vFrame{fin: true, opcode: 2, payload: first}))
	}
	frames = append(frames, mk(vFrame{fin: true, opcode: 1, payload: next}))
	t := vNewTransport(vEncodeFrames(frames))
	t.endMode = vEndEOF
	c := vNewConn(t, client, nil, 64, 64)
	_, r, err := c.Reader(vBG)
	vAssert(err == nil, "C03.abandon.first-reader-ok")
	if err != nil {
		return
	}
	k := 1 + vChoose("readBytes", 2)
	p := make([]byte, k)
	r.Read(p)
	vReach("C03.abandon.abandoned")
	for i := 0; i < 2; i++ {
		typ, b, err := c.Read(vBG)
		if err != nil {
			continue
		}
		vAssert(vAnd(typ == MessageText, vEqBytes(b, next)), "C03.abandon.only-real-messages-are-delivered")
	}
	c.CloseNow()
	vObserve("abandon", n, k, frag)
}
