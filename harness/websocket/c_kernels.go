package websocket

// Loop-light kernels: close codes, close payload parsing, trimLastFourBytesWriter, slidingWindow.

// vRefValidWireCode: RFC 6455 7.4 / IANA registry: codes that may appear in a Close frame.
func vRefValidWireCode(c int64) bool {
	return vOr(vOr(vAnd(c >= 1000, c <= 1003), vAnd(c >= 1007, c <= 1014)), vAnd(c >= 3000, c <= 4999))
}

// C06.codes: validWireCloseCode equals the RFC/IANA table for every int.
func verifC06_codes() {
	code := vI64("code")
	got := validWireCloseCode(StatusCode(code))
	vReach("C06.codes.called")
	vAssert(got == vRefValidWireCode(code), "C06.codes.table")
	vObserve("code", code, got)
}

// C03.close-parse: parseClosePayload vs. the RFC rules for every payload of length 0..maxN.
func verifC03_close_parse() {
	maxN := vParam("maxN", 125)
	n := vChoose("n", maxN+1)
	p := vBytes("p", n)
	ce, err := parseClosePayload(p)
	vReach("C03.close-parse.called")
	switch {
	case n == 0:
		vAssert(vAnd(err == nil, ce.Code == StatusNoStatusRcvd), "C03.close-parse.empty")
	case n == 1:
		vAssert(err != nil, "C03.close-parse.one")
	default:
		code := int64(p[0])<<8 | int64(p[1])
		valid := vRefValidWireCode(code)
		if err == nil {
			vReach("C03.close-parse.accepted")
			vAssert(valid, "C03.close-parse.reject-invalid")
			vAssert(vAnd(int64(ce.Code) == code, vEqStr(ce.Reason, string(p[2:]))), "C03.close-parse.fields")
		} else {
			vReach("C03.close-parse.rejected")
			vAssert(vNot(valid), "C03.close-parse.accept-valid")
		}
	}
	vObserve("close-parse", p, int(ce.Code), err == nil)
}

// C01.trim: one step of trimLastFourBytesWriter.Write from an arbitrary state.
// Invariant: forwarded ++ tail == everything written so far, |tail| == min(4, total). Inductive over write sequences.
func verifC01_trim() {
	maxP := vParam("maxP", 9)
	t := vChoose("tailLen", 6) - 1 // -1: tail not yet allocated
	out := &vBuf{}
	tw := &trimLastFourBytesWriter{w: out}
	var old []byte
	if t >= 0 {
		tail := make([]byte, 0, 4)
		old = vBytes("tail", t)
		tail = append(tail, old...)
		tw.tail = tail
	}
	n := vChoose("n", maxP+1)
	p := vBytes("p", n)
	pcopy := append([]byte{}, p...)
	// pre-state reachable only if |tail| == min(4, total): a tail shorter than 4 means nothing was forwarded yet
	k, err := tw.Write(p)
	vReach("C01.trim.step")
	vAssert(vAnd(err == nil, k == n), "C01.trim.count")
	all := append(append([]byte{}, old...), pcopy...)
	got := append(append([]byte{}, out.b...), tw.tail...)
	vAssert(vEqBytes(got, all), "C01.trim.concat")
	want := len(all)
	if want > 4 {
		want = 4
	}
	if t >= 0 && t < 4 || t < 0 {
		vAssert(len(tw.tail) == want, "C01.trim.tail-len")
	} else {
		vAssert(len(tw.tail) == 4, "C01.trim.tail-len")
	}
	vAssert(vEqBytes(p, pcopy), "C01.trim.caller-buffer")
	vObserve("trim", out.b, tw.tail, k)
}

// C01.window: one step of slidingWindow.write from an arbitrary window: afterwards buf == last cap bytes of old ++ p.
func verifC01_window() {
	c := vParam("cap", 8)
	var fill, n int
	if vParam("big", 0) == 1 {
		// the real window size: fill levels at and just below capacity, small and capacity-sized writes
		fill = c - vChoose("fillBelow", 3)
		n = []int{0, 1, 2, 3, c - 1, c, c + 1}[vChoose("nIdx", 7)]
	} else {
		fill = vChoose("fill", c+1)
		n = vChoose("n", c+3)
	}
	old := vBytes("old", fill)
	sw := &slidingWindow{buf: make([]byte, 0, c)}
	sw.buf = append(sw.buf, old...)
	p := vBytes("p", n)
	pcopy := append([]byte{}, p...)
	sw.write(p)
	vReach("C01.window.step")
	all := append(append([]byte{}, old...), pcopy...)
	if len(all) > c {
		if fill+n > c && n < c {
			vReach("C01.window.shift")
		}
		all = all[len(all)-c:]
	}
	vAssert(vEqBytes(sw.buf, all), "C01.window.content")
	vAssert(cap(sw.buf) == c, "C01.window.cap")
	vAssert(vEqBytes(p, pcopy), "C01.window.caller-buffer")
	vObserve("window", sw.buf)
}
