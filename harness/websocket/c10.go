package websocket

import (
	"context"
	"io"
	"time"
)

func vIsOpen(c *Conn) bool {
	select {
	case <-c.closed:
		return false
	default:
		return true
	}
}

// C10.harmless: programs of calls, each with its own cancellable context; after a call succeeded its context is
// cancelled and the system runs to quiescence: the connection is still open and the next call works.
// bg=1: a background reader runs for the whole program (so Ping can be answered), ops are Write / Writer / Ping;
// bg=0: ops are Write / Writer / read of a fragmented message with an interleaved Ping.
func verifC10_harmless() {
	client := vParam("client", 1) == 1
	bg := vParam("bg", 0) == 1
	vInstallRand()
	mk := func(f vFrame) vFrame {
		f.masked = !client
		if f.masked {
			copy(f.key[:], vBytes("key", 4))
		}
		return f
	}
	nOps := vParam("ops", 2)
	ops := make([]int, nOps)
	var in []vFrame
	var gates [][2]int // (frame index, writes needed)
	writes := 0
	pingNo := 0
	var msgs [][]byte
	for i := range ops {
		ops[i] = vChoose("op", 4)
		if bg && ops[i] == 3 {
			ops[i] = 0
		}
		switch ops[i] {
		case 3: // an unfragmented message, empty or not
			msgs = append(msgs, vBytes("m", vChoose("ulen", 2)))
			in = append(in, mk(vFrame{fin: true, opcode: 2, payload: msgs[len(msgs)-1]}))
		case 0, 1:
			writes++
		case 2:
			if bg { // Ping: the matching pong arrives after the ping was written
				writes++
				pingNo++
				gates = append(gates, [2]int{len(in), writes})
				in = append(in, mk(vFrame{fin: true, opcode: 10, payload: []byte{byte('0' + pingNo)}}))
			} else { // fragmented message with an interleaved ping (answered by one pong write)
				a, b := vBytes("m", 1), vBytes("m", 1)
				msgs = append(msgs, []byte{a[0], b[0]})
				in = append(in, mk(vFrame{fin: false, opcode: 2, payload: a}), mk(vFrame{fin: true, opcode: 9, payload: vBytes("pingp", 1)}), mk(vFrame{fin: true, opcode: 0, payload: b}))
				writes++
			}
		}
	}
	var wire []byte
	offs := make([]int, len(in)+1)
	for i, f := range in {
		offs[i] = len(wire)
		wire = append(wire, vEncodeFrame(f)...)
	}
	t := vNewTransport(wire)
	t.endMode = vEndBlock
	for _, g := range gates {
		t.vGate(offs[g[0]], g[1])
	}
	c := vNewConn(t, client, nil, 32, 256)
	readerDone := make(chan struct{})
	if bg {
		go func() {
			c.Reader(vBG) // never returns a message: only control frames arrive; ends when the connection is closed
			close(readerDone)
		}()
	}
	mi := 0
	for _, op := range ops {
		ctx, cancel := context.WithCancel(vBG)
		switch {
		case op == 0:
			vAssert(c.Write(ctx, MessageBinary, vBytes("w", 2)) == nil, "C10.harmless.write-ok")
		case op == 1:
			w, err := c.Writer(ctx, MessageText)
			vAssert(err == nil, "C10.harmless.writer-ok")
			if err == nil {
				w.Write(vBytes("w", 1))
				vAssert(w.Close() == nil, "C10.harmless.writer-close-ok")
			}
		case op == 2 && bg:
			vAssert(c.Ping(ctx) == nil, "C10.harmless.ping-ok")
			vReach("C10.harmless.ping")
		case op == 3:
			typ, b, err := c.Read(ctx)
			vAssert(vAnd(err == nil, vAnd(typ == MessageBinary, vEqBytes(b, msgs[mi]))), "C10.harmless.read-unfragmented-ok")
			if len(msgs[mi]) == 0 {
				vReach("C10.harmless.read-empty-message")
			}
			mi++
		default:
			typ, r, err := c.Reader(ctx)
			vAssert(vAnd(err == nil, typ == MessageBinary), "C10.harmless.reader-ok")
			if err == nil {
				b, err := vReadAll(r, 1)
				vAssert(vAnd(err == nil, vEqBytes(b, msgs[mi])), "C10.harmless.read-ok")
			}
			mi++
			vReach("C10.harmless.read")
		}
		// success: now cancel the call's context and let everything settle
		cancel()
		vGhostSettle()
		vReach("C10.harmless.cancelled-after-success")
		vAssert(vIsOpen(c), "C10.harmless.still-open")
		vAssert(vGhostGoroutines() >= 1, "C10.harmless.timeoutloop-alive")
	}
	// a later call with a fresh context works and its bytes reach the wire
	before := len(t.out)
	vAssert(c.Write(vBG, MessageText, []byte("z")) == nil, "C10.harmless.later-write-ok")
	vAssert(len(t.out) > before, "C10.harmless.later-write-on-wire")
	vAssert(vGhostElapsed() < 3*time.Second+vSlack(), "C10.harmless.no-waiting")
	c.CloseNow()
	if bg {
		<-readerDone
	}
	vObserve("harmless", vWireSummary(t.out))
}

// C10.cancel: the context of a blocked call is cancelled after one second: the call returns an error at that moment and
// the connection is closed.
func verifC10_cancel() {
	client := vParam("client", 1) == 1
	vInstallRand()
	t := vNewTransport(nil)
	t.endMode = vEndBlock
	which := vChoose("call", 10)
	if which == 1 || which == 2 {
		t.writeBlock = true
	}
	if which == 5 {
		// a read that has to answer a Ping while the peer does not read: the Pong write blocks inside the read call
		p := vFrame{fin: true, opcode: 9, masked: !client, payload: vBytes("pingp", vChoose("plen", 2))}
		if p.masked {
			copy(p.key[:], vBytes("key", 4))
		}
		t = vNewTransport(vEncodeFrame(p))
		t.endMode = vEndBlock
		t.writeBlock = true
		vReach("C10.cancel.blocked-pong")
	}
	if which == 6 || which == 7 {
		// a read that has to send a Close frame - the 1002 for a protocol violation of the peer (6), the echo of the
		// peer's Close frame (7) - while the peer does not read: the Close frame's write blocks inside the read call
		p := vFrame{fin: true, opcode: 2, rsv2: true, masked: !client, payload: vBytes("m", 1)}
		if which == 7 {
			p = vFrame{fin: true, opcode: 8, masked: !client, payload: []byte{0x03, 0xe8}}
		}
		if p.masked {
			copy(p.key[:], vBytes("key", 4))
		}
		t = vNewTransport(vEncodeFrame(p))
		t.endMode = vEndBlock
		t.writeBlock = true
		vReach("C10.cancel.blocked-close-frame")
	}
	if which == 8 || which == 9 {
		// a control frame (a Ping that is answered, an unsolicited Pong) is handled inside the read call, then the peer
		// goes silent: the call is still bounded by its context
		p := vFrame{fin: true, opcode: uint8(9 + (which - 8)), masked: !client, payload: vBytes("pingp", 1)}
		if p.masked {
			copy(p.key[:], vBytes("key", 4))
		}
		t = vNewTransport(vEncodeFrame(p))
		t.endMode = vEndBlock
		vReach("C10.cancel.after-handled-control-frame")
	}
	vClassify("call", []string{"reader", "write", "ping", "read-body", "streamed-write", "blocked-pong", "blocked-error-close-frame", "blocked-close-echo", "reader-after-handled-ping", "reader-after-handled-pong"}[which])
	c := vNewConn(t, client, nil, 32, 64)
	ctx, cancel := context.WithCancel(vBG)
	byTimeout := vChoose("how", 2) == 1
	if byTimeout {
		ctx, cancel = context.WithTimeout(vBG, time.Second)
	} else {
		go func() {
			time.Sleep(time.Second)
			cancel()
		}()
	}
	start := vGhostElapsed()
	var err error
	switch which {
	case 0, 5, 6, 7, 8, 9:
		_, _, err = c.Reader(ctx)
	case 1:
		err = c.Write(ctx, MessageBinary, vBytes("w", 2))
	case 2:
		err = c.Ping(ctx)
	case 4:
		// a streamed message: the first chunk stays in the write buffer and leaves only a few bytes free; the header of
		// the next (non-final) frame then forces a flush, which blocks because the peer does not read
		cancel()
		c.CloseNow()
		t = vNewTransport(nil)
		t.endMode = vEndBlock
		t.writeBlock = true
		c = vNewConn(t, client, nil, 32, 32)
		ctx, cancel = context.WithTimeout(vBG, time.Second)
		var w io.WriteCloser
		w, err = c.Writer(ctx, MessageBinary)
		vAssert(err == nil, "C10.cancel.writer-ok")
		if err == nil {
			hdr := 2
			if client {
				hdr = 6
			}
			free := vChoose("freeAfterFirst", 4) // bytes left in the 32-byte buffer after the first frame
			_, err = w.Write(vBytes("w", 32-hdr-free))
			vAssert(err == nil, "C10.cancel.first-chunk-buffered")
			start = vGhostElapsed()
			_, err = w.Write(vBytes("w", 1+vChoose("second", 3)))
			if err == nil {
				// everything still fitted: closing the writer must flush, and block
				err = w.Close()
			}
		}
		vReach("C10.cancel.blocked-flush")
	case 3:
		// reading the body of a message whose payload never arrives completely
		cancel()
		c.CloseNow()
		f := vFrame{fin: true, opcode: 2, masked: !client, payload: vBytes("m", 3)}
		enc := vEncodeFrame(f)
		t = vNewTransport(enc[:len(enc)-1])
		t.endMode = vEndBlock
		c = vNewConn(t, client, nil, 32, 64)
		ctx, cancel = context.WithTimeout(vBG, time.Second)
		var r interface{ Read([]byte) (int, error) }
		_, r, err = c.Reader(ctx)
		vAssert(err == nil, "C10.cancel.reader-ok")
		if err == nil {
			_, err = vReadAll(r, 8)
		}
	}
	took := vGhostElapsed() - start
	vReach("C10.cancel.returned")
	vAssert(err != nil, "C10.cancel.error")
	vAssert(vAnd(took >= time.Second-50*time.Millisecond, took < 2*time.Second+vSlack()), "C10.cancel.prompt")
	vGhostSettle()
	vAssert(vNot(vIsOpen(c)), "C10.cancel.closed")
	cancel()
	vAssert(c.CloseNow() != nil || true, "C10.cancel.closenow")
	vAssert(vGhostGoroutines() == 0, "C10.cancel.no-goroutines")
	vObserve("cancel", which, err != nil)
}

// C10.pipelined: two messages sent back to back reach the endpoint in two segments, the first ending anywhere inside the
// first message (inside its header, between header and payload, inside the payload), the second carrying the rest and
// the whole second message. The first read succeeds; cancelling its context afterwards is harmless: the connection stays
// open and a read with a fresh context returns the second message.
func verifC10_pipelined() {
	client := vParam("client", 1) == 1
	vInstallRand()
	n1 := 1 + vChoose("n1", 3)
	m1, m2 := vBytes("m1", n1), vBytes("m2", 1+vChoose("n2", 4))
	frames := vDataFrames(m1, nil, 2, false, client)
	frames = append(frames, vDataFrames(m2, nil, 1, false, client)...)
	wire := vEncodeFrames(frames)
	firstLen := len(vEncodeFrame(frames[0]))
	t := vNewTransport(wire)
	t.endMode = vEndBlock
	t.first = 1 + vChoose("seg1", firstLen) // 1..len(first frame): where the first segment ends
	c := vNewConn(t, client, nil, 32, 64)
	ctx1, cancel1 := context.WithCancel(vBG)
	var b1 []byte
	var err1 error
	if vChoose("api", 2) == 0 {
		_, b1, err1 = c.Read(ctx1)
	} else {
		var r io.Reader
		_, r, err1 = c.Reader(ctx1)
		if err1 == nil {
			b1, err1 = vReadAll(r, 1+vChoose("buf", 2)*3)
		}
	}
	vReach("C10.pipelined.first-read")
	vAssert(vAnd(err1 == nil, vEqBytes(b1, m1)), "C10.pipelined.first-read-ok")
	cancel1()
	vGhostSettle()
	vAssert(vIsOpen(c), "C10.pipelined.still-open-after-cancel")
	typ, b2, err2 := c.Read(vBG)
	vAssert(vAnd(err2 == nil, vAnd(typ == MessageText, vEqBytes(b2, m2))), "C10.pipelined.second-read-ok")
	c.CloseNow()
	vObserve("pipelined", t.first, len(b1), err2 == nil)
}

// C10.pong-queued: a Read has to answer a Ping while another goroutine's Write holds the frame lock (stuck in the
// transport): the Pong waits for the lock under the Read's context. When that context is cancelled the Read returns
// promptly with an error (and does not get entangled in the locks it holds itself).
func verifC10_pong_queued() {
	client := vParam("client", 1) == 1
	vInstallRand()
	mk := func(f vFrame) vFrame {
		f.masked = !client
		if f.masked {
			copy(f.key[:], vBytes("key", 4))
		}
		return f
	}
	t := vNewTransport(nil)
	t.endMode = vEndBlock
	t.holdAt = 1
	c := vNewConn(t, client, nil, 32, 64)
	wdone := make(chan error, 1)
	go func() { wdone <- c.Write(vBG, MessageBinary, vBytes("w", 2)) }()
	vGhostSettle()
	ctx, cancel := context.WithCancel(vBG)
	rdone := make(chan error, 1)
	go func() {
		_, _, err := c.Read(ctx)
		rdone <- err
	}()
	vGhostSettle()
	t.vFeed(vEncodeFrame(mk(vFrame{fin: true, opcode: 9, payload: vBytes("p", 1)})))
	vGhostSettle() // the Read is waiting for the frame lock to write its Pong
	start := vGhostElapsed()
	cancel()
	select {
	case err := <-rdone:
		vAssert(err != nil, "C10.cancel.call-fails")
	case <-time.After(10 * time.Second):
		vAssert(false, "C10.cancel.returns-promptly")
	}
	vReach("C10.pong-queued.read-returned")
	vAssert(vGhostElapsed()-start < time.Second+vSlack(), "C10.cancel.returns-promptly")
	close(t.release)
	done := make(chan struct{})
	go func() {
		c.CloseNow()
		close(done)
	}()
	select {
	case <-done:
	case <-time.After(20 * time.Second):
		vAssert(false, "C09.closenow.returns")
	}
	<-wdone
	vObserve("c10pongqueued", 0)
}
