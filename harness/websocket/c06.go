package websocket

import (
	"errors"
	"net"
	"time"
)

var vReasonLens = []int{0, 1, 123, 124, 130}

// vFirstClose returns the payload of the first Close frame in a written stream (found=false if there is none),
// the number of Close frames, and whether any frame at all follows the first Close frame.
func vCloseFrames(out []byte) (first []byte, nClose int, afterClose int, ok bool) {
	frames, ok := vParseWritten(out)
	for _, f := range frames {
		if nClose > 0 {
			afterClose++
		}
		if f.opcode == 8 {
			if nClose == 0 {
				first = f.payload
			}
			nClose++
		}
	}
	return
}

// C06.send / C06.result / C06.after: Close(code, reason) against a scripted peer.
func verifC06_close() {
	client := vParam("client", 1) == 1
	vInstallRand()
	code := vI64("code")
	rl := vReasonLens[vChoose("reasonLen", vParam("reasonLens", 5))]
	reason := vBytes("reason", rl)
	// reasons are byte strings: besides arbitrary (symbolic) bytes, two concrete shapes in which bytes, characters and
	// "cleaned-up" bytes differ in number: isolated invalid UTF-8 bytes, and two-byte characters
	switch vChoose("reasonKind", 3) {
	case 1:
		for i := range reason {
			reason[i] = []byte{0xff, 'a'}[i%2]
		}
	case 2:
		for i := range reason {
			reason[i] = []byte{0xc3, 0xa9}[i%2]
		}
		if rl%2 == 1 {
			reason[rl-1] = 'a'
		}
	}
	// the peer: optionally one data frame that must be discarded, then its Close frame (or silence / EOF)
	var peer []vFrame
	mk := func(f vFrame) vFrame {
		f.masked = !client
		if f.masked {
			copy(f.key[:], vBytes("key", 4))
		}
		return f
	}
	if vChoose("peerData", 2) == 1 {
		peer = append(peer, mk(vFrame{fin: true, opcode: 2, payload: vBytes("junk", 2)}))
	}
	reply := vChoose("reply", 4) // 0: echo a close with symbolic code, 1: empty close, 2: EOF, 3: silence
	var peerCode int64
	switch reply {
	case 0:
		pc := vBytes("peerCode", 2)
		peerCode = int64(pc[0])<<8 | int64(pc[1])
		vAssume(vRefValidWireCode(peerCode))
		peer = append(peer, mk(vFrame{fin: true, opcode: 8, payload: pc}))
	case 1:
		peerCode = 1005
		peer = append(peer, mk(vFrame{fin: true, opcode: 8}))
	}
	t := vNewTransport(vEncodeFrames(peer))
	if reply == 3 {
		t.endMode = vEndBlock
	}
	c := vNewConn(t, client, nil, 16, 256)
	err := c.Close(StatusCode(code), string(reason))
	vReach("C06.close.returned")

	sendable := vRefValidWireCode(code)
	first, nClose, _, ok := vCloseFrames(t.out)
	vAssert(ok, "C06.send.wellformed")
	if code == 1005 {
		vReach("C06.close.nostatus")
		vAssert(vAnd(nClose >= 1, len(first) == 0), "C06.send.nostatus-empty-payload")
	} else if sendable && rl <= 123 {
		vReach("C06.close.sendable")
		good := nClose >= 1 && len(first) == 2+rl
		if good {
			vAssert(vAnd(int64(first[0])<<8|int64(first[1]) == code, vEqBytes(first[2:], reason)), "C06.send.code-and-reason")
		} else {
			vAssert(false, "C06.send.code-and-reason")
		}
	} else {
		vReach("C06.close.unsendable")
		vAssert(nClose == 0, "C06.send.unsendable-not-sent")
		vAssert(err != nil, "C06.send.unsendable-error")
	}
	// result: the peer echoed our code => nil
	if (reply == 0 || reply == 1) && (sendable && rl <= 123 || code == 1005) {
		if peerCode == code {
			vReach("C06.close.echoed")
			vAssert(err == nil, "C06.result.nil-on-echo")
		}
	}
	// closed for good, whatever Close returned, and nothing left running
	vAssert(vNot(vIsOpen(c)), "C06.after.closed-for-good")
	vGhostSettle()
	vAssert(vGhostGoroutines() == 0, "C20.exit.no-goroutine-after-close")
	_, _, e1 := c.Reader(vBG)
	e2 := c.Write(vBG, MessageText, []byte("x"))
	_, e3 := c.Writer(vBG, MessageText)
	e4 := c.Ping(vBG)
	vAssert(vAnd(vAnd(e1 != nil, e2 != nil), vAnd(e3 != nil, e4 != nil)), "C06.after.calls-fail")
	var l1, l2 error
	if vChoose("later", 2) == 0 {
		l1 = c.Close(StatusNormalClosure, "")
		l2 = c.CloseNow()
	} else {
		l1 = c.CloseNow()
		l2 = c.Close(StatusNormalClosure, "")
	}
	vAssert(vAnd(errors.Is(l1, net.ErrClosed), errors.Is(l2, net.ErrClosed)), "C06.after.errclosed")
	vObserve("close", vWireSummary(t.out), err == nil, nClose)
}

// C06.after (CloseNow first): after CloseNow every call fails and later closes return net.ErrClosed.
func verifC06_closenow() {
	client := vParam("client", 1) == 1
	vInstallRand()
	t := vNewTransport(nil)
	t.endMode = vEndBlock
	c := vNewConn(t, client, nil, 16, 64)
	if vChoose("wrote", 2) == 1 {
		vAssert(c.Write(vBG, MessageBinary, vBytes("p", 2)) == nil, "C06.closenow.write")
	}
	err := c.CloseNow()
	vReach("C06.closenow.returned")
	vAssert(err == nil, "C06.closenow.nil")
	_, _, e1 := c.Reader(vBG)
	e2 := c.Write(vBG, MessageText, []byte("x"))
	_, e3 := c.Writer(vBG, MessageText)
	e4 := c.Ping(vBG)
	vAssert(vAnd(vAnd(e1 != nil, e2 != nil), vAnd(e3 != nil, e4 != nil)), "C06.after.calls-fail")
	l1 := c.Close(StatusNormalClosure, "")
	l2 := c.CloseNow()
	l3 := c.Close(StatusGoingAway, "x")
	vAssert(vAnd(errors.Is(l1, net.ErrClosed), vAnd(errors.Is(l2, net.ErrClosed), errors.Is(l3, net.ErrClosed))), "C06.after.errclosed")
	_, nClose, _, _ := vCloseFrames(t.out)
	vAssert(nClose == 0, "C06.closenow.no-close-frame")
	vObserve("closenow", vWireSummary(t.out))
}

// C06.result.sched (exploration mode): Close with a CloseRead reader active; the peer echoes the Close frame and hangs
// up. Whichever goroutine gets to read the echo, under every interleaving within the preemption bound, Close returns nil.
func verifC06_close_sched() {
	client := vParam("client", 1) == 1
	vInstallRand()
	echo := vFrame{fin: true, opcode: 8, masked: !client, payload: []byte{0x03, 0xe8}}
	if echo.masked {
		copy(echo.key[:], vBytes("key", 4))
	}
	t := vNewTransport(vEncodeFrame(echo))
	t.endMode = vEndEOF
	t.vGate(0, 1) // the echo arrives once our Close frame has been written
	c := vNewConn(t, client, nil, 16, 64)
	withCloseRead := vParam("closeread", 1) == 1
	if withCloseRead {
		c.CloseRead(vBG)
		vGhostSettle()
	}
	vGhostExplore(vParam("preempt", 2))
	err := c.Close(StatusNormalClosure, "")
	vGhostExploreOff()
	vReach("C06.sched.returned")
	vAssert(err == nil, "C06.result.nil-on-echo-any-schedule")
	first, nClose, after, ok := vCloseFrames(t.out)
	vAssert(vAnd(ok, vAnd(nClose == 1, after == 0)), "C16.sched.single-close-frame")
	if ok && nClose == 1 {
		vAssert(len(first) == 2, "C06.sched.close-payload")
	}
	vGhostSettle() // goroutines that have signalled completion finish returning
	vAssert(vGhostGoroutines() == 0, "C20.sched.no-goroutine-left")
	vObserve("close-sched", nClose)
}

// C06.recv: the peer closes: a Close frame with any valid wire code and a reason of 0..123 bytes (also the empty
// payload) arrives before, between or after messages; the read at that message boundary fails with a CloseError holding
// exactly that code and reason (CloseStatus returns the code), the frame is echoed with the same code and reason, and
// the connection is closed for good afterwards.
func verifC06_recv() {
	client := vParam("client", 1) == 1
	vInstallRand()
	mk := func(f vFrame) vFrame {
		f.masked = !client
		if f.masked {
			copy(f.key[:], vBytes("key", 4))
		}
		return f
	}
	nBefore := vChoose("before", 3)
	var frames []vFrame
	for i := 0; i < nBefore; i++ {
		frames = append(frames, mk(vFrame{fin: true, opcode: 2, payload: vBytes("m", 1)}))
	}
	var payload []byte
	var code int64 = 1005
	var reason []byte
	if vChoose("empty", 2) == 0 {
		pc := vBytes("peerCode", 2)
		code = int64(pc[0])<<8 | int64(pc[1])
		vAssume(vRefValidWireCode(code))
		reason = vBytes("reason", []int{0, 1, 122, 123}[vChoose("reasonLen", vParam("reasonLens", 4))])
		payload = append(append([]byte{}, pc...), reason...)
	}
	frames = append(frames, mk(vFrame{fin: true, opcode: 8, payload: payload}))
	t := vNewTransport(vEncodeFrames(frames))
	t.endMode = vEndBlock
	t.step = vChoose("step", 2) * 7
	// the peer may be gone by the time the echo is written (it sent its Close frame and hung up): the echo's write fails;
	// the Close frame was received all the same and is reported the same way
	peerGone := vChoose("peerGone", 2) == 1
	if peerGone {
		t.writeErrAt = 1
		vReach("C06.recv.echo-write-fails")
	}
	c := vNewConn(t, client, nil, 16, 256)
	for i := 0; i < nBefore; i++ {
		_, _, err := c.Read(vBG)
		vAssert(err == nil, "C06.recv.messages-before-close")
	}
	_, _, err := c.Read(vBG)
	vReach("C06.recv.read-returned")
	var ce CloseError
	if errors.As(err, &ce) {
		vAssert(vAnd(int64(ce.Code) == code, vEqStr(ce.Reason, string(reason))), "C06.recv.close-error-holds-code-and-reason")
		vAssert(int64(CloseStatus(err)) == code, "C06.recv.close-status")
	} else {
		vAssert(false, "C06.recv.read-fails-with-close-error")
	}
	first, nClose, _, ok := vCloseFrames(t.out)
	if !peerGone {
		vAssert(vAnd(ok, nClose == 1), "C06.recv.one-echo")
		if nClose >= 1 {
			vAssert(vEqBytes(first, payload), "C06.recv.echo-same-code-and-reason")
		}
	}
	vAssert(vNot(vIsOpen(c)), "C06.recv.closed-for-good")
	_, _, e1 := c.Reader(vBG)
	e2 := c.Write(vBG, MessageText, []byte("x"))
	vAssert(vAnd(e1 != nil, e2 != nil), "C06.recv.calls-fail")
	c.CloseNow()
	vObserve("c06recv", nBefore, code, len(reason))
}

// C06.echo-window: Close with a reader pending (a Read or the CloseRead goroutine): the pending reader consumes the
// peer's echo, and the peer hangs up right behind it. The reader is held up at the last moment - after it has released
// the read lock, before it closes the connection (the harness holds closeMu, which Conn.close takes first) - so that
// Close gets the read lock in exactly that window: it must report the completed handshake (nil), not the hang-up.
// A pinned schedule instead of an explored one: deterministic in the engine and in the native replay.
func verifC06_echo_window() {
	client := vParam("client", 1) == 1
	vInstallRand()
	t := vNewTransport(nil)
	t.endMode = vEndBlock
	c := vNewConn(t, client, nil, 32, 64)
	viaCloseRead := vChoose("reader", 2) == 1
	rdone := make(chan error, 1)
	if viaCloseRead {
		c.CloseRead(vBG)
	} else {
		go func() {
			_, _, err := c.Read(vBG)
			rdone <- err
		}()
	}
	vGhostSettle()
	cdone := make(chan error, 1)
	go func() { cdone <- c.Close(StatusNormalClosure, "") }()
	vGhostSettle() // Close has sent its frame and waits for the read lock
	c.closeMu.Lock()
	echo := vFrame{fin: true, opcode: 8, masked: !client, payload: []byte{0x03, 0xe8}}
	if echo.masked {
		copy(echo.key[:], vBytes("key", 4))
	}
	t.endMode = vEndEOF // the peer hangs up right after its echo
	t.vFeed(vEncodeFrame(echo))
	vGhostSettle()
	c.closeMu.Unlock()
	err := <-cdone
	vReach("C06.echo-window.close-returned")
	vAssert(err == nil, "C06.result.nil-on-echo")
	if !viaCloseRead {
		rerr := <-rdone
		vAssert(rerr != nil, "C06.echo-window.reader-fails")
	}
	c.CloseNow()
	vObserve("c06window", err == nil)
}

// C06.echo-vs-close: the peer's Close frame has been read and its echo is being written - slowly: the peer has not
// taken it yet - when the application calls Close. Whoever writes it, one Close frame reaches the peer (the transport is
// healthy: the held write is released a moment later); Close must not tear the transport down under the Close frame that
// is on its way. Pinned by the transport (the first transport write is held), no exploration.
func verifC06_echo_vs_close() {
	client := vParam("client", 1) == 1
	vInstallRand()
	t := vNewTransport(nil)
	t.endMode = vEndBlock
	t.holdAt = 1
	c := vNewConn(t, client, nil, 32, 64)
	rdone := make(chan error, 1)
	viaCloseRead := vChoose("reader", 2) == 1
	if viaCloseRead {
		c.CloseRead(vBG)
	} else {
		go func() {
			_, _, err := c.Read(vBG)
			rdone <- err
		}()
	}
	vGhostSettle()
	cl := vFrame{fin: true, opcode: 8, masked: !client, payload: []byte{0x03, 0xe8}}
	if cl.masked {
		copy(cl.key[:], vBytes("key", 4))
	}
	t.vFeed(vEncodeFrame(cl))
	vGhostSettle() // the reader is inside the echo's transport write
	cdone := make(chan error, 1)
	go func() { cdone <- c.Close(StatusGoingAway, "x") }()
	vGhostSettle()
	close(t.release) // the peer takes what is being written
	<-cdone
	if !viaCloseRead {
		rerr := <-rdone
		vAssert(int(CloseStatus(rerr)) == 1000, "C06.recv.read-fails-with-close-error")
	}
	vGhostSettle()
	vReach("C06.echo-vs-close.done")
	first, nClose, after, ok := vCloseFrames(t.out)
	vAssert(ok && nClose == 1 && after == 0, "C06.echo-vs-close.one-close-frame-reaches-the-peer")
	if nClose == 1 && len(first) >= 2 {
		code := int(first[0])<<8 | int(first[1])
		vAssert(code == 1000 || code == 1001, "C06.echo-vs-close.code")
	}
	vAssert(vGhostElapsed() < 11*time.Second+vSlack(), "C09.close.within-documented-bound")
	c.CloseNow()
	vObserve("c06echovsclose", nClose)
}
