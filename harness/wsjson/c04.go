package wsjson

import (
	"context"
	"encoding/json"

	"nhooyr.io/websocket"
)

// C04.wsjson: a message as wsjson.Write sends it (document + newline, possibly fragmented) is cut at every byte offset
// of its frame stream; wsjson.Read succeeds only when the whole message, up to the end of its final frame, arrived.
func verifC04_wsjson() {
	client := websocket.VerifParam("client", 1) == 1
	doc := vDocs[websocket.VerifChoose("doc", len(vDocs))]
	payload := []byte(doc + "\n")
	var cuts []int
	switch websocket.VerifChoose("frag", 3) {
	case 1:
		cuts = []int{websocket.VerifChoose("fragAt", len(payload)+1)}
	case 2: // the value in one fragment, the newline in the final one
		cuts = []int{len(doc)}
	}
	msgs := []websocket.VerifMsg{{Text: true, Payload: payload, Cuts: cuts}}
	// total length first (whole stream), then the cut connection
	_, total := websocket.VerifCutConn(client, msgs, 0, -1, 0)
	cut := websocket.VerifChoose("cut", total+1)
	end := websocket.VerifChoose("end", 3)
	c, _ := websocket.VerifCutConn(client, msgs, websocket.VerifChoose("step", 2), cut, end)
	var v json.RawMessage
	err := Read(context.Background(), c, &v)
	websocket.VerifReach("C04.wsjson.read")
	if cut < total {
		websocket.VerifReach("C04.wsjson.truncated")
		websocket.VerifAssert(err != nil, "C04.wsjson.truncated-message-is-error")
	} else {
		websocket.VerifReach("C04.wsjson.complete")
		websocket.VerifAssert(err == nil, "C04.wsjson.complete-noerr")
		websocket.VerifAssert(string(v) == doc, "C04.wsjson.complete-value")
	}
	c.CloseNow()
	websocket.VerifObserve("c04wsjson", cut, total, err == nil)
}
