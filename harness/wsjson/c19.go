package wsjson

import (
	"bytes"
	"context"
	"encoding/json"
	"math"
	"strings"

	"nhooyr.io/websocket"
	"nhooyr.io/websocket/internal/bpool"
)

var vDocs = []string{`"ab"`, `{"k":[1,2,{"x":null}]}`, `12345`, `[true,false,"é"]`}
var vBadDocs = []string{`{"k":`, `nope`, ``, `[1,2`, `{"a":1} trailing`, `{"a":1}{"a":2}`, `1 2`, `[1]]`}

// C19.write: wsjson.Write sends exactly one text message whose payload is the JSON encoding of the value. A value that
// has no JSON encoding (NaN, a RawMessage that is not JSON) makes Write fail and puts nothing on the wire: the next
// value written is the next message the peer gets.
func verifC19_write() {
	client := websocket.VerifParam("client", 1) == 1
	c, out := websocket.VerifScriptedConn(client, nil, 0)
	if k := websocket.VerifChoose("unencodable", 4); k > 0 {
		var bad interface{}
		switch k {
		case 1:
			bad = math.NaN()
		case 2:
			bad = json.RawMessage(`{"k":`)
		case 3:
			bad = json.RawMessage(``)
		}
		err := Write(context.Background(), c, bad)
		websocket.VerifReach("C19.write.unencodable")
		websocket.VerifAssert(err != nil, "C19.write.unencodable-is-error")
		_, payloads, ok := websocket.VerifDataMessages(out())
		// (no data message: whether the library also gives up the connection on such a failure is its own choice)
		websocket.VerifAssert(ok && len(payloads) == 0, "C19.write.failed-write-sends-no-message")
	}
	if websocket.VerifChoose("failedWriteElsewhere", 2) == 1 {
		// a write on another connection has failed before (that connection was closed); whatever the library pools
		// between writes must not carry that failure over to this connection
		websocket.VerifGhostPoolMode(0)
		d, _ := websocket.VerifScriptedConn(client, nil, 0)
		d.CloseNow()
		derr := Write(context.Background(), d, json.RawMessage(`1`))
		websocket.VerifAssert(derr != nil, "C19.write.closed-connection-is-error")
		websocket.VerifReach("C19.write.after-a-failed-write-elsewhere")
	}
	doc := vDocs[websocket.VerifChoose("doc", len(vDocs))]
	v := json.RawMessage(doc)
	if websocket.VerifChoose("nilRaw", 2) == 1 {
		// a nil RawMessage is a value with an encoding of its own: null
		v = nil
		doc = "null"
	}
	err := Write(context.Background(), c, v)
	websocket.VerifReach("C19.write.done")
	websocket.VerifAssert(err == nil, "C19.write.noerr")
	texts, payloads, ok := websocket.VerifDataMessages(out())
	websocket.VerifAssert(ok && len(payloads) == 1, "C19.write.one-message")
	if ok && len(payloads) == 1 {
		websocket.VerifAssert(texts[0], "C19.write.text-type")
		// (the encoder's trailing newline is white space: with or without it the payload is the value's encoding)
		websocket.VerifAssert(string(payloads[0]) == doc+"\n" || string(payloads[0]) == doc, "C19.write.payload-is-encoding")
	}
	c.CloseNow()
	websocket.VerifObserve("write", websocket.VerifWireSummary(out()))
}

// C19.read: wsjson.Read decodes exactly one message (however fragmented) into its target, a second Read gets the next
// message and earlier results are unaffected by buffer reuse; an invalid document yields an error and a 1007 close.
func verifC19_read() {
	client := websocket.VerifParam("client", 1) == 1
	websocket.VerifGhostPoolMode(0) // pool hits: the second read reuses the first read's buffer
	websocket.VerifGhostPoolMonitor(true)
	var d1, d2 string
	bad := false
	bytesTarget := false
	if websocket.VerifParam("typed", 0) == 1 {
		d1 = vIntDocs[websocket.VerifChoose("idoc1", len(vIntDocs))]
		bytesTarget = websocket.VerifChoose("bytesTarget", 2) == 1
		if websocket.VerifParam("strTarget", 0) == 1 {
			// a *string target: JSON strings with a raw control character inside the quotes, a bad escape, not a string
			bytesTarget = false
			d2 = vBadStrDocs[websocket.VerifChoose("sdoc2", len(vBadStrDocs))]
		} else if bytesTarget {
			d2 = vBadBytesDocs[websocket.VerifChoose("bdoc2", len(vBadBytesDocs))]
		} else {
			d2 = vBadIntDocs[websocket.VerifChoose("idoc2", len(vBadIntDocs))]
		}
	} else {
		d1 = vDocs[websocket.VerifChoose("doc1", len(vDocs))]
		bad = websocket.VerifChoose("bad", 2) == 1
		if bad {
			d2 = vBadDocs[websocket.VerifChoose("doc2", len(vBadDocs))]
		} else {
			d2 = vDocs[websocket.VerifChoose("doc2", len(vDocs))]
		}
	}
	var cuts1 []int
	if websocket.VerifChoose("frag", 2) == 1 {
		cuts1 = []int{websocket.VerifChoose("cut", len(d1)+1)}
	}
	msgs := []websocket.VerifMsg{{Text: true, Payload: []byte(d1), Cuts: cuts1}, {Text: websocket.VerifChoose("secondText", 2) == 1, Payload: []byte(d2)}}
	c, out := websocket.VerifScriptedConn(client, msgs, websocket.VerifChoose("step", 2))
	var v1, v2 json.RawMessage
	if websocket.VerifParam("typed", 0) == 1 {
		verifC19ReadTyped(c, out, bytesTarget)
		return
	}
	err1 := Read(context.Background(), c, &v1)
	websocket.VerifReach("C19.read.first")
	websocket.VerifAssert(err1 == nil, "C19.read.first-noerr")
	websocket.VerifAssert(string(v1) == d1, "C19.read.first-value")
	err2 := Read(context.Background(), c, &v2)
	if bad {
		websocket.VerifReach("C19.read.invalid")
		websocket.VerifAssert(err2 != nil, "C19.read.invalid-is-error")
		code, n := websocket.VerifCloseCode(out())
		websocket.VerifAssert(n == 1 && code == 1007, "C19.read.invalid-closes-1007")
	} else {
		websocket.VerifReach("C19.read.second")
		websocket.VerifAssert(err2 == nil, "C19.read.second-noerr")
		websocket.VerifAssert(string(v2) == d2, "C19.read.second-value")
		_, n := websocket.VerifCloseCode(out())
		websocket.VerifAssert(n == 0, "C19.read.no-close")
	}
	// the pooled buffer is returned exactly once per read and not used afterwards
	websocket.VerifAssertGhost(websocket.VerifGhostPoolViolations() == 0, "C19.pool.discipline")
	// the first result does not alias the pooled buffer reused by the second read
	websocket.VerifAssert(string(v1) == d1, "C19.pool.first-value-intact")
	c.CloseNow()
	websocket.VerifObserve("read", string(v1), string(v2), err2 == nil)
}

var vIntDocs = []string{`12`, `-7`}

// documents that are invalid for (or as) a string: raw control characters inside the quotes are not JSON
var vBadStrDocs = []string{"\"a\tb\"", "\"a\nb\"", "\"a\x00\"", "\"\x1f\"", `"a\qb"`, `12`, `"unterminated`}

// documents that are invalid for a []byte target: strings that are not base64, and other kinds of value
var vBadBytesDocs = []string{`"x"`, `"@@@@"`, `1.5`, `{"a":1}`}

var vBadIntDocs = []string{`"x"`, `"@@@@"`, `1.5`, `{"a":1}`, `[1]`, `99999999999999999999`,
	`111111111111111111111111111111111111111111111111111111111111111111111111111111111111111111111111111111111111111111111111111111111111111111111111111111`}

// typed targets: a document that is valid JSON but not valid for the target (wrong type, out of range -- the decoder's
// error text then echoes the literal, however long) is an error and closes with 1007 like any other invalid message.
func verifC19ReadTyped(c *websocket.Conn, out func() []byte, bytesTarget bool) {
	var n1, n2 int
	err1 := Read(context.Background(), c, &n1)
	websocket.VerifReach("C19.read.typed-first")
	websocket.VerifAssert(err1 == nil && (n1 == 12 || n1 == -7), "C19.read.typed-first-value")
	var err2 error
	if websocket.VerifParam("strTarget", 0) == 1 {
		var s2 string
		err2 = Read(context.Background(), c, &s2)
	} else if bytesTarget {
		// a []byte target: the second document is a JSON string or not, but never base64 - invalid for the target with
		// an error that is neither a syntax error nor a type error of the decoder
		var b2 []byte
		err2 = Read(context.Background(), c, &b2)
	} else {
		err2 = Read(context.Background(), c, &n2)
	}
	websocket.VerifReach("C19.read.typed-invalid")
	websocket.VerifAssert(err2 != nil, "C19.read.invalid-is-error")
	code, n := websocket.VerifCloseCode(out())
	websocket.VerifAssert(n == 1 && code == 1007, "C19.read.invalid-closes-1007")
	c.CloseNow()
	websocket.VerifObserve("read-typed", n1, err2 == nil)
}

// C19.bpool: one step of the buffer pool from an arbitrary buffer state (any capacity up to and beyond 1 MiB, any
// content): after Put, the buffer Get hands out - whichever it is - is empty, and what is read into it is exactly what
// the reader supplied. wsjson.Read decodes the bytes of that buffer: a buffer that does not come back empty turns the
// next valid message into an invalid one. (The step is what every history reduces to; a >1 MiB message itself is
// outside the bounds of C19.read.)
func verifC19_bpool() {
	websocket.VerifGhostPoolMode(0)
	caps := []int{0, 1, 64, 4096, 4097, 1 << 20, 1<<20 + 1, 3 << 20}
	cp := caps[websocket.VerifChoose("cap", len(caps))]
	b := bytes.NewBuffer(make([]byte, 0, cp))
	fill := websocket.VerifChoose("fill", 3)
	switch fill {
	case 1:
		b.WriteString(`{"old":1}`)
	case 2:
		b.Write(make([]byte, cp)) // filled to capacity
	}
	bpool.Put(b)
	g := bpool.Get()
	websocket.VerifReach("C19.bpool.got")
	websocket.VerifAssert(g.Len() == 0, "C19.bpool.buffer-from-the-pool-is-empty")
	g.ReadFrom(strings.NewReader(`[1,2]`))
	websocket.VerifAssert(string(g.Bytes()) == `[1,2]`, "C19.bpool.holds-exactly-what-was-read")
	bpool.Put(g)
	// buffers that are out at the same time are different buffers, also after a burst of returns larger than any
	// internal ring or free list
	const burst = 10
	var out1, out2 []*bytes.Buffer
	for i := 0; i < burst; i++ {
		out1 = append(out1, bpool.Get())
	}
	for _, x := range out1 {
		bpool.Put(x)
	}
	for i := 0; i < burst; i++ {
		out2 = append(out2, bpool.Get())
	}
	distinct := true
	for i := range out2 {
		for j := 0; j < i; j++ {
			if out2[i] == out2[j] {
				distinct = false
			}
		}
	}
	websocket.VerifAssert(distinct, "C19.bpool.buffers-out-at-the-same-time-are-distinct")
	websocket.VerifObserve("bpool", cp, fill)
}
